#!/venv/bin/python
"""Single entry point:  run.py <ID> [--tier quick|thorough] [--replay FILE] [--only subcheck,…]"""
import argparse
import os
import sys

sys.path.insert(0, os.path.dirname(os.path.abspath(__file__)))


def main():
    ap = argparse.ArgumentParser()
    ap.add_argument('prop')
    ap.add_argument('--tier', default=os.environ.get('VERIF_TIER') or 'quick', choices=['quick', 'thorough'])
    ap.add_argument('--replay')
    ap.add_argument('--only')
    a = ap.parse_args()
    try:
        seed = int(os.environ.get('VERIF_SEED', '1'))
    except ValueError:
        seed = 1
    from harness import core
    try:
        if a.replay:
            return core.replay(a.prop.upper(), a.replay)
        rc = core.run_property(a.prop.upper(), a.tier, seed, only=a.only.split(',') if a.only else None)
        if a.only is None and not sys.flags.optimize and os.environ.get('VERIF_SKIP_OPTIMIZED') != '1':
            rc2 = core.run_optimized_child(a.prop.upper(), a.tier, seed)        # the same property with `python -O`
            rc = 1 if 1 in (rc, rc2) else 2 if 2 in (rc, rc2) else 0
        return rc
    except Exception:
        import traceback
        traceback.print_exc()
        print('HARNESS-ERROR (exit 2, not a violation)', file=sys.stderr)
        return 2


if __name__ == '__main__':
    sys.exit(main())
