#!/bin/sh
# MANIFEST.setup_cmd — make hypothesis (required) and atheris (optional: thorough-tier fuzzing campaigns) importable
# for /venv/bin/python, offline, from the wheelhouse.
set -e
cd "$(dirname "$0")"
mkdir -p .deps
if /venv/bin/python -c "import hypothesis" 2>/dev/null; then
  echo "hypothesis already importable in /venv"
else
  PIP_NO_INDEX=1 /venv/bin/pip install --no-index --find-links /opt/veriftools/wheels --target .deps hypothesis
fi
/venv/bin/python -c "import sys; sys.path.append('.deps'); import hypothesis; print('hypothesis', hypothesis.__version__)"
if /venv/bin/python -c "import sys; sys.path.append('.deps'); import atheris" 2>/dev/null; then
  echo "atheris already importable"
else
  PIP_NO_INDEX=1 /venv/bin/pip install --no-index --find-links /opt/veriftools/wheels --target .deps atheris >/dev/null 2>&1 \
    && echo "atheris installed into .deps" || echo "atheris not installable: thorough-tier campaigns will be skipped (no verdict depends on them)"
fi
