#!/bin/sh
# MANIFEST.setup_cmd — make hypothesis importable for /venv/bin/python, offline.
set -e
cd "$(dirname "$0")"
if /venv/bin/python -c "import hypothesis" 2>/dev/null; then
  echo "hypothesis already importable in /venv"
else
  mkdir -p .deps
  PIP_NO_INDEX=1 /venv/bin/pip install --no-index --find-links /opt/veriftools/wheels --target .deps hypothesis
fi
/venv/bin/python -c "import sys; sys.path.append('.deps'); import hypothesis; print('hypothesis', hypothesis.__version__)"
