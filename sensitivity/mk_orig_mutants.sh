#!/bin/sh
# For every "fix:" commit in /repo, write the reverse patch (re-introducing the original defect) as
# sensitivity/mutants/orig-<short sha>.patch. Each of them must be caught by the check of the property it was found by.
cd /repo
for c in $(git log --format=%h --grep='^fix:' ); do
  case "$c" in 296d65e|62c24df|9a6d9bb|698c11c|b19e296) continue;; esac  # later fixes touch the same lines: hand-rebased as orig-<sha>-rebased.patch
  git diff $c $c^ > /verif/sensitivity/mutants/orig-$c.patch
  echo "orig-$c: $(git log -1 --format=%s $c)"
done
