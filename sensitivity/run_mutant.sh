#!/bin/sh
# usage: run_mutant.sh <patch> <ID> [tier]   — applies <patch> to a scratch copy of /repo (outside /repo and /verif),
# runs the repository test-suite there (mutant must survive it), then the property's check with VERIF_REPO=<scratch>.
# prints: SUITE=pass|fail CHECK_EXIT=<n>; removes the scratch copy.
set -u
PATCH=$(readlink -f "$1"); ID=$2; TIER=${3:-quick}
S=$(mktemp -d /tmp/mut.XXXXXX)
trap 'rm -rf "$S"' EXIT
# a clone (so that older patches can be merged 3-way against the blobs they were made from) + the current working tree on top
git clone -q /repo "$S" 2>/dev/null
rsync -a --exclude .git --exclude '*.egg-info' --exclude __pycache__ /repo/ "$S"/
( cd "$S" && { git apply --whitespace=nowarn "$PATCH" 2>/dev/null || git apply --3way --whitespace=nowarn "$PATCH" >/dev/null 2>&1; } \
  && ! grep -rl '^<<<<<<< ' pytoniq_core >/dev/null 2>&1 ) || { echo "PATCH-FAILED"; exit 3; }
( cd "$S" && PYTHONPATH="$S" /venv/bin/python -m pytest -q -x -p no:cacheprovider tests >"$S/suite.log" 2>&1 ) && SUITE=pass || SUITE=fail
[ "$SUITE" = fail ] && tail -5 "$S/suite.log"
( cd "$S" && PYTHONPATH="$S" /venv/bin/python -c "import pytoniq_core,sys; assert pytoniq_core.__file__.startswith('$S'), pytoniq_core.__file__" ) || echo "WARNING: scratch copy not imported"
VERIF_OUT_DIR="$S/out" VERIF_REPO="$S" /venv/bin/python /verif/run.py "$ID" --tier "$TIER" > "$S/check.log" 2>&1; RC=$?
grep -E "VIOLATION|signature=|KNOWN|HARNESS|cases," "$S/check.log" | head -12
echo "SUITE=$SUITE CHECK_EXIT=$RC"
