#!/bin/sh
# usage: try_seed.sh <ID> <dir containing patch.diff and demo.py> [tier] [extra IDs to run too]
# Confirms a seeded change (demo passes clean / fails patched, repository suite passes patched) in a scratch copy of /repo
# (outside /repo and /verif) and runs the property's check against it. Prints one summary line. Removes the scratch copy.
set -u
ID=$1; D=$(readlink -f "$2"); TIER=${3:-quick}
S=$(mktemp -d /tmp/seedtry.XXXXXX)
trap 'rm -rf "$S"' EXIT
rsync -a --exclude .git --exclude '*.egg-info' --exclude __pycache__ /repo/ "$S"/
cd "$S" && git init -q . >/dev/null 2>&1
PYTHONPATH="$S" timeout 600 /venv/bin/python "$D/demo.py" >"$S/demo_clean.log" 2>&1; DC=$?
git apply --whitespace=nowarn "$D/patch.diff" || { echo "SEED $ID $(basename $D): PATCH-FAILED"; exit 3; }
PYTHONPATH="$S" timeout 600 /venv/bin/python "$D/demo.py" >"$S/demo_patched.log" 2>&1; DP=$?
PYTHONPATH="$S" timeout 900 /venv/bin/python -m pytest -q -x -p no:cacheprovider tests >"$S/suite.log" 2>&1 && SUITE=pass || SUITE=fail
VERIF_OUT_DIR="$S/out" VERIF_REPO="$S" timeout 3000 /venv/bin/python /verif/run.py "$ID" --tier "$TIER" >"$S/check.log" 2>&1; RC=$?
SIGS=$(grep -o "signature=[^ ]*" "$S/check.log" | sort -u | head -4 | tr '\n' ' ')
echo "SEED $ID $(basename $(dirname $D))/$(basename $D): demo_clean=$DC demo_patched=$DP suite=$SUITE check_$TIER=$RC $SIGS"
[ "$RC" = 2 ] && grep -v conda "$S/check.log" | tail -5
exit 0
