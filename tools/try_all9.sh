#!/bin/sh
# usage: try_all9.sh <outfile> CNN/k ...   - like try_all.sh for the round-9 output dirs /tmp/s9-CNN-out/k
OUT=$1; shift
for x in "$@"; do echo "$x"; done | xargs -P 3 -I{} sh -c 'p=$(echo {} | cut -d/ -f1); k=$(echo {} | cut -d/ -f2); /verif/tools/try_seed.sh $p /tmp/s9-$p-out/$k 2>&1 | grep -v conda' >> "$OUT"
