#!/usr/bin/env python3
"""keep_seed.py <PROP> <src dir with patch.diff demo.py notes.md> <slug> <caught_by: e.g. 'C01 quick: signature ...'> [strengthened: text]
archives a confirmed seeded change under /verif/seeded/<PROP>-<slug>/ with meta.json"""
import json, os, shutil, sys
prop, src, slug, caught = sys.argv[1:5]
strengthened = sys.argv[5] if len(sys.argv) > 5 else ''
dst = f'/verif/seeded/{prop}-{slug}'
os.makedirs(dst, exist_ok=True)
for f in ('patch.diff', 'demo.py', 'notes.md'):
    if os.path.exists(os.path.join(src, f)):
        shutil.copy(os.path.join(src, f), os.path.join(dst, f))
notes = open(os.path.join(dst, 'notes.md')).read() if os.path.exists(os.path.join(dst, 'notes.md')) else ''
meta = {
    'property': prop,
    'origin': 'independent sub-agent given only the property text and a scratch worktree of /repo (nothing from /verif)',
    'needs_to_manifest': notes.strip()[:1500],
    'confirmed_by': 'tools/try_seed.sh: scratch copy of /repo; demo.py exits 0 on the clean copy and non-zero with patch.diff applied; '
                    'the repository test-suite (51 tests) passes with patch.diff applied',
    'check_result': caught,
    'check_strengthened_because_of_it': strengthened,
    'how_to_rerun': f'/verif/tools/try_seed.sh {prop} /verif/seeded/{prop}-{slug}',
}
json.dump(meta, open(os.path.join(dst, 'meta.json'), 'w'), indent=1)
print('kept', dst)
