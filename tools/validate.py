import json, sys, glob, jsonschema
m = json.load(open('/verif/MANIFEST.json'))
jsonschema.validate(m, json.load(open('/root/.vp/MANIFEST.schema.json')))
s = json.load(open('/root/.vp/EVIDENCE.schema.json'))
for c in m['checks']:
    try:
        jsonschema.validate(json.load(open(c['evidence_file'])), s)
    except FileNotFoundError:
        print('missing', c['evidence_file'])
print('valid:', len(m['checks']), 'checks', len(m.get('not_applicable', [])), 'not claimed')
