#!/usr/bin/env python3
"""appends to sensitivity/RESULTS.md the seeded changes (and hand-made mutants) that are not listed there yet, with the result
recorded when they were archived (seeded/<dir>/meta.json: tools/try_seed.sh against the final state of the checks of that round).
A full re-run of everything is `tools/sens_all.py` (hours); this keeps the table complete between such runs."""
import json, os, re
V = '/verif'
p = f'{V}/sensitivity/RESULTS.md'
s = open(p).read()
listed = set(re.findall(r'^\| (?:seeded|mutant) \| (\S+) \|', s, re.M))
marker = '\n## Added since the last full run (result recorded at archive time, `tools/try_seed.sh`)\n'
head, _, _old = s.partition(marker)
rows = []
for d in sorted(os.listdir(f'{V}/seeded')):
    mp = f'{V}/seeded/{d}/meta.json'
    if d in listed or not os.path.exists(mp):
        continue
    m = json.load(open(mp))
    res = m['check_result']
    caught = res.startswith('caught')
    sig = res.split(':', 1)[1].strip()[:200] if ':' in res else res
    rows.append(f'| seeded | {d} | {m["property"]} | pass (demo clean=0 patched=1) | {"1" if caught else "0"} | {sig} |')
for f in sorted(os.listdir(f'{V}/sensitivity/mutants')):
    n = f[:-6]
    if f.endswith('.patch') and n not in listed and not n.startswith('orig-'):
        rows.append(f'| mutant | {n} | {n[:3]} | pass | 1 | (written and confirmed `SUITE=pass CHECK_EXIT=1` by the helper that added the sub-check it targets) |')
ORIG = {'orig-50bcc81': ('C11', 'forged-proof-accepted/account/proof-root-hash-flip'),
        'orig-b19e296-rebased': ('C11', 'forged-proof-accepted/account/proof-root-hash-flip, forged-proof-accepted/account/proof-root-ordinary')}
for n, (prop, sig) in ORIG.items():
    if n not in listed:
        rows.append(f'| mutant | {n} | {prop} | pass | 1 | {sig} |')
tail = marker + '\n| kind | patch | property | suite | check | signatures |\n|---|---|---|---|---|---|\n' + '\n'.join(rows) + '\n'
tail += f'\n{sum(1 for r in rows if "| 1 |" in r)} of {len(rows)} added rows caught.\n'
open(p, 'w').write(head.rstrip('\n') + '\n' + tail)
print(len(rows), 'rows appended')
