#!/usr/bin/env python3
"""prints the prompt handed to an independent 'adversary' sub-agent for property <ID> (only the property text + its worktree)"""
import json, sys
pid = sys.argv[1]
p = next(json.loads(l) for l in open('/verif/properties.jsonl') if json.loads(l)['id'] == pid)
W = f'/tmp/seed-{pid}'
print(f"""You are playing the adversary to test a verification framework you know nothing about. Work ONLY inside the git worktree {W} (a checkout of the Python library yungwine/pytoniq-core: pure-Python TON blockchain primitives) and the output directory {W}-out. Do NOT read or write anything under /verif or /repo, and do not run git commit. Run Python as `cd {W} && PYTHONPATH={W} /venv/bin/python prog.py` (check once that `pytoniq_core.__file__` starts with {W}); the existing test-suite is `cd {W} && PYTHONPATH={W} /venv/bin/python -m pytest -q -p no:cacheprovider tests` (51 tests, all pass). Shell commands print a harmless 'WARNING conda...' line; ignore it. Never `cat` pytoniq_core/crypto/keys.py (huge line).

PROPERTY ({p['id']}: {p['title']}):
{p['statement']}

TASK: produce TWO independent source changes to the library (different sites or mechanisms), each of which makes the library VIOLATE this property while (a) the package still imports and (b) all 51 existing tests still pass. Each should be a realistic regression a maintainer could plausibly introduce (a refactor, an optimisation, a 'simplification', an off-by-one, a wrong branch for a rare case, a forgotten copy) - not sabotage that ordinary use would expose at once. Each change must need something SPECIFIC to manifest: an unusual input (a boundary size, a rare flag combination, a particular level/mask/width, ...), a multi-step sequence of operations, or two cooperating sites that each look fine alone. Most everyday inputs must keep behaving correctly.

For each change k in {{1, 2}} write into {W}-out/k/ :
  patch.diff  - `git diff` against the worktree HEAD; must apply with `git apply` on a clean checkout
  demo.py     - small stand-alone program (imports pytoniq_core from PYTHONPATH) that exits 0 on the unmodified code and fails (assertion / non-zero exit) with the patch applied; it must demonstrate a violation of the property AS STATED above, checked against an independent expectation (a hand-computed value, a spec formula, a round trip ...), not merely "the output changed"
  notes.md    - what the change breaks, exactly what is needed to trigger it, why the 51 tests do not notice
Verify yourself for each k: demo passes on the clean tree; with the patch applied the demo fails AND the 51 tests pass. Finish with the worktree clean (`git -C {W} checkout -- .`, no stray files). Final answer: <= 15 lines summarising the two changes and your verification results.""")
