#!/venv/bin/python
"""mkmut.py NAME FILE OLD NEW [FILE OLD NEW ...] — make a mutant patch from exact string replacements in a scratch copy
of /repo (/tmp/mwork), written to /verif/sensitivity/mutants/NAME.patch"""
import subprocess, sys, os
W = os.environ.get('MWORK', '/tmp/mwork')
name = sys.argv[1]
subprocess.run(f'rm -rf {W} && mkdir -p {W} && rsync -a --exclude .git --exclude "*.egg-info" --exclude __pycache__ /repo/ {W}/ && cd {W} && git init -q . && git add -A >/dev/null && git commit -qm base', shell=True, check=True, stdout=subprocess.DEVNULL)
args = sys.argv[2:]
for i in range(0, len(args), 3):
    f, old, new = args[i:i + 3]
    p = os.path.join(W, f)
    s = open(p).read()
    old = old.encode().decode('unicode_escape'); new = new.encode().decode('unicode_escape')
    assert s.count(old) >= 1, f'pattern not found in {f}: {old!r}'
    s = s.replace(old, new, 1)
    open(p, 'w').write(s)
out = f'/verif/sensitivity/mutants/{name}.patch'
d = subprocess.run(f'cd {W} && git diff', shell=True, capture_output=True, text=True).stdout
open(out, 'w').write(d)
print(out, len(d.splitlines()), 'lines')
