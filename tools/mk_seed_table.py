#!/usr/bin/env python3
"""regenerates the table of DESIGN.md §12 (between the SEEDED-TABLE markers) from /verif/seeded/*/meta.json"""
import json, os, re
V = '/verif'
rows = []
for d in sorted(os.listdir(f'{V}/seeded')):
    mp = f'{V}/seeded/{d}/meta.json'
    if not os.path.exists(mp):
        continue
    m = json.load(open(mp))
    needs = m['needs_to_manifest'].replace('\n', ' ')
    needs = re.sub(r'\s+', ' ', needs)
    needs = re.sub(r'^#+\s*', '', needs)[:230]
    st = m.get('check_strengthened_because_of_it', '')
    rows.append(f'| `{d}` | {needs}… | {m["check_result"]} | {"**" + st + "**" if st else "no (caught as built)"} |')
table = ['| seeded change | what it breaks / needs (from its notes.md) | result of the property\'s quick check | check strengthened? |', '|---|---|---|---|'] + rows
p = f'{V}/DESIGN.md'
s = open(p).read()
a, b = '<!-- SEEDED-TABLE-BEGIN -->', '<!-- SEEDED-TABLE-END -->'
new = a + '\n' + '\n'.join(table) + '\n' + b
if a in s:
    s = s[:s.index(a)] + new + s[s.index(b) + len(b):]
    open(p, 'w').write(s)
    print('table updated:', len(rows), 'rows')
else:
    print(new)
