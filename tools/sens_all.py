#!/venv/bin/python
"""Runs every mutant patch of sensitivity/mutants and every seeded change of seeded/ against the check of its property
(scratch copies, never /repo) and writes sensitivity/RESULTS.md.  usage: sens_all.py [-j N] [filter]"""
import json, os, re, subprocess, sys
from concurrent.futures import ThreadPoolExecutor
V = '/verif'
args = sys.argv[1:]
J = 3
if args and args[0] == '-j':
    J = int(args[1]); args = args[2:]
flt = args[0] if args else ''
fixed = json.load(open(f'{V}/tools/fixed_map.json'))
jobs = []
for f in sorted(os.listdir(f'{V}/sensitivity/mutants')):
    if not f.endswith('.patch') or flt not in f:
        continue
    m = re.match(r'(C\d\d)-', f)
    if m:
        prop = m.group(1)
    elif f.startswith('orig-'):
        prop = fixed.get(f[5:-6])
        if prop is None:
            continue
    else:
        continue
    jobs.append(('mutant', f[:-6], prop, f'{V}/sensitivity/mutants/{f}'))
if os.path.isdir(f'{V}/seeded'):
    for d in sorted(os.listdir(f'{V}/seeded')):
        if flt in d and os.path.exists(f'{V}/seeded/{d}/patch.diff'):
            jobs.append(('seeded', d, d[:3], f'{V}/seeded/{d}'))

def run(job):
    kind, name, prop, path = job
    env = dict(os.environ)
    if kind == 'mutant':
        if '-tx-' in name: env['VERIF_C16_PART'] = 'tx'
        if '-blk-' in name: env['VERIF_C16_PART'] = 'blk'
        r = subprocess.run([f'{V}/sensitivity/run_mutant.sh', path, prop], capture_output=True, text=True, env=env)
        out = r.stdout + r.stderr
        suite = (re.search(r'SUITE=(\w+)', out) or [None, '?'])[1]
        rc = (re.search(r'CHECK_EXIT=(\d+)', out) or [None, '?'])[1]
        if 'PATCH-FAILED' in out:
            suite, rc = 'patch-failed', '-'
        sigs = sorted(set(re.findall(r'signature=(\S+)', out)))[:3]
        return kind, name, prop, suite, rc, ', '.join(sigs)
    r = subprocess.run([f'{V}/tools/try_seed.sh', prop, path], capture_output=True, text=True, env=env)
    out = r.stdout
    m = re.search(r'demo_clean=(\d+) demo_patched=(\d+) suite=(\w+) check_quick=(\d+) ?(.*)', out)
    if not m:
        return kind, name, prop, '?', '?', out[-200:]
    return kind, name, prop, f'{m.group(3)} (demo clean={m.group(1)} patched={m.group(2)})', m.group(4), m.group(5).replace('signature=', '')[:200]

with ThreadPoolExecutor(J) as ex:
    res = list(ex.map(run, jobs))
lines = ['# Sensitivity results', '',
         'Every patch is applied to a scratch copy of /repo (never /repo itself); `suite` = the repository\'s 51 tests on the patched copy;',
         '`check` = exit code of the property\'s quick check against the patched copy (1 = VIOLATION reported = caught).',
         '`orig-<sha>` = the reverse of a `fix:` commit (re-introduces a defect found on the pinned tree). `seeded` = changes written by',
         'independent sub-agents that saw only the property text (see /verif/seeded/*/meta.json).', '',
         '| kind | patch | property | suite | check | signatures |', '|---|---|---|---|---|---|']
for kind, name, prop, suite, rc, sigs in res:
    lines.append(f'| {kind} | {name} | {prop} | {suite} | {rc} | {sigs} |')
caught = sum(1 for r in res if r[4] == '1'); tot = len(res)
lines += ['', f'{caught} of {tot} caught (check exit 1).']
if not flt:
    open(f'{V}/sensitivity/RESULTS.md', 'w').write('\n'.join(lines) + '\n')
print('\n'.join(lines[-(tot + 3):]))
