#!/usr/bin/env python3
"""arch_batch.py <json file>: {"C01/1": ["slug", "strengthened text or empty"], ...} - confirms each seeded change in /tmp/seed-<ID>-out/<k>
with tools/try_seed.sh (final state of the checks) and archives it with tools/keep_seed.py"""
import subprocess, re, json, sys
spec = json.load(open(sys.argv[1]))
for key, (slug, strength) in spec.items():
    pid, k = key.split('/')
    d = f'/tmp/seed-{pid}-out/{k}'
    out = subprocess.run(['/verif/tools/try_seed.sh', pid, d], capture_output=True, text=True).stdout
    m = re.search(r'demo_clean=(\d+) demo_patched=(\d+) suite=(\w+) check_quick=(\d+) ?(.*)', out)
    if not m or m.group(1) != '0' or m.group(2) == '0' or m.group(3) != 'pass':
        print(key, 'NOT CONFIRMED', out.strip()[-200:]); continue
    rc, sigs = m.group(4), m.group(5)
    sig = ', '.join(x.replace('signature=', '') for x in sigs.split()[:3])
    caught = f'caught by {pid} quick: {sig}' if rc == '1' else f'MISSED by {pid} quick (exit {rc})'
    print(key, caught, flush=True)
    subprocess.run(['/usr/bin/python3', '/verif/tools/keep_seed.py', pid, d, slug, caught, ('yes: ' + strength) if strength else ''])
