#!/usr/bin/env python3
"""arch_batch.py <json file> [base dir pattern, default /tmp/seed-{pid}-out/{k}] [filter]: {"C01/1": ["slug", "strengthened text or empty"], ...}
confirms each seeded change with tools/try_seed.sh (final state of the checks; 4 at a time) and archives it with tools/keep_seed.py"""
import subprocess, re, json, sys
from concurrent.futures import ThreadPoolExecutor
spec = json.load(open(sys.argv[1]))
fmt = sys.argv[2] if len(sys.argv) > 2 else '/tmp/seed-{pid}-out/{k}'
flt = sys.argv[3].split(',') if len(sys.argv) > 3 else None


def one(item):
    key, (slug, strength) = item
    pid, k = key.split('/')
    if flt and pid not in flt:
        return
    d = fmt.format(pid=pid, k=k)
    out = subprocess.run(['/verif/tools/try_seed.sh', pid, d], capture_output=True, text=True).stdout
    m = re.search(r'demo_clean=(\d+) demo_patched=(\d+) suite=(\w+) check_quick=(\d+) ?(.*)', out)
    if not m or m.group(1) != '0' or m.group(2) == '0' or m.group(3) != 'pass':
        print(key, 'NOT CONFIRMED', out.strip()[-200:], flush=True)
        return
    rc, sigs = m.group(4), m.group(5)
    sig = ', '.join(x.replace('signature=', '') for x in sigs.split()[:3])
    caught = f'caught by {pid} quick: {sig}' if rc == '1' else f'MISSED by {pid} quick (exit {rc})'
    print(key, caught, flush=True)
    subprocess.run(['/usr/bin/python3', '/verif/tools/keep_seed.py', pid, d, slug, caught, ('yes: ' + strength) if strength else ''])


with ThreadPoolExecutor(4) as ex:
    list(ex.map(one, spec.items()))
