#!/bin/sh
# usage: try_all.sh <outfile> CNN/k ...   - runs tools/try_seed.sh for each /tmp/seed-CNN-out/k, 4 at a time; appends summary lines to <outfile>
OUT=$1; shift
for x in "$@"; do echo "$x"; done | xargs -P 4 -I{} sh -c 'p=$(echo {} | cut -d/ -f1); k=$(echo {} | cut -d/ -f2); /verif/tools/try_seed.sh $p /tmp/seed-$p-out/$k 2>&1 | grep -v conda' >> "$OUT"
