#!/venv/bin/python
"""Regenerates /verif/MANIFEST.json from the table below and validates it against the schema."""
import json, os, sys
V = os.path.dirname(os.path.dirname(os.path.abspath(__file__)))
PY = '/venv/bin/python'

# id -> (technique, level text, level note, design ref)
CHECKS = {
 'C13': ('exhaustive enumeration (256 wc x 8 variants; all 48x63 substitutions) + Hypothesis generation vs independent TEP-2 renderer',
         'Generated-input search: every workchain x variant rendered and parsed against an independent TEP-2/CRC-16 reference; every single-character substitution of sampled addresses must be rejected. Exploration, not proof: account ids are sampled.',
         'Trusts harness/ref/refaddr.py + refcrc.py (bitwise CRC, self-checked on the standard check value) and python base64.', '§6 C13'),
 'C18': ('exhaustive enumeration of all 0/1/2-byte strings + Hypothesis random strings vs bitwise CRC reference',
         'Differential test against bitwise CRC-16/XMODEM and CRC-32C: all strings of length <=2 exhaustively (reaches every table entry from every high-byte state), structured and random longer strings.',
         'Trusts the bitwise reference (self-checked against the published check values 0x31C3 / 0xE3069283).', '§6 C18'),
}
CHECKS.update({
 'C01': ('exhaustive enumeration (all 1024 bit lengths x 3 fills x 0..4 refs) + Hypothesis DAG generation, differential vs independent recursive cell-hash model, all construction routes',
         'Differential test of every node of generated ordinary-cell DAGs (sharing, chains/ladders to depth 1023) against an independent reference of the TON representation hash/depth, through builder, Cell(TvmBitarray), Cell(plain bitarray), parsed reference-encoded BoC, copy, slice and builder conversions; equality/hash/dict-key behaviour checked against hash equality on planted clones and near-clones.',
         'Trusts hashlib.sha256 and harness/ref/refcell.py (reproduces the two hashes pinned in tests/test_cell.py). Exploration: bit contents are sampled, lengths/ref counts exhaustive.', '§6 C01'),
 'C02': ('exhaustive enumeration of pruned masks 1..7 x parent shapes + Hypothesis exotic-DAG generation: differential vs reference model and model-free metamorphic pruning relation',
         'Two independent oracles: (1) reference model of level masks and per-level hashes/depths for pruned/library/Merkle proof/Merkle update cells at every node, through builder, constructor and BoC-parse routes (must not raise); (2) model-free metamorphic relation: replacing a node by its pruned branch of level d leaves get_hash(j)/get_depth(j) of every ancestor unchanged whenever j + (Merkle cells on the path) < d.',
         'Trusts refcell.py for oracle 1 (validated on the pinned main-net block for masks 0/1; masks >=2 cross-checked by oracle 2, which needs no model).', '§6 C02'),
 'C20': ('exhaustive enumeration (all 512 signature bit flips; id-order grid) + Hypothesis generation; two-ended relational oracle, libsodium as independent verifier, independent mnemonic derivation',
         'Both peers of an ADNL channel are modelled for generated seed pairs (both id orders, equal ids) and both directions checked with the packet-layout facts; signatures verified positively by libsodium and negatively under every tamper kind; generated mnemonics validated against an independent statement of the rule and key derivation against an independent PBKDF2 derivation.',
         'Trusts libsodium (PyNaCl), hashlib/hmac, harness/ref/refkeys.py. mnemonic_new draws from os.urandom (drawn words saved in the failure detail).', '§6 C20'),
})
CHECKS.update({
 'C03': ('Hypothesis DAG generation x all 6 option sets x 3 entry points x 4 input forms + enumerated size-boundary DAGs; round-trip oracle against independent reference tree',
         'Round-trip: every generated DAG (ordinary and exotic, shared sub-cells) is serialised by the library under each of the 6 valid option sets and parsed back through Cell/Slice/Builder entry points from bytes, hex (both cases) and base64; the result must have the hash and the deep structure of the independent reference tree it was built from. Boundary sub-check hits 255/256/257 cells, 254..257 payload bytes, depth-1023 chain/ladder (thorough: 65535..65537).',
         'Trusts refcell.py for the expected structure/hash. Exploration of an infinite domain.', '§6 C03'),
 'C04': ('differential: library writer vs independent strict serialized_boc decoder, on generated DAGs x 6 option sets + size boundaries',
         'Every emission is decoded by an independent strict implementation of crypto/tl/boc.tlb which checks magic, flag bits vs requested options, field widths, distinct-cell count, forward-only references, cumulative (doubled under cache bits) index, CRC-32C by a bitwise reference, reachability and absence of trailing bytes, and must yield the same DAG. Catches self-consistent but non-conforming writer/reader pairs that round-trips cannot.',
         'Trusts harness/ref/refboc.py (transcribed from boc.tlb) and refcrc.py.', '§6 C04'),
 'C05': ('Hypothesis generation of foreign encodings through a reference encoder exposing every encoder freedom; exhaustive prefix/bit-flip/extension corruption families per encoding; one-directional byte-mutation fuzz',
         'Positive: encodings produced by an independent encoder with random magic (3 kinds), size/off_bytes slack, index, cache bits, CRC, stored hashes on random cells, 1..4 roots and a random linear extension must parse to exactly the denoted roots. Negative: every proper prefix, 1..8 appended bytes, every single-bit flip of CRC-protected encodings (exhaustive up to 150 bytes), and dangling/backward/self reference rewrites (CRC recomputed or absent) must raise.',
         'Trusts refboc.py/refcell.py. Rejection of other malformed inputs is not asserted (not in the statement).', '§6 C05'),
 'C19': ('operation-count budgets (sys.setprofile call counting inside pytoniq_core) on enumerated maximal-sharing DAGs and Hypothesis-generated adversarial inputs; per-case CPU ceiling as secondary signal',
         'Deterministic operation counting replaces wall-clock: to_boc / from_boc / hashing of doubling ladders (height up to 200, thorough 1000), lattices and random DAGs must stay within linear bounds in n+e (measured constants ~7-10x below the bound); the BoC parser on encodings with inflated count fields and on random byte strings must stay within a bound linear in the input length. The statement\'s "fraction of a second" is replaced by these hardware-independent counts plus a 10 s CPU ceiling per case.',
         'Counts Python-level calls inside the library only (C-level loops are covered by the CPU ceiling). Bounds are linear with generous constants: a quadratic regression is caught from ~100 cells on, an exponential one immediately.', '§6 C19'),
})
CHECKS.update({
 'C06': ('exhaustive boundary grids (every width x boundary values; every var-int byte length; every external-address length; every anycast depth) + Hypothesis capacity-constructed typed sequences; round-trip + bit-exact oracle vs independent TL-B writer',
         'Typed store/load sequences constructed against a running capacity model are stored with Builder and compared bit for bit with an independent TL-B bit-string writer, then loaded back (with preload before every load) and compared value for value, requiring nothing left unread. Exhaustive grids cover every width, every variable-length byte class (incl. top-bit-set values), all address forms incl. anycast and zero-length external addresses, and snake strings 0..1000 bytes.',
         'Trusts harness/ref/refbits.py (self-tested on hand-computed vectors). Where the snake chain is cut is not asserted (TEP-64 does not fix it).', '§6 C06'),
 'C09': ('exhaustive enumeration of all key subsets for widths 1..3 (thorough: 4) + Hypothesis maps over widths 1..1023, key forms and value kinds; model = python dict',
         'Model-based round trip: maps are inserted in generated orders through every key form, serialised, and read back through load_hashmap / HashMap.parse / from_cell / load_dict / preload_dict (also at a non-zero slice offset); results must equal the dict model, be in ascending key order and be independent of insertion order; maps whose canonical tree cannot fit a cell must raise; out-of-range and negative keys must be rejected.',
         'Trusts refdict.py only to decide whether a tree fits in cells. Key contents are sampled for widths > 4.', '§6 C09'),
 'C10': ('exhaustive enumeration of all (max_len, len, uniform) label triples (thorough: all 1 574 400) + Hypothesis trees; differential vs reference dict.cpp rules; foreign-encoding completeness incl. pruned subtrees',
         'The label-kind decision is compared with the dict.cpp rule for every triple; serialised maps must hash like the independently built canonical Patricia tree; trees built by the reference with an arbitrary valid label kind per edge, HashmapAug trees with extras, and trees with edges replaced by pruned branches must parse to exactly the non-pruned leaves (extras as a multiset).',
         'Trusts refdict.py (transcription of append_dict_label/_same; reproduces the hash pinned in tests/test_hashmap.py) and refcell.py.', '§6 C10'),
 'C17': ('enumerated structured grid + Hypothesis stacks and continuations; round-trip, independent VmStack schema decoder, snapshot-equality of caller-held values',
         'Generated stacks (ints at the 64/257-bit form boundaries, cells, partly consumed slices, builders, nested tuples of length 0,1,2,3+, all ten continuation kinds with control data) are serialised twice; an independent decoder working only on bits/refs must read the VmStack schema values, the library must read back equal values, both cells must be equal and every caller-held value must equal its pre-call snapshot.',
         'Trusts harness/ref/refvmstack.py (self-tested on hand-assembled encodings). vm_stk_nan not covered.', '§6 C17'),
})
CHECKS.update({
 'C12': ('exhaustive enumeration (0..5 validators x weight patterns x every signer subset x 9 adversarial list shapes) + Hypothesis generation with weights engineered around the 2/3 threshold; oracle by construction of the case',
         'The harness creates every key and therefore knows what each list entry is (valid by member i, a second distinct valid signature by the same member made with another nonce, bit-flipped, valid for another block id, by a non-member, impersonation) and decides accept/reject from the statement alone: non-empty set, all entries valid members, signers pairwise distinct, 3*signed > 2*total. The library must return exactly in the accept cases and raise in all others; weights up to 2^62 and margins 3*signed-2*total in -3..3 are constructed, not sampled.',
         'Trusts PyNaCl Ed25519 signing, an RFC 8032 signer with a chosen nonce (self-checked against libsodium verification), hashlib, and the TL constructor ids computed by harness/ref/reftl.py from the bundled schema text.', '§6 C12'),
 'C14': ('enumeration of EVERY supported bundled constructor (k values each) and every flag combination + Hypothesis values; differential vs independent TL schema parser/encoder/decoder (reftl); round-trip; block-id helper laws',
         'An independent parser of the bundled .tl text computes constructor ids and field lists; for every supported constructor of lite_api.tl and ton_api.tl generated well-typed values (all flag combinations up to 6 bits, string/bytes lengths 0..12, 252..257, 1000, 70000, nested and polymorphic objects, vectors, # fields with bit 31) must serialise to exactly the reference bytes and the reference bytes must parse back to the value consuming all bytes. BlockId/BlockIdExt conversions and hashing laws are checked on generated ids.',
         'Trusts harness/ref/reftl.py (anchored on well-known constructor ids and the ids pinned in tests/test_tl.py), zlib.crc32. Excludes (listed in evidence) constructors with pseudo-types the generator does not implement and names declared differently in several bundled files.', '§6 C14'),
})
CHECKS.update({
 'C11': ('Hypothesis generation of trees, prune sets and proof mutations built by an independent cell-hash model; completeness oracle (honest proof accepted, extracted state hash = committed hash) + soundness oracle by construction (mutant invalid iff a committed hash differs)',
         'Trees (ordinary and exotic, normalised to level 0), block-shaped roots with a Merkle update over pruned/full/partly pruned states, and hand-encoded ShardStateUnsplit cells with account dictionaries are pruned by the reference model (create_pruned_branch at the right Merkle depth) into proofs that must be accepted by check_proof / check_block_header_proof / check_account_proof; every mutant whose committed level-0 hash, stored root hash or cell kind differs (bit flips, reference drop/swap/duplicate/retarget, substituted pruned hashes and depths, level-lifted pruned branches with attacker-chosen lower hashes, wrong expected hash, forged state below a lifted Merkle-update child, claimed account state that is a pruned branch / another account / one bit off, other address, wrong root count) must raise, and a mutant that keeps the block hash must not change the extracted state hash.',
         'Trusts harness/ref/refcell.py (validated in C01/C02), refdict/refbits writers, sha256 collision freedom. Rejection of a changed depth field of the proof root and of internally inconsistent exotic cells whose committed hash is intact is not asserted.', '§6 C11'),
})
CHECKS.update({
 'C15': ('enumerated grids (header kind x extra currencies x state-init shapes x placement x body size at inline capacity -1/0/+1 in bits and refs; near-full headers 1003..1023 bits) + Hypothesis messages and wrapper values; three-way oracle: never-fails, independent TL-B decoder (reftlb), library parser on every valid placement',
         'Messages are generated as plain TL-B values by the declarative reference interpreter; (A) MessageAny.serialize must succeed whenever at least one of the four init/body placements fits a cell, (B) the produced cell must decode under the independent schema reading to the same logical message, (C) MessageAny.deserialize must return the same message from the library-produced cell and from every other valid placement encoded by the reference. Same scheme for StateInit, CurrencyCollection, ExtraCurrencyCollection, wallet v3/v4/highload data, NFT item data and HashUpdate. Self-consistent writer/reader errors are caught by the independent decoder.',
         'Trusts harness/ref/reftlb.py + tlb_msg.py (self-checked on hand-assembled bit strings), refdict/refcell. addr_var, relaxed headers and exotic body/init cells are outside the domain (no library API).', '§6 C15'),
})
CHECKS.update({
 'C07': ('model-based programs-as-cases (store sequences with arguments drawn relative to the remaining capacity: exact fit / one too many / one fewer) + exhaustive range grid (every width x first out-of-range values x fill levels) + exhaustive read-bound grid (every remaining length 0..1023 x 10 slice routes x every consuming read: largest in-bounds and smallest over-read request)',
         'A model of the exact bit string and reference depths decides for every step of a generated builder program whether the store fits and the value is in range: then it MUST succeed and leave exactly the model content, otherwise it MUST raise; after every step the 1023-bit / 4-reference / depth-1023 limits and end_cell() are checked (children of depth 1022/1023 included; partly consumed slices judged on what remains). Every consuming read on slices from every route (builder, parsed BoC, plain-bitarray cell, copies, partial consumption) must raise when it asks for more than remains and return exactly the model data otherwise.',
         'Trusts harness/ref/refbits.py writers and the capacity arithmetic of the model (TL-B sizes). Atomicity of refused composite stores, preload over-reads and exception types are not asserted.', '§6 C07'),
 'C08': ('programs-as-cases over a pool of cells, slices and builders with a snapshot invariant after every operation + exhaustive constructor grid (every length 0..1023 x plain/TvmBitarray) + derive-mutate grid + history-independence (same observation fresh / after a prefix program / rebuilt)',
         'An interpreter executes generated operation sequences (derive by begin_parse/to_slice/from_cell/to_builder/copy/to_cell, consume and skip on slices, store into builders incl. after end_cell, to_boc under all option sets, order() with and without argument, hashing, repr, dictionary and TL-B parse attempts, VmStack/HashMap serialisation of caller-held values) and after EVERY operation requires every pooled cell to equal its creation snapshot (hash, bits, type, child hashes, two serialisations), every untouched slice/builder and every argument of a library call to be unchanged, order() to list exactly the distinct cells, and repeated observations to be identical and independent of earlier calls.',
         'Snapshots are taken with the library itself (the property is about change, not about correctness of the values - that is C01-C05). Caller-side mutation of cell.bits/cell.refs or of the containers passed to a constructor is not asserted.', '§6 C08'),
})
CHECKS.update({
 'C16': ('enumeration of every constructor alternative x optional-field/flag combination + Hypothesis values over declarative TL-B tables transcribed from block.tlb (independent interpreter reftlb); oracle: field-by-field comparison of the parsed object + sentinel-tail consumption; bundled main-net block decoded independently',
         'For 51 top-level types (transactions with all 7 descriptions and every phase variant, accounts, shard accounts, 9 InMsg / 10 OutMsg constructors, both envelopes, intermediate addresses, block header with all 16 flag combinations, value flows v1/v2, shard descriptors old/new with every FutureSplitMerge, validator sets #11/#12, validator descriptors, catchain configs, and as extended coverage McStateExtra, McBlockExtra, BlockExtra, ShardStateUnsplit, Block) values generated with a bias to top-bit-set integers are encoded by the reference interpreter, followed by a sentinel tail of extra bits and references, and parsed by the library: every schema field must be readable with the encoded value (same Python int - unsigned stays unsigned) and exactly the tail must remain. The real main-net block of tests/test_cell.py is decoded by the reference and compared component by component with Block.deserialize.',
         'Trusts harness/ref/reftlb.py and the tables tlb_tx.py / tlb_block.py / tlb_msg.py (about 115 hand-assembled bit strings pinned at import; constructors newer than the bundled block.tlb follow the class docstrings). type_ labels, addr_var addresses, raw tuple/dict wrappers (content only) are not asserted.', '§6 C16'),
})
NOT_YET = {}

def main():
    props = [json.loads(l) for l in open(os.path.join(V, 'properties.jsonl'))]
    na_path = os.path.join(V, 'tools', 'not_applicable.json')
    na = json.load(open(na_path)) if os.path.exists(na_path) else {}
    checks = []
    not_app = []
    for p in props:
        i = p['id']
        if i in CHECKS:
            tech, text, note, ref = CHECKS[i]
            tech += ('; histories (printed / copied / edited / re-used objects, re-entrant callbacks, designed coincidences) as plain-data cases'
                     + ('' if i == 'C19' else '; the generated cases again in overlapping threads (oracle = sequential result)')
                     + '; second pass of all sub-checks under python -O; odd shards under verbose logging with warnings as errors')
            note += ' Cross-cutting dimensions of DESIGN.md 9 (session 4) apply: formatting between operations, two threads (probabilistic: the schedule is the interpreter\'s), python -O pass, logging / warnings environment.'
            checks.append({
                'property_id': i,
                'quick_cmd': f'{PY} /verif/run.py {i} --tier quick',
                'thorough_cmd': f'{PY} /verif/run.py {i} --tier thorough',
                'evidence_file': f'/verif/evidence/{i}.json',
                'replay_cmd_template': f'{PY} /verif/run.py {i} --replay {{path}}',
                'engine': 'harness',
                'level_claimed': {'category': 'exploration', 'text': text, 'design_ref': 'DESIGN.md ' + ref},
                'level_note': note,
                'technique': tech,
            })
        else:
            not_app.append({'property_id': i, 'reason': na.get(i, 'check designed (DESIGN.md §6) but not yet implemented and validated; not claimed until it is')})
    m = {
        'version': 1,
        'setup_cmd': 'sh /verif/setup.sh',
        'hooks': {
            'guard': 'PYTONIQ_CORE_VERIF',
            'enable': 'none needed: pure-Python library imported from the working tree (VERIF_REPO, default /repo); operation counters are installed by harness-side monkey-patching, no source hooks',
            'baseline_off_cmd': 'cd /repo && /venv/bin/python -m pytest -ra -q -p no:cacheprovider --timeout=900 --continue-on-collection-errors',
            'source_commits': [],
            'add_only': True,
        },
        'engines': [{'name': 'harness', 'path': '/verif/harness', 'serves_properties': sorted(CHECKS),
                     'kind_free_text': 'Hypothesis 6.168 strategies + exhaustive enumerators over plain-data cases, independent reference models in harness/ref, 16-process sharding, replay files'}],
        'checks': checks,
        'notes': 'Exit 0 = held (KNOWN-FINDING lines allowed), 1 = VIOLATION line + replay file, 2 = harness error/inconclusive. VERIF_SEED seeds every Hypothesis sub-check; enumerations ignore it. Known findings: /verif/known_findings.json.',
        'not_applicable': not_app,
    }
    with open(os.path.join(V, 'MANIFEST.json'), 'w') as f:
        json.dump(m, f, indent=1)
    try:
        sys.path.append('/opt/veriftools/pyvenv/lib/python3.11/site-packages')
        import jsonschema
        jsonschema.validate(m, json.load(open('/root/.vp/MANIFEST.schema.json')))
        ev_schema = json.load(open('/root/.vp/EVIDENCE.schema.json'))
        for c in checks:
            if os.path.exists(c['evidence_file']):
                jsonschema.validate(json.load(open(c['evidence_file'])), ev_schema)
        print('MANIFEST.json valid;', len(checks), 'checks,', len(not_app), 'not claimed; evidence files valid')
    except ImportError:
        print('jsonschema not importable; wrote MANIFEST.json unvalidated')

main()
