#!/venv/bin/python
"""rewrites the 'fixed' list of known_findings.json from /repo's fix: commits and tools/fixed_map.json (commit -> property)"""
import json, subprocess
m = json.load(open('/verif/tools/fixed_map.json'))
out = subprocess.run(['git', '-C', '/repo', 'log', '--reverse', '--format=%h %s', '--grep=^fix:'], capture_output=True, text=True).stdout
kf = json.load(open('/verif/known_findings.json'))
fixed = []
for line in out.splitlines():
    h, subj = line.split(' ', 1)
    prop = m.get(h)
    if prop is None:
        print('UNMAPPED fix commit', h, subj)
        continue
    fixed.append(f'fixed: property={prop} {h} {subj[5:]}')
kf['fixed'] = fixed
json.dump(kf, open('/verif/known_findings.json', 'w'), indent=1)
print(len(fixed), 'fixed entries')
