#!/bin/sh
# usage: quiet_gate.sh [tier] [seeds...]   - runs every property's check at several VERIF_SEED values in fresh processes with the
# outputs redirected to a scratch directory (committed evidence untouched); prints one line per non-zero exit. Quiet = no line.
HERE=$(cd "$(dirname "$0")/.." && pwd)
TIER=${1:-quick}; shift
SEEDS=${*:-0 2 3 7 12345}
OUT=$(mktemp -d /tmp/quiet.XXXXXX)
for seed in $SEEDS; do
  for i in ${PROPS:-01 02 03 04 05 06 07 08 09 10 11 12 13 14 15 16 17 18 19 20}; do
    PYTHONHASHSEED=0 VERIF_SEED=$seed VERIF_OUT_DIR=$OUT/$seed timeout 7200 /venv/bin/python $HERE/run.py C$i --tier $TIER > $OUT/C$i.$seed.log 2>&1
    rc=$?
    [ $rc = 0 ] || { echo "seed=$seed C$i exit=$rc"; grep -h "VIOLATION\|signature=\|HARNESS\|detail" $OUT/C$i.$seed.log | head -6; }
  done
  echo "seed $seed done"
done
echo "logs in $OUT"
