"""Operation counter: counts Python-level function calls executed inside the library under test (files under
REPO/pytoniq_core) while running f, via sys.setprofile. Raises BudgetExceeded as soon as the count passes `budget`,
so an exponential or count-field-driven loop costs milliseconds instead of hanging. Name-independent: survives refactoring."""
import os
import sys
from harness.core import REPO, BudgetExceeded

_PREFIX = os.path.join(REPO, 'pytoniq_core') + os.sep


class Counter:
    def __init__(self, budget, label):
        self.n = 0
        self.budget = budget
        self.label = label
        self.exceeded = False

    def __call__(self, frame, event, arg):
        if event == 'call' and frame.f_code.co_filename.startswith(_PREFIX):
            self.n += 1
            if self.n > self.budget:
                self.exceeded = True
                sys.setprofile(None)
                raise BudgetExceeded(self.label)


def counted(f, budget, label):
    """returns (ok, value_or_exception, calls). BudgetExceeded propagates."""
    c = Counter(budget, label)
    sys.setprofile(c)
    try:
        try:
            v = f()
            return True, v, c.n
        except BudgetExceeded:
            raise
        except RecursionError as e:
            return False, e, c.n
        except Exception as e:
            if c.exceeded:
                raise BudgetExceeded(label)
            return False, e, c.n
    finally:
        sys.setprofile(None)
