"""Shared case generators for the BoC properties C03/C04/C05/C19: DAG specs incl. size-boundary DAGs."""
from hypothesis import strategies as st
from harness.gen import dag

OPTSETS = [(0, 0, 0), (1, 0, 0), (0, 1, 0), (1, 1, 0), (1, 0, 1), (1, 1, 1)]  # (has_idx, crc, cache_bits): the 6 valid sets


def heap_spec(n, bits_len=24, fat=True):
    """DAG (a 4-ary tree) with exactly n distinct cells, all reachable from the last node. fat: the root and its first children
    are maximal cells (1023 / 1017 / 993 bits, 4 references) - the longest cell serialisations together with the widest
    reference indexes the cell count implies"""
    spec = []
    for i in range(n):
        h = n - 1 - i
        refs = [n - 1 - c for c in range(4 * h + 1, 4 * h + 5) if c < n]
        bits = format(i, '0%db' % bits_len)
        if fat and h < 3 and len(refs) == 4:
            bits = bits + dag.expand_bits((1023, 1017, 993)[h] - bits_len, 2, h)
        spec.append({'k': 'o', 'b': bits, 'r': refs})
    return spec


def payload_spec(target):
    """chain whose serialised cell data is exactly `target` bytes (when written with the minimal ref size)"""
    for size in (1, 2, 3):
        cells = []
        remaining = target
        per = 2 + 100 + size
        while remaining > 129:
            cells.append(100)
            remaining -= per
        if remaining < 2:
            continue
        cells.append(remaining - 2)
        if len(cells) >= 256 ** size:
            continue
        spec = []
        for k, nb in enumerate(reversed(cells)):
            spec.append({'k': 'o', 'b': [nb * 8, 2, k], 'r': [k - 1] if k else []})
        return spec
    raise ValueError(target)


def payload_spec_wide(target):
    """like payload_spec for multi-megabyte payloads: a 3-ary tree of cells with up to 127 data bytes whose serialised cell
    data is exactly `target` bytes (reference width 2 or 3 bytes, whichever the resulting cell count implies)"""
    for rs in (2, 3):
        n = max(2, target // (2 + 127 + rs))
        sizes = [127] * n
        total = sum(2 + x for x in sizes) + rs * (n - 1)
        i = 0
        while total > target:
            cut = min(sizes[i], total - target)
            sizes[i] -= cut
            total -= cut
            i += 1
        while total < target:
            gap = target - total
            add = min(127, gap - 2 - rs)
            if add < 0:
                break
            sizes.append(add)
            total += 2 + add + rs
        if total != target or (len(sizes).bit_length() + 7) // 8 != rs:
            continue
        spec = []
        m = len(sizes)
        for k, nb in enumerate(sizes):
            h = m - 1 - k
            refs = [m - 1 - c for c in range(3 * h + 1, 3 * h + 4) if c < m]
            spec.append({'k': 'o', 'b': [nb * 8, 2, k], 'r': refs})
        return spec
    raise ValueError(target)


def twin_specs():
    """DAGs that hold 'the same thing twice in two guises': a sub-tree in full AND as its pruned branch under one parent (equal
    level-0 hash, different cells), a node over both, an exotic cell beside an ordinary cell with the same bits and children, two
    equal leaves under different parents, one child referenced twice. Anything that merges, memoises or orders cells by less
    than their full identity mixes these up."""
    x = [{'k': 'o', 'b': [40, 2, 7], 'r': []}, {'k': 'o', 'b': [9, 2, 8], 'r': [0]}]                       # X = node 1
    out = [('full+pruned-siblings', x + [{'k': 'p', 'of': 1, 'x': 0}, {'k': 'o', 'b': [5, 2, 1], 'r': [1, 2]}, {'k': 'mp', 'r': 3}]),
           ('pruned+full-siblings', x + [{'k': 'p', 'of': 1, 'x': 0}, {'k': 'o', 'b': [5, 2, 1], 'r': [2, 1]}, {'k': 'mp', 'r': 3}]),
           ('parents-over-full-and-pruned', x + [{'k': 'p', 'of': 1, 'x': 0}, {'k': 'o', 'b': [3, 2, 2], 'r': [1]}, {'k': 'o', 'b': [3, 2, 2], 'r': [2]},
                                              {'k': 'mu', 'r': [3, 4]}, {'k': 'o', 'b': [1, 1, 0], 'r': [5, 5]}]),
           ('update-of-equal-sides', x + [{'k': 'p', 'of': 1, 'x': 1}, {'k': 'o', 'b': [6, 2, 3], 'r': [2, 0]}, {'k': 'mu', 'r': [3, 3]}, {'k': 'mp', 'r': 4},
                                       {'k': 'o', 'b': [2, 2, 2], 'r': [5]}]),
           ('equal-leaves-under-different-parents', [{'k': 'o', 'b': [12, 2, 5], 'r': []}, {'k': 'o', 'b': [4, 2, 1], 'r': [0]},
                                                     {'k': 'o', 'b': [4, 2, 2], 'r': [0, 0]}, {'k': 'o', 'b': [1, 2, 3], 'r': [1, 2, 0, 1]}])]
    lib = {'k': 'l', 's': '0badcafe'}
    out.append(('library-cell-beside-ordinary-twin', [lib, {'k': 'o', 'b': format(2, '08b') + ''.join(
        format(b, '08b') for b in __import__('hashlib').sha256(bytes.fromhex('0badcafe')).digest()), 'r': []},
        {'k': 'o', 'b': [2, 2, 2], 'r': [0, 1]}, {'k': 'o', 'b': [2, 2, 3], 'r': [1, 0, 2]}]))
    return out


def bag_of_total_length(total, crc=True):
    """spec of a DAG whose bag written by the library's to_boc(has_idx=False, hash_crc32=crc) is exactly `total` bytes long before
    the checksum (lengths at which block-wise code changes block: 65 536 k + 1, 2^20 ...)"""
    for rs, off in ((2, 2), (2, 3), (3, 3), (3, 4)):
        header = 4 + 1 + 1 + 3 * rs + off + rs
        payload = total - header
        if payload < 200 or (payload.bit_length() + 7) // 8 != off:
            continue
        try:
            spec = payload_spec(payload) if payload < 100000 else payload_spec_wide(payload)
        except (ValueError, AssertionError):
            continue
        n = len(spec)
        if (n.bit_length() + 7) // 8 == rs and n <= 1024 or payload >= 100000 and (n.bit_length() + 7) // 8 == rs:
            return spec
    raise ValueError(total)


def boundary_specs(tier):
    out = []
    out += twin_specs()
    for n in (255, 256, 257):
        out.append(('cells=%d' % n, heap_spec(n)))
    for t in (254, 255, 256, 257, 127, 128):
        out.append(('payload=%d' % t, payload_spec(t)))
    # payload sizes at which the offset width grows (x2 when cache bits double the index entries): a few hundred cells, cheap
    for t in (65535, 65536, 65537, 32767, 32768):
        out.append(('payload=%d' % t, payload_spec(t)))
    if tier == 'thorough':
        for n in (65535, 65536, 65537):
            out.append(('cells=%d' % n, heap_spec(n)))
        for t in (16777215, 16777216, 8388607, 8388608):
            out.append(('payload=%d' % t, payload_spec_wide(t)))
    # every cell maximal: 1023 bits and 4 references into a densely shared DAG - the largest average cell size the format
    # allows (a bound on tot_cells_size derived from the cell count must allow for it), with 1-byte and 2-byte reference indexes
    for n in (200, 300) + ((1000,) if tier == 'thorough' else ()):
        out.append(('all-cells-maximal=%d' % n, [{'k': 'o', 'b': [1023, 2, i], 'r': [j for j in (i - 1, i - 2, i - 3, i - 4) if j >= 0]}
                                                 for i in range(n)]))
    # depth-1023 chain and doubling ladder
    for ladder in (False, True):
        spec = [{'k': 'o', 'b': [3, 2, 1], 'r': []}]
        for k in range(1, 1024):
            spec.append({'k': 'o', 'b': [k % 11, 2, k], 'r': [k - 1, k - 1] if ladder else [k - 1]})
        out.append(('depth-1023-' + ('ladder' if ladder else 'chain'), spec))
    return out


def st_spec(tier, exotic_share=True):
    mx = 30 if tier == 'quick' else 80
    alts = [dag.st_ord_dag(max_nodes=mx, max_len=1023), dag.st_ord_dag(max_nodes=mx, max_len=64)]
    if exotic_share:
        alts.append(dag.st_exotic_dag(max_nodes=18, max_len=128))
    return st.one_of(*alts)


def spec_stats(spec):
    kinds = {n['k'] for n in spec}
    sharing = False
    seen = set()
    for nd in spec:
        ch = nd.get('r', [])
        if isinstance(ch, int):
            ch = [ch]
        for c in ch:
            if c in seen:
                sharing = True
            seen.add(c)
    return kinds, sharing
