"""Shared case generators for the BoC properties C03/C04/C05/C19: DAG specs incl. size-boundary DAGs."""
from hypothesis import strategies as st
from harness.gen import dag

OPTSETS = [(0, 0, 0), (1, 0, 0), (0, 1, 0), (1, 1, 0), (1, 0, 1), (1, 1, 1)]  # (has_idx, crc, cache_bits): the 6 valid sets


def heap_spec(n, bits_len=24, fat=True):
    """DAG (a 4-ary tree) with exactly n distinct cells, all reachable from the last node. fat: the root and its first children
    are maximal cells (1023 / 1017 / 993 bits, 4 references) - the longest cell serialisations together with the widest
    reference indexes the cell count implies"""
    spec = []
    for i in range(n):
        h = n - 1 - i
        refs = [n - 1 - c for c in range(4 * h + 1, 4 * h + 5) if c < n]
        bits = format(i, '0%db' % bits_len)
        if fat and h < 3 and len(refs) == 4:
            bits = bits + dag.expand_bits((1023, 1017, 993)[h] - bits_len, 2, h)
        spec.append({'k': 'o', 'b': bits, 'r': refs})
    return spec


def payload_spec(target):
    """chain whose serialised cell data is exactly `target` bytes (when written with the minimal ref size)"""
    for size in (1, 2, 3):
        cells = []
        remaining = target
        per = 2 + 100 + size
        while remaining > 129:
            cells.append(100)
            remaining -= per
        if remaining < 2:
            continue
        cells.append(remaining - 2)
        if len(cells) >= 256 ** size:
            continue
        spec = []
        for k, nb in enumerate(reversed(cells)):
            spec.append({'k': 'o', 'b': [nb * 8, 2, k], 'r': [k - 1] if k else []})
        return spec
    raise ValueError(target)


def payload_spec_wide(target):
    """like payload_spec for multi-megabyte payloads: a 3-ary tree of cells with up to 127 data bytes whose serialised cell
    data is exactly `target` bytes (reference width 2 or 3 bytes, whichever the resulting cell count implies)"""
    for rs in (2, 3):
        n = max(2, target // (2 + 127 + rs))
        sizes = [127] * n
        total = sum(2 + x for x in sizes) + rs * (n - 1)
        i = 0
        while total > target:
            cut = min(sizes[i], total - target)
            sizes[i] -= cut
            total -= cut
            i += 1
        while total < target:
            gap = target - total
            add = min(127, gap - 2 - rs)
            if add < 0:
                break
            sizes.append(add)
            total += 2 + add + rs
        if total != target or (len(sizes).bit_length() + 7) // 8 != rs:
            continue
        spec = []
        m = len(sizes)
        for k, nb in enumerate(sizes):
            h = m - 1 - k
            refs = [m - 1 - c for c in range(3 * h + 1, 3 * h + 4) if c < m]
            spec.append({'k': 'o', 'b': [nb * 8, 2, k], 'r': refs})
        return spec
    raise ValueError(target)


def boundary_specs(tier):
    out = []
    for n in (255, 256, 257):
        out.append(('cells=%d' % n, heap_spec(n)))
    for t in (254, 255, 256, 257, 127, 128):
        out.append(('payload=%d' % t, payload_spec(t)))
    # payload sizes at which the offset width grows (x2 when cache bits double the index entries): a few hundred cells, cheap
    for t in (65535, 65536, 65537, 32767, 32768):
        out.append(('payload=%d' % t, payload_spec(t)))
    if tier == 'thorough':
        for n in (65535, 65536, 65537):
            out.append(('cells=%d' % n, heap_spec(n)))
        for t in (16777215, 16777216, 8388607, 8388608):
            out.append(('payload=%d' % t, payload_spec_wide(t)))
    # depth-1023 chain and doubling ladder
    for ladder in (False, True):
        spec = [{'k': 'o', 'b': [3, 2, 1], 'r': []}]
        for k in range(1, 1024):
            spec.append({'k': 'o', 'b': [k % 11, 2, k], 'r': [k - 1, k - 1] if ladder else [k - 1]})
        out.append(('depth-1023-' + ('ladder' if ladder else 'chain'), spec))
    return out


def st_spec(tier, exotic_share=True):
    mx = 30 if tier == 'quick' else 80
    alts = [dag.st_ord_dag(max_nodes=mx, max_len=1023), dag.st_ord_dag(max_nodes=mx, max_len=64)]
    if exotic_share:
        alts.append(dag.st_exotic_dag(max_nodes=18, max_len=128))
    return st.one_of(*alts)


def spec_stats(spec):
    kinds = {n['k'] for n in spec}
    sharing = False
    seen = set()
    for nd in spec:
        ch = nd.get('r', [])
        if isinstance(ch, int):
            ch = [ch]
        for c in ch:
            if c in seen:
                sharing = True
            seen.add(c)
    return kinds, sharing
