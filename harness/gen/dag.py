"""
Plain-data cell-DAG specs, Hypothesis strategies for them, and builders (spec -> reference cells, reference cells ->
library cells by several construction routes).

A spec is a bottom-up list of nodes; node k may reference only nodes < k (with repetition → sharing).
  {'k':'o', 'b':<bit string>, 'r':[i,…]}            ordinary cell
  {'k':'p', 'of':i, 'x':n}                             pruned branch of node i with new level level(i)+1+(n mod (3-level(i)))
                                                       (falls back to an ordinary leaf when level(i) == 3)
  {'k':'P', 'm':mask 1..7, 's':<hex seed>, 'd':[…]}  stand-alone pruned branch with arbitrary stored hashes/depths
  {'k':'l', 's':<hex seed>}                           library reference cell
  {'k':'mp', 'r':i}                                   Merkle proof cell over node i
  {'k':'mu', 'r':[i,j]}                               Merkle update cell over nodes i, j
Interpretation is total: any list following this grammar yields a spec-valid tree (or an ordinary fallback),
except that depth > 1023 is the caller's business.
"""
import hashlib
from hypothesis import strategies as st
from harness.ref import refcell as rc
from harness.core import describe

BOUNDARY_LENS = [0, 1, 2, 7, 8, 9, 15, 16, 17, 255, 256, 257, 1015, 1016, 1017, 1022, 1023]


def expand_bits(n, fill, seed):
    """deterministic bit string of length n: fill 0 -> zeros, 1 -> ones, 2 -> pseudo-random from seed,
    3 -> pseudo-random with last bit forced to 1, 4 -> pseudo-random with last bit forced to 0"""
    if n == 0:
        return ''
    if fill == 0:
        return '0' * n
    if fill == 1:
        return '1' * n
    out = ''
    ctr = 0
    while len(out) < n:
        out += ''.join(f'{x:08b}' for x in hashlib.sha256(b'%d/%d' % (seed, ctr)).digest())
        ctr += 1
    out = out[:n]
    if fill == 3:
        out = out[:-1] + '1'
    elif fill == 4:
        out = out[:-1] + '0'
    return out


def node_bits(node):
    b = node['b']
    if isinstance(b, str):
        return b
    return expand_bits(b[0], b[1], b[2])  # compact form [len, fill, seed]


def build_ref(spec):
    """spec -> list of RCell (same indexing as spec)"""
    cells = []
    for node in spec:
        k = node['k']
        if k == 'o':
            c = rc.RCell(node_bits(node), [cells[i] for i in node['r']], False)
        elif k == 'p':
            sub = cells[node['of']]
            lv = sub.level()
            if lv >= 3:
                c = rc.RCell('', [], False)
            else:
                c = rc.pruned_branch_of(sub, lv + 1 + node['x'] % (3 - lv))
        elif k == 'P':
            n = bin(node['m']).count('1')
            seed = bytes.fromhex(node['s'])
            hs = [hashlib.sha256(seed + bytes([j])).digest() for j in range(n)]
            ds = [(node['d'][j % len(node['d'])] if node['d'] else 0) for j in range(n)]
            c = rc.pruned_raw(node['m'], hs, ds)
        elif k == 'l':
            c = rc.library_ref(hashlib.sha256(bytes.fromhex(node['s'])).digest())
        elif k == 'mp':
            c = rc.merkle_proof(cells[node['r']])
        elif k == 'mu':
            c = rc.merkle_update(cells[node['r'][0]], cells[node['r'][1]])
        else:
            raise ValueError(k)
        cells.append(c)
    return cells


# -- library construction routes ----------------------------------------------------------------------

def lib_from_ref(cells, route='builder'):
    """list of RCell (bottom-up) -> list of library Cells built bottom-up through `route`
       'builder'  Builder(type_=t).store_bits(..).store_ref(..).end_cell()
       'tvm'      Cell(TvmBitarray, refs, type)
       'plain'    Cell(plain bitarray, refs, type)
       'plain-le' Cell(plain bitarray with a little-endian buffer, refs, type)
    """
    from pytoniq_core.boc.cell import Cell
    from pytoniq_core.boc.builder import Builder
    from pytoniq_core.boc.tvm_bitarray import TvmBitarray
    from bitarray import bitarray
    out = []
    idx = {}
    for c in cells:
        refs = [out[idx[id(r)]] for r in c.refs]
        t = c.type
        if route == 'builder':
            b = Builder(type_=t)
            b.store_bits(c.bits)
            for r in refs:
                b.store_ref(r)
            lc = b.end_cell()
        elif route == 'tvm':
            ba = TvmBitarray(1023)
            ba.extend(c.bits)
            lc = Cell(ba, refs, t)
        elif route == 'plain':
            lc = Cell(bitarray(c.bits), refs, t)
        elif route == 'tvm-le':
            # a TvmBitarray the caller asked to keep in a little-endian buffer: the bit SEQUENCE is what the cell holds
            lc = Cell(TvmBitarray(1023, c.bits, endian='little'), refs, t)
        elif route == 'plain-le':
            # a plain bitarray whose BUFFER is little-endian; the bit sequence (what to01() / iteration give) is the same
            lc = Cell(bitarray(c.bits, endian='little'), refs, t)
        else:
            raise ValueError(route)
        idx[id(c)] = len(out)
        out.append(lc)
    return out


# -- strategies -------------------------------------------------------------------------------------------

def st_bits(max_len=1023):
    lens = [x for x in BOUNDARY_LENS if x <= max_len]
    ln = st.one_of(st.sampled_from(lens), st.integers(0, max_len), st.integers(0, min(64, max_len)))
    return st.tuples(ln, st.integers(0, 4), st.integers(0, 2 ** 32)).map(list)


@st.composite
def st_ord_dag(draw, max_nodes=24, max_len=1023, min_nodes=1):
    """ordinary DAG; shapes: random / chain / doubling ladder / wide"""
    n = draw(st.integers(min_nodes, max_nodes))
    shape = draw(st.sampled_from(['random', 'random', 'random', 'chain', 'ladder', 'wide', 'diamond']))
    spec = []
    for k in range(n):
        if k == 0:
            refs = []
        elif shape == 'chain':
            refs = [k - 1]
        elif shape == 'ladder':
            refs = [k - 1, k - 1]
        elif shape == 'wide':
            refs = draw(st.lists(st.integers(0, k - 1), min_size=0, max_size=4)) if k == n - 1 else []
        elif shape == 'diamond':
            refs = [max(0, k - 1), max(0, k - 2)] if k >= 2 else [0]
        else:
            refs = draw(st.lists(st.integers(0, k - 1), min_size=0, max_size=4))
        small = draw(st.booleans())
        b = draw(st_bits(max_len if not small else min(24, max_len)))
        spec.append({'k': 'o', 'b': b, 'r': refs})
    # planted duplicates: exact clones (equal hash at another index) and near-clones (same bits, other children)
    for _ in range(draw(st.integers(0, 2))):
        src = spec[draw(st.integers(0, len(spec) - 1))]
        k = len(spec)
        if draw(st.booleans()):
            spec.append({'k': 'o', 'b': src['b'], 'r': list(src['r'])})
        else:
            spec.append({'k': 'o', 'b': src['b'], 'r': draw(st.lists(st.integers(0, k - 1), min_size=len(src['r']), max_size=len(src['r'])))})
    return spec


@st.composite
def st_exotic_dag(draw, max_nodes=18, max_len=256):
    """DAG mixing ordinary cells with pruned (derived and raw), library, Merkle proof/update cells.
    Level never exceeds 3 by construction of the interpreter for 'p'; for ordinary/merkle parents the
    mask is an OR of ≤3-bit masks, so it stays within 0..7."""
    n = draw(st.integers(1, max_nodes))
    spec = []
    for k in range(n):
        kinds = ['o', 'o', 'o']
        if k >= 1:
            kinds += ['p', 'p', 'mp', 'mu', 'o']
        kinds += ['P', 'l']
        kind = draw(st.sampled_from(kinds))
        if kind == 'o':
            refs = draw(st.lists(st.integers(0, k - 1), min_size=0, max_size=4)) if k else []
            spec.append({'k': 'o', 'b': draw(st_bits(max_len)), 'r': refs})
        elif kind == 'p':
            spec.append({'k': 'p', 'of': draw(st.integers(0, k - 1)), 'x': draw(st.integers(0, 2))})
        elif kind == 'P':
            m = draw(st.integers(1, 7))
            spec.append({'k': 'P', 'm': m, 's': '%08x' % draw(st.integers(0, 2 ** 32 - 1)),
                         'd': draw(st.lists(st.sampled_from([0, 1, 2, 255, 256, 900]), min_size=1, max_size=3))})
        elif kind == 'l':
            spec.append({'k': 'l', 's': '%08x' % draw(st.integers(0, 2 ** 32 - 1))})
        elif kind == 'mp':
            spec.append({'k': 'mp', 'r': draw(st.integers(0, k - 1))})
        else:
            spec.append({'k': 'mu', 'r': [draw(st.integers(0, k - 1)), draw(st.integers(0, k - 1))]})
    return spec


def spec_classes(spec, cells=None):
    kinds = {n['k'] for n in spec}
    yield 'nodes=' + ('1' if len(spec) == 1 else '2-8' if len(spec) <= 8 else '9-32' if len(spec) <= 32 else '33+')
    for k in sorted(kinds):
        yield 'kind:' + k


def lib_from_rcell(root, route='builder'):
    """reference cell tree -> library cell tree (iterative, one library cell per distinct RCell object)"""
    order = []
    seen = set()
    stack = [(root, 0)]
    while stack:
        c, i = stack.pop()
        if i == 0:
            if id(c) in seen:
                continue
            seen.add(id(c))
        if i < len(c.refs):
            stack.append((c, i + 1))
            stack.append((c.refs[i], 0))
        else:
            order.append(c)
    # order is a post-order: children before parents
    libs = lib_from_ref(order, route)
    return libs[-1]


# -- history: things a caller may do with objects DERIVED from cells; none of it may change the cells ---------------------

def disturb(lib, budget=4):
    """Uses a few library cells (list as returned by lib_from_ref, bottom-up) the way callers do — serialise inner nodes on
    their own, take builders from them and store more, append them to other builders, read slices made from them. The cells
    are values: afterwards they must still be what the reference model says. Exceptions are swallowed (irrelevant here).
    Returns the number of operations performed (for class histograms)."""
    from pytoniq_core.boc.builder import Builder
    n = len(lib)
    with_refs = [k for k in range(n - 1) if lib[k].refs]                    # inner nodes that have children, the root excepted
    picks = with_refs[-budget:] + [k for k in (0, n // 2, n - 1) if k not in with_refs[-budget:]]
    leaf = lib[0]
    ops = 0
    for k in picks:
        c = lib[k]
        for f in (
            # an inner node serialised under its own root BEFORE the root ever is (its children get other indexes there)
            (lambda: c.to_boc()) if k != n - 1 else (lambda: None),
            (lambda: c.to_boc(True, True, True)) if k != n - 1 else (lambda: None),
            lambda: c.to_builder().store_bits('1'),
            lambda: c.to_builder().store_ref(leaf),                          # must not show through c.refs
            lambda: Builder().store_cell(c).store_ref(leaf).end_cell(),
            lambda: Builder().store_slice(c.begin_parse()).store_ref(leaf),
            lambda: (lambda s: (s.load_bits(min(3, len(s.bits))), s.load_ref() if s.refs else None))(c.begin_parse()),
            lambda: (lambda s: (s.to_cell(), s.skip_bits(min(5, len(s.bits)))))(c.to_slice()),
            lambda: c.copy().to_builder().store_ref(leaf),
            lambda: c.order(),
            # the caller logs what it holds: the cell, a slice of it that was partly read, a builder taken from it
            lambda: describe(c),
            lambda: (lambda s: (s.load_bits(min(2, len(s.bits))), s.load_ref() if s.refs else None, describe(s)))(c.begin_parse()),
            lambda: describe(c.to_builder()),
        ):
            try:
                f()
            except Exception:
                pass
            ops += 1
    return ops


TEMPLATE_BAG = bytes.fromhex('b5ee9c7201010301000b00020211020100022200023' + '3')    # 11 -> [33, 22]


def cell_subclass(reenter=None):
    """An application's own cell class. The bag readers take the class to instantiate (`Cell.from_boc` / `one_from_boc` are
    classmethods that hand `cls` down to the parser), so instances of a subclass are cells like any other: same hashes, equal to
    and colliding with plain cells of the same hash, serialised like them. `reenter`: bytes of another bag that the constructor
    parses first - a parse started inside a parse, which is the only re-entrancy a single-threaded caller can cause."""
    from pytoniq_core.boc.cell import Cell

    class AppCell(Cell):
        def __init__(self, *a, **k):
            if reenter is not None:
                inner = Cell.one_from_boc(reenter)
                assert len(inner.refs) == 2, 'the inner parse returned another bag'
            super().__init__(*a, **k)
    return AppCell


class BocBytes(bytes):
    """bytes received from a transport layer's own type"""


class BocText(str):
    """text received as a str subclass (e.g. a str-valued Enum member behaves the same way)"""

