"""
Core of the verification harness: sub-check registry, Hypothesis driver, enumerator driver,
process pool, counters, evidence writer, replay files, known-finding matching, exit codes.

Exit codes of run.py:  0 = property held on everything explored (KNOWN-FINDING lines allowed)
                       1 = violation (a line "VIOLATION property=<id> replay=<path>" per root cause)
                       2 = harness error / inconclusive (never a VIOLATION line)
"""
import hashlib
import json
import multiprocessing
import os
import signal
import sys
import time
import traceback

HERE = os.path.dirname(os.path.abspath(__file__))
VERIF = os.path.dirname(HERE)
REPO = os.path.abspath(os.environ.get('VERIF_REPO', '/repo'))
if sys.path[0] != REPO:
    sys.path.insert(0, REPO)
DEPS = os.path.join(VERIF, '.deps')
if os.path.isdir(DEPS) and DEPS not in sys.path:
    sys.path.append(DEPS)

NPROC = int(os.environ.get('VERIF_NPROC', '16'))
try:
    SEED = int(os.environ.get('VERIF_SEED', '1'))
except ValueError:
    SEED = 1
# sensitivity runs against scratch copies redirect their outputs so that committed evidence is never overwritten
OUT = os.path.abspath(os.environ.get('VERIF_OUT_DIR') or VERIF)


# --------------------------------------------------------------------------------------------------
# verdicts

# the interpreter strips `assert` statements under -O / PYTHONOPTIMIZE: every property is checked in that mode too (run_optimized_child)
OPTIMIZED = bool(sys.flags.optimize)


class Fail:
    """A failed oracle clause. `signature` names the clause and input class (root-cause bucket)."""
    __slots__ = ('signature', 'detail', 'replay')

    def __init__(self, signature, detail='', replay=None):
        """replay = (subcheck name, case): the reproducible unit when it is not the case itself (a fuzzing campaign
        reports the failing input it found, which replays through a plain sub-check)"""
        self.signature = signature
        self.detail = str(detail)[:2000]
        self.replay = replay

    def __repr__(self):
        return f'Fail({self.signature!r}, {self.detail[:200]!r})'


class HarnessError(Exception):
    pass


class CaseTimeout(BaseException):
    """raised from the ITIMER_VIRTUAL handler: a single case used more CPU than the ceiling"""


class BudgetExceeded(Exception):
    """raised by the counting wrappers of C19 when an operation count passes its bound"""


class _Falsified(Exception):
    """internal: raised inside the Hypothesis test body to make Hypothesis shrink"""


def lib_frame(exc):
    """innermost traceback frame that lies inside the library under test, as 'file.py:func', or None"""
    tb = exc.__traceback__
    found = None
    while tb is not None:
        fn = tb.tb_frame.f_code.co_filename
        if fn.startswith(REPO + os.sep) and (os.sep + 'pytoniq_core' + os.sep) in fn:
            found = f'{os.path.relpath(fn, REPO)}:{tb.tb_frame.f_code.co_name}'
        tb = tb.tb_next
    return found


def call(f, *a, **k):
    """run a library call; returns (True, value) or (False, exception). CaseTimeout/BudgetExceeded propagate."""
    try:
        return True, f(*a, **k)
    except BudgetExceeded:
        raise
    except RecursionError as e:
        return False, e
    except Exception as e:
        return False, e


def raises(f, *a, **k):
    """True iff the library call raises some ordinary exception (contract 'raises an error')."""
    ok, _ = call(f, *a, **k)
    return not ok


def exc_sig(e):
    return f'{type(e).__name__}@{lib_frame(e) or "?"}'


# --------------------------------------------------------------------------------------------------
# sub-checks

class Sub:
    """
    One sub-check of a property.
      check(case)      -> None (ok) | Fail        (pure function of the case and the code under /repo)
      strategy(tier)   -> hypothesis strategy yielding plain-data cases     (kind 'hyp')
      enum(tier)       -> iterable of plain-data cases, deterministic        (kind 'enum')
      classify(case)   -> iterable of class labels (histogram in evidence)
      nontrivial(case) -> bool
      n = (quick, thorough) number of generated examples for 'hyp' (total, split over shards)
    """

    def __init__(self, name, check, strategy=None, enum=None, classify=None, nontrivial=None,
                 n=(200, 2000), shards=(4, 16), exhaustive=False, case_cpu_s=20.0, timeout_is_violation=False,
                 tiers=('quick', 'thorough'), suppress_health=True, note=''):
        assert (strategy is None) != (enum is None)
        self.name = name
        self.check = check
        self.strategy = strategy
        self.enum = enum
        self.classify = classify or (lambda case: ())
        self.nontrivial = nontrivial or (lambda case: True)
        self.n = n
        self.shards = shards
        self.exhaustive = exhaustive
        self.case_cpu_s = case_cpu_s
        self.timeout_is_violation = timeout_is_violation
        self.tiers = tiers
        self.note = note

    @property
    def kind(self):
        return 'hyp' if self.strategy is not None else 'enum'


def canon(case):
    return json.dumps(case, sort_keys=True, separators=(',', ':'), default=_json_default)


def _json_default(o):
    if isinstance(o, (bytes, bytearray)):
        return {'__bytes__': bytes(o).hex()}
    if isinstance(o, (set, frozenset)):
        return sorted(o)
    if isinstance(o, tuple):
        return list(o)
    raise TypeError(f'case is not plain data: {type(o)}')


def case_digest(case):
    return hashlib.sha1(canon(case).encode()).digest()[:8]


def trunc(case, n=600):
    s = canon(case)
    if len(s) <= n:
        return json.loads(s)
    return {'truncated_json': s[:n] + '…', 'full_len': len(s)}


class Stats:
    def __init__(self):
        self.evaluations = 0
        self.nontrivial = set()
        self.classes = {}
        self.samples = []
        self.known = {}          # signature -> count
        self.failures = []       # list of dict(signature, detail, case)
        self.max_case_cpu = 0.0
        self.timeouts = 0
        self._sample_every = 1

    def record(self, sub, case):
        self.evaluations += 1
        try:
            nt = bool(sub.nontrivial(case))
        except Exception:
            nt = False
        if nt:
            self.nontrivial.add(case_digest(case))
        for c in sub.classify(case) or ():
            self.classes[c] = self.classes.get(c, 0) + 1
        # reservoir-ish: keep first 2 nontrivial + periodically later ones, max 6
        if nt and (len(self.samples) < 2 or (self.evaluations % 97 == 0 and len(self.samples) < 6)):
            self.samples.append(trunc(case))

    def to_dict(self):
        return {
            'evaluations': self.evaluations,
            'nontrivial': list(self.nontrivial),
            'classes': self.classes,
            'samples': self.samples,
            'known': self.known,
            'failures': self.failures,
            'max_case_cpu': self.max_case_cpu,
            'timeouts': self.timeouts,
        }


_CUR = {'st': None}


def note(label, n=1):
    """lets a check add to the class histogram of the running shard (e.g. executions done by a fuzzing campaign)"""
    st = _CUR['st']
    if st is not None:
        st.classes[label] = st.classes.get(label, 0) + n


def _on_vtalrm(signum, frame):
    raise CaseTimeout()


def run_check_guarded(sub, case):
    """Run sub.check(case) under the CPU ceiling; map escaping exceptions to Fail / HarnessError."""
    signal.signal(signal.SIGVTALRM, _on_vtalrm)
    signal.setitimer(signal.ITIMER_VIRTUAL, sub.case_cpu_s)
    t0 = time.process_time()
    try:
        res = sub.check(case)
    except CaseTimeout:
        signal.setitimer(signal.ITIMER_VIRTUAL, 0)
        if sub.timeout_is_violation:
            return Fail('cpu-ceiling', f'case used more than {sub.case_cpu_s}s of CPU'), time.process_time() - t0
        raise
    except BudgetExceeded as e:
        signal.setitimer(signal.ITIMER_VIRTUAL, 0)
        return Fail(f'budget/{e}', 'operation budget exceeded'), time.process_time() - t0
    except (HarnessError, _Falsified):
        signal.setitimer(signal.ITIMER_VIRTUAL, 0)
        raise
    except Exception as e:
        signal.setitimer(signal.ITIMER_VIRTUAL, 0)
        fr = lib_frame(e)
        if fr is None:
            raise HarnessError(f'exception in harness code while checking {sub.name}: '
                               f'{"".join(traceback.format_exception(e))[-3000:]}') from e
        return Fail(f'unexpected-exception/{type(e).__name__}@{fr}',
                    ''.join(traceback.format_exception(e))[-1500:]), time.process_time() - t0
    finally:
        signal.setitimer(signal.ITIMER_VIRTUAL, 0)
    if res is not None and not isinstance(res, Fail):
        raise HarnessError(f'{sub.name}.check returned {type(res)}')
    return res, time.process_time() - t0


def load_known(prop_id):
    p = os.path.join(VERIF, 'known_findings.json')
    if not os.path.exists(p):
        return {}
    with open(p) as f:
        data = json.load(f)
    return {e['signature']: e for e in data.get('findings', []) if e.get('property') == prop_id}


def scramble(obj, depth=5, _seen=None):
    """edits, IN PLACE, every plain attribute of a parsed result the way a caller may (flags flipped, numbers bumped, byte strings
    reversed, lists extended, dictionaries emptied), recursively through attribute objects, lists and dict values. Cells / slices /
    builders and other library containers are left alone (editing those is not "editing the result"). Used by parser checks: what
    a parser returns belongs to the caller - a later parse of any cell is unaffected by what was done to an earlier result."""
    _seen = _seen if _seen is not None else set()
    if depth < 0 or id(obj) in _seen or obj is None or isinstance(obj, (int, str, bytes, float, bool)):
        return
    _seen.add(id(obj))
    mod = type(obj).__module__ or ''
    if isinstance(obj, list):
        for x in list(obj):
            scramble(x, depth - 1, _seen)
        obj.append(None)
        return
    if isinstance(obj, dict):
        for x in list(obj.values()):
            scramble(x, depth - 1, _seen)
        obj.clear()
        return
    if isinstance(obj, tuple):
        for x in obj:
            scramble(x, depth - 1, _seen)
        return
    if not mod.startswith('pytoniq_core') or type(obj).__name__ in ('Cell', 'Slice', 'Builder', 'TvmBitarray'):
        return
    d = getattr(obj, '__dict__', None)
    if not isinstance(d, dict):
        return
    for k, v in list(d.items()):
        try:
            if isinstance(v, bool):
                setattr(obj, k, not v)
            elif isinstance(v, int):
                setattr(obj, k, v + 1 if v < 5 else v - 1)
            elif isinstance(v, (bytes, bytearray)):
                setattr(obj, k, bytes(v)[::-1] + b'\x01')
            elif isinstance(v, str):
                setattr(obj, k, v + '~')
            else:
                scramble(v, depth - 1, _seen)
        except Exception:
            pass


def unfolded_size(obj, cap=10 ** 6):
    """number of nodes of the TREE a cell / slice / builder unfolds to (what a recursive printer walks), saturating at cap;
    iterative, so depth-1023 chains are fine"""
    size = {}
    stack = [(obj, False)]
    while stack:
        o, done = stack.pop()
        if id(o) in size:
            continue
        kids = list(getattr(o, 'refs', None) or [])
        if done:
            size[id(o)] = min(cap, 1 + sum(size.get(id(k), 1) for k in kids))
        else:
            stack.append((o, True))
            stack.extend((k, False) for k in kids if id(k) not in size)
    return size[id(obj)]


def describe(*objs, cap=3000):
    """What a caller's logging / debugging does with objects it holds: repr(), str(), format(), an f-string, ascii(), bool().
    Formatting or looking at an object is not an operation ON it: whatever a check observes afterwards must be what it would have
    observed without it. Results and exceptions are ignored (a printer may fail on a deep chain - that is nobody's property).
    A library cell prints its whole tree once per path, so str() is only called when the object unfolds to at most `cap` nodes."""
    n = 0
    for o in objs:
        fs = [repr, ascii, lambda x: f'{x!r:>3}', bool]
        if unfolded_size(o, cap + 1) <= cap:
            fs += [str, format, lambda x: f'{x}', lambda x: '%s' % (x,)]
        for f in fs:
            try:
                f(o)
            except Exception:
                pass
            n += 1
    return n


def look(obj, cap=3000):
    """exactly ONE str() and one repr() of an object (see describe): for effects that a second formatting would undo"""
    try:
        repr(obj)
    except Exception:
        pass
    if unfolded_size(obj, cap + 1) <= cap:
        try:
            str(obj)
        except Exception:
            pass


def run_overlapping(check, cases, threads=3, rounds=2):
    """Runs check(case) for every case in `threads` threads AT THE SAME TIME (each thread walks the case list from another start,
    `rounds` times, behind a common barrier, with the interpreter's switch interval at its minimum so that calls interleave every
    few byte codes). The oracle is the sequential one: the same cases are checked one after the other first; if they pass there
    and a clause fails only when calls overlap in time, the library keeps per-call state in a place two calls share (a module- or
    class-level scratch object that is merely reset at the start of each call). Returns None or a Fail('two-threads/...').
    The schedule is the interpreter's, not ours: a failure found here need not reproduce on every replay - the replay runs the
    same overlapped rounds again (DESIGN 9)."""
    import threading
    for c in cases:
        if check(c) is not None:
            return None                      # fails without any overlap: reported by the sub-check the case belongs to
    found = []
    crashed = []
    barrier = threading.Barrier(threads)

    def body(t):
        try:
            barrier.wait(timeout=60)
            for r in range(rounds):
                for i in range(len(cases)):
                    if found or crashed:
                        return
                    c = cases[(i + t) % len(cases)]
                    try:
                        res = check(c)
                    except Exception as e:
                        fr = lib_frame(e)
                        if fr is None:
                            crashed.append(''.join(traceback.format_exception(e))[-2000:])
                            return
                        res = Fail(f'unexpected-exception/{type(e).__name__}@{fr}', ''.join(traceback.format_exception(e))[-1200:])
                    if res is not None:
                        found.append((res, (i + t) % len(cases)))
        except threading.BrokenBarrierError:
            crashed.append('barrier broken')

    old = sys.getswitchinterval()
    sys.setswitchinterval(1e-6)
    try:
        ths = [threading.Thread(target=body, args=(t,), daemon=True) for t in range(threads)]
        for th in ths:
            th.start()
        for th in ths:
            th.join()
    finally:
        sys.setswitchinterval(old)
    if found:
        res, i = found[0]
        return Fail('two-threads/' + res.signature, f'case {i} of {len(cases)} passes when the calls are made one after the other and '
                    f'fails when {threads} threads make them at the same time: {res.detail}'[:1800])
    if crashed:
        raise HarnessError('exception in harness code inside a thread: ' + crashed[0])
    return None


def overlapped(base, name='two-threads', k=3, threads=3, rounds=2, n=(90, 2000), shards=(8, 16), tiers=('quick', 'thorough')):
    """a sub-check that runs the generated cases of `base` (a Hypothesis sub-check) k at a time in overlapping threads"""
    from hypothesis import strategies as st

    def strategy(tier):
        return st.lists(base.strategy(tier), min_size=k, max_size=k).map(lambda cs: {'cases': cs})

    def check(case):
        return run_overlapping(base.check, case['cases'], threads, rounds)

    def classify(case):
        yield f'overlapping:{base.name}'
        if base.classify:
            for c in case['cases']:
                yield from base.classify(c)

    return Sub(name, check, strategy=strategy, classify=classify, nontrivial=lambda case: True, n=n, shards=shards,
               case_cpu_s=max(60.0, base.case_cpu_s * 3 * k), tiers=tiers,
               note=f'cases of {base.name}, {k} at a time, checked by {threads} threads at the same time (switch interval 1 us); '
                    f'oracle = the same cases checked one after the other')


_ENV = {'noisy': False}


def _noisy_environment():
    """The other process-wide configuration an application may run the library under: logging enabled down to level 1 with a
    handler that renders every record (so lazily formatted log arguments ARE formatted), and warnings raised from inside the
    library turned into errors. Neither is an operation on any object: every property must hold under it exactly as under the
    default configuration. Odd-numbered shards of every sub-check run this way (evidence: classes 'environment:*')."""
    import logging
    import warnings
    if _ENV['noisy']:
        return

    class _Render(logging.Handler):
        def emit(self, record):
            try:
                record.getMessage()
            except Exception:
                pass
    root = logging.getLogger()
    root.setLevel(1)
    root.addHandler(_Render())
    # every warning is an error, wherever its stacklevel attributes it (a library call that warns with stacklevel > 1 is
    # attributed to the caller's module); warnings that third-party packages raise about themselves stay warnings
    warnings.simplefilter('error')
    warnings.filterwarnings('default', module=r'(hypothesis|nacl|Cryptodome|bitarray|x25519|coverage|atheris)(\.|$)')
    _ENV['noisy'] = True


def hammer(calls, threads=4, rounds=40, same=None):
    """calls: list of (name, thunk): zero-argument LIBRARY calls whose result is a function of the call alone (the thunk returns
    something comparable - bytes, a tuple, a verdict string; an ordinary exception counts as the result 'raises <Type>').
    Every thunk is first called alone (the oracle). Then `threads` threads call all of them `rounds` times each at the same time
    (tight loops, switch interval 1 us, every thread starting at another call): every result must equal the one obtained alone.
    Where run_overlapping() overlaps whole checks (harness work included), this overlaps nothing but library calls, so the
    window in which two calls share a scratch object is hit thousands of times. Returns None or Fail('two-threads/<name>')."""
    import threading
    same = same or (lambda a, b: a == b)

    def run(thunk):
        try:
            return thunk()
        except BudgetExceeded:
            raise
        except Exception as e:
            return 'raises ' + type(e).__name__
    alone = [run(t) for _, t in calls]
    for (name, t), a in zip(calls, alone):          # a call that is not even repeatable alone is not this helper's business
        if not same(run(t), a):
            return None
    found = []
    barrier = threading.Barrier(threads)

    def body(k):
        try:
            barrier.wait(timeout=60)
        except threading.BrokenBarrierError:
            return
        n = len(calls)
        for r in range(rounds):
            for i in range(n):
                if found:
                    return
                j = (i + k * (n // threads + 1)) % n
                got = run(calls[j][1])
                if not same(got, alone[j]):
                    found.append((calls[j][0], repr(alone[j])[:300], repr(got)[:300]))
                    return

    old = sys.getswitchinterval()
    sys.setswitchinterval(1e-6)
    try:
        ths = [threading.Thread(target=body, args=(k,), daemon=True) for k in range(threads)]
        for th in ths:
            th.start()
        for th in ths:
            th.join()
    finally:
        sys.setswitchinterval(old)
    if found:
        name, a, g = found[0]
        return Fail(f'two-threads/{name}', f'{name}: alone -> {a}; while {threads - 1} other threads were calling the library -> {g}')
    return None


class fake_byteorder:
    """`with fake_byteorder('big'):` - the library call inside sees sys.byteorder of the other kind of host. Nothing in the wire
    formats depends on the host's byte order; code that consults sys.byteorder for them is wrong on half of the hosts."""

    _REAL = sys.byteorder
    _depth = 0
    _lock = __import__('threading').Lock()

    def __init__(self, order=None):
        self.order = order or ('big' if fake_byteorder._REAL == 'little' else 'little')

    def __enter__(self):
        with fake_byteorder._lock:              # several threads of a two-threads sub-check may be inside at once
            fake_byteorder._depth += 1
            sys.byteorder = self.order
        return self

    def __exit__(self, *a):
        with fake_byteorder._lock:
            fake_byteorder._depth -= 1
            if fake_byteorder._depth == 0:
                sys.byteorder = fake_byteorder._REAL
        return False


def _shard_worker(args):
    prop_id, sub_name, shard, nshards, tier, seed, shrink_s = args
    if shard % 2 == 1 and os.environ.get('VERIF_PLAIN_ENV') != '1':
        _noisy_environment()
    import importlib
    mod = importlib.import_module(f'harness.props.{prop_id.lower()}')
    sub = {s.name: s for s in mod.SUBCHECKS}[sub_name]
    known = load_known(prop_id)
    st = Stats()
    t0 = time.time()
    status = 'ok'
    err = None
    try:
        if sub.kind == 'enum':
            _run_enum(sub, shard, nshards, tier, st, known)
        else:
            _run_hyp(sub, shard, nshards, tier, seed, st, known, shrink_s)
    except CaseTimeout:
        status = 'timeout'
        st.timeouts += 1
    except HarnessError as e:
        status = 'harness-error'
        err = str(e)
    except Exception as e:  # anything else from the harness itself
        status = 'harness-error'
        err = ''.join(traceback.format_exception(e))[-3000:]
    d = st.to_dict()
    d.update(sub=sub_name, shard=shard, status=status, error=err, wall=time.time() - t0)
    envname = 'verbose-logging+warnings-are-errors' if _ENV['noisy'] else 'default'
    d['classes']['environment:' + envname] = d['classes'].get('environment:' + envname, 0) + st.evaluations
    for f in d['failures']:
        f['env'] = envname
    return d


def _handle(sub, case, st, known):
    """returns Fail if an unknown failure happened, else None"""
    st.record(sub, case)
    _CUR['st'] = st
    try:
        res, cpu = run_check_guarded(sub, case)
    finally:
        _CUR['st'] = None
    if cpu > st.max_case_cpu:
        st.max_case_cpu = cpu
    if res is None:
        return None
    if res.signature in known:
        st.known[res.signature] = st.known.get(res.signature, 0) + 1
        return None
    return res


def _run_enum(sub, shard, nshards, tier, st, known):
    for i, case in enumerate(sub.enum(tier)):
        if i % nshards != shard:
            continue
        res = _handle(sub, case, st, known)
        if res is not None:
            st.failures.append(_failure(res, case))
            return


def _failure(res, case):
    f = {'signature': res.signature, 'detail': res.detail, 'case': json.loads(canon(case))}
    if res.replay is not None:
        f['sub_override'], f['case'] = res.replay[0], json.loads(canon(res.replay[1]))
    return f


def _run_hyp(sub, shard, nshards, tier, seed, st, known, shrink_s):
    import hypothesis
    from hypothesis import given, settings, HealthCheck, Phase
    total = sub.n[0] if tier == 'quick' else sub.n[1]
    if tier == 'quick':     # the per-sub-check quick counts were sized for ~10 s; the quick tier has room for more (DESIGN 9)
        total = int(total * float(os.environ.get('VERIF_QUICK_MULT', '3')))
    n = max(1, total // nshards)
    state = {'best': None, 'first_fail_t': None}

    def body(case):
        if state['first_fail_t'] is not None and time.time() - state['first_fail_t'] > shrink_s:
            return  # shrink budget used up: stop finding failures so the shrinker terminates
        res = _handle(sub, case, st, known)
        if res is not None:
            if state['best'] is None or res.signature == state['best'][0].signature:
                state['best'] = (res, json.loads(canon(case)))
            if state['first_fail_t'] is None:
                state['first_fail_t'] = time.time()
            raise _Falsified(res.signature)

    phases = [Phase.generate, Phase.shrink] if shrink_s > 0 else [Phase.generate]
    test = given(sub.strategy(tier))(body)
    test = hypothesis.seed((seed * 1000003 + shard * 7919 + _stable_hash(sub.name)) % (2 ** 63))(test)
    test = settings(max_examples=n, database=None, deadline=None, derandomize=False,
                    report_multiple_bugs=False, phases=phases, print_blob=False,
                    suppress_health_check=list(HealthCheck))(test)
    try:
        test()
    except _Falsified:
        pass
    except CaseTimeout:
        raise
    except HarnessError:
        raise
    except BaseException as e:
        # Flaky (shrink budget cut-off) or other hypothesis wrappers: fall back to best recorded failure
        if state['best'] is None:
            if type(e).__name__ in ('Unsatisfiable',):
                raise HarnessError(f'{sub.name}: generator unsatisfiable: {e}')
            raise
    if state['best'] is not None:
        res, case = state['best']
        st.failures.append(_failure(res, case))


def _stable_hash(s):
    return int.from_bytes(hashlib.sha1(s.encode()).digest()[:4], 'big')


# --------------------------------------------------------------------------------------------------
# driver

def run_property(prop_id, tier, seed, only=None):
    import importlib
    t0 = time.time()
    mod = importlib.import_module(f'harness.props.{prop_id.lower()}')
    subs = [s for s in mod.SUBCHECKS if tier in s.tiers and (only is None or s.name in only)]
    known = load_known(prop_id)
    shrink_s = float(os.environ.get('VERIF_SHRINK_S', '15' if tier == 'quick' else '120'))
    agg = {s.name: Stats() for s in subs}
    meta = {s.name: {'kind': s.kind, 'exhaustive': bool(s.exhaustive and s.kind == 'enum'), 'shards': 0,
                     'wall_s': 0.0, 'note': s.note} for s in subs}
    problems = []

    # 1. regression cases (committed minimal cases), replayed without Hypothesis
    reg_dir = os.path.join(VERIF, 'regress', prop_id)
    reg_fail = []
    n_reg = 0
    if os.path.isdir(reg_dir) and only is None:
        byname = {s.name: s for s in mod.SUBCHECKS}
        for fn in sorted(os.listdir(reg_dir)):
            if not fn.endswith('.json'):
                continue
            with open(os.path.join(reg_dir, fn)) as f:
                r = json.load(f)
            sub = byname.get(r['subcheck'])
            if sub is None:
                if not getattr(mod, 'PARTIAL', False):      # a module imported in part (development aid) skips foreign cases
                    problems.append(f'regress/{prop_id}/{fn}: unknown subcheck {r["subcheck"]}')
                continue
            n_reg += 1
            try:
                res, _ = run_check_guarded(sub, r['case'])
            except CaseTimeout:
                problems.append(f'regress/{prop_id}/{fn}: cpu ceiling')
                continue
            except HarnessError as e:
                problems.append(f'regress/{prop_id}/{fn}: {e}')
                continue
            if sub.name in agg:
                agg[sub.name].record(sub, r['case'])
            if res is not None:
                if res.signature in known:
                    st = agg.get(sub.name)
                    if st is not None:
                        st.known[res.signature] = st.known.get(res.signature, 0) + 1
                else:
                    reg_fail.append({'signature': res.signature, 'detail': res.detail, 'case': r['case'],
                                     'sub': sub.name, 'from': fn})

    # 2. generated / enumerated cases over the pool
    tasks = []
    for s in subs:
        ns = s.shards[0] if tier == 'quick' else s.shards[1]
        ns = max(1, min(ns, NPROC * 4))
        meta[s.name]['shards'] = ns
        for k in range(ns):
            tasks.append((prop_id, s.name, k, ns, tier, seed, shrink_s))
    hard = float(os.environ.get('VERIF_HARD_TIMEOUT_S', '900' if tier == 'quick' else '14400'))
    results = []
    ctx = multiprocessing.get_context('fork')
    pool = ctx.Pool(min(NPROC, max(1, len(tasks))), maxtasksperchild=1)
    try:
        it = pool.imap_unordered(_shard_worker, tasks)
        for _ in range(len(tasks)):
            remaining = hard - (time.time() - t0)
            if remaining <= 0:
                raise multiprocessing.TimeoutError()
            results.append(it.next(timeout=remaining))
    except multiprocessing.TimeoutError:
        pool.terminate()
        problems.append(f'hard timeout of {hard}s reached: inconclusive')
    finally:
        pool.terminate()
        pool.join()

    failures = list(reg_fail)
    for r in results:
        st = agg[r['sub']]
        st.evaluations += r['evaluations']
        st.nontrivial.update(bytes(x) if not isinstance(x, bytes) else x for x in r['nontrivial'])
        for c, v in r['classes'].items():
            st.classes[c] = st.classes.get(c, 0) + v
        if len(st.samples) < 6:
            st.samples.extend(r['samples'][: 6 - len(st.samples)])
        for sig, v in r['known'].items():
            st.known[sig] = st.known.get(sig, 0) + v
        st.max_case_cpu = max(st.max_case_cpu, r['max_case_cpu'])
        meta[r['sub']]['wall_s'] = round(max(meta[r['sub']]['wall_s'], r['wall']), 2)
        for f in r['failures']:
            f = dict(f)
            f['sub'] = f.pop('sub_override', None) or r['sub']
            failures.append(f)
        if r['status'] == 'timeout':
            problems.append(f'{r["sub"]} shard {r["shard"]}: a case exceeded the CPU ceiling (inconclusive)')
        elif r['status'] != 'ok':
            problems.append(f'{r["sub"]} shard {r["shard"]}: {r["status"]}: {r["error"]}')

    # 3. report
    wall = time.time() - t0
    if OPTIMIZED:
        for f in failures:
            f['signature'] = 'python-O/' + f['signature']
    # one replay per distinct signature
    seen = {}
    for f in failures:
        cur = seen.get(f['signature'])
        if cur is None or len(canon(f['case'])) < len(canon(cur['case'])):
            seen[f['signature']] = f
    replay_paths = []
    if seen:
        os.makedirs(os.path.join(OUT, 'replays'), exist_ok=True)
    for sig, f in sorted(seen.items()):
        h = hashlib.sha1((sig + canon(f['case'])).encode()).hexdigest()[:12]
        path = os.path.join(OUT, 'replays', f'{prop_id}-{f["sub"]}-{h}.json')
        with open(path, 'w') as fh:
            json.dump({'property': prop_id, 'subcheck': f['sub'], 'signature': sig, 'detail': f['detail'],
                       'seed': seed, 'tier': tier, 'mode': 'O' if OPTIMIZED else 'normal', 'env': f.get('env', 'default'), 'case': f['case']},
                      fh, indent=1, default=_json_default)
        replay_paths.append((sig, path, f))

    known_hits = {}
    for st in agg.values():
        for sig, v in st.known.items():
            known_hits[sig] = known_hits.get(sig, 0) + v

    write_evidence(mod, prop_id, tier, seed, agg, meta, wall, len(seen), known_hits, n_reg, problems, partial=only is not None)

    for sig, cnt in sorted(known_hits.items()):
        print(f'KNOWN-FINDING: property={prop_id} {known[sig].get("what", sig)} [signature={sig} hits={cnt}]')
    for sig, path, f in replay_paths:
        print(f'VIOLATION property={prop_id} replay={path}')
        print(f'  subcheck={f["sub"]} signature={sig}')
        print('  detail: ' + f['detail'][:600].replace('\n', '\n          '))
    tot = sum(s.evaluations for s in agg.values())
    nt = sum(len(s.nontrivial) for s in agg.values())
    print(f'{prop_id}{" [python -O]" if OPTIMIZED else ""} tier={tier} seed={seed}: {tot} cases, {nt} distinct non-trivial, '
          f'{len(seen)} violation signature(s), {sum(known_hits.values())} known-finding hits, {wall:.1f}s')
    for p in problems:
        print('HARNESS-PROBLEM: ' + p.replace('\n', '\n   '), file=sys.stderr)
    if seen:
        return 1
    if problems:
        return 2
    return 0


def write_evidence(mod, prop_id, tier, seed, agg, meta, wall, nviol, known_hits, n_reg, problems, partial=False):
    samples = []
    for name, st in agg.items():
        for s in st.samples[:3]:
            samples.append({'subcheck': name, 'case': s})
    subs = {}
    classes = {}
    for name, st in agg.items():
        subs[name] = dict(meta[name], evaluations=st.evaluations, distinct_nontrivial=len(st.nontrivial),
                          max_case_cpu_s=round(st.max_case_cpu, 3))
        for c, v in st.classes.items():
            classes[f'{name}:{c}'] = v
    ev = {
        'property_id': prop_id,
        'tier': tier,
        'seed': seed,
        'level': 'exploration',
        'coverage': {
            'evaluations': sum(s.evaluations for s in agg.values()),
            'distinct_nontrivial': sum(len(s.nontrivial) for s in agg.values()),
            'rule': getattr(mod, 'RULE', ''),
            'samples': samples[:24] or [{'note': 'no non-trivial sample recorded'}],
            'exhaustive': False,
            'subchecks': subs,
            'classes': dict(sorted(classes.items())),
            'excluded_known': known_hits,
            'regression_cases_replayed': n_reg,
            'harness_problems': problems,
        },
        'assumptions': getattr(mod, 'ASSUMPTIONS', []),
        'wall_s': round(wall, 2),
        'violations': nviol,
    }
    os.makedirs(os.path.join(OUT, 'evidence'), exist_ok=True)
    # a run restricted with --only is a development aid: it must never replace the evidence of the registered check
    name = f'{prop_id}.partial.json' if partial else f'{prop_id}.json'
    with open(os.path.join(OUT, 'evidence', name), 'w') as f:
        json.dump(ev, f, indent=1, default=_json_default)


def replay(prop_id, path):
    import importlib
    mod = importlib.import_module(f'harness.props.{prop_id.lower()}')
    with open(path) as f:
        r = json.load(f)
    if r.get('mode') == 'O' and not OPTIMIZED:
        os.execv(sys.executable, [sys.executable, '-O', os.path.join(VERIF, 'run.py'), prop_id, '--replay', path])
    if r.get('env', 'default') != 'default':
        _noisy_environment()
    sub = {s.name: s for s in mod.SUBCHECKS}[r['subcheck']]
    known = load_known(prop_id)
    try:
        res, cpu = run_check_guarded(sub, r['case'])
    except CaseTimeout:
        print('case exceeded the CPU ceiling: inconclusive')
        return 2
    if res is not None and OPTIMIZED:
        res.signature = 'python-O/' + res.signature
    if res is None:
        print(f'replay {path}: property holds on this case')
        return 0
    if res.signature in known:
        print(f'KNOWN-FINDING: property={prop_id} {known[res.signature].get("what", res.signature)}')
        return 0
    print(f'VIOLATION property={prop_id} replay={path}')
    print(f'  signature={res.signature}\n  detail: {res.detail}')
    return 1


def run_optimized_child(prop_id, tier, seed):
    """Second pass of a property's check in a child interpreter started with -O (asserts stripped; __debug__ False): the library
    must satisfy the property in that mode as well. Quick-tier sizes with multiplier 1; the child writes its replays under
    <out>/optimized-mode/replays (they re-run under -O), prints its own VIOLATION lines, and its counts are merged into the
    evidence file of the main pass. Returns the child's exit code (0 / 1 / 2)."""
    import shutil
    import subprocess
    out = os.path.join(OUT, 'optimized-mode')
    env = dict(os.environ, VERIF_OUT_DIR=out, VERIF_QUICK_MULT=os.environ.get('VERIF_OPT_MULT', '1'), VERIF_SEED=str(seed))
    env.pop('PYTHONOPTIMIZE', None)
    sys.stdout.flush()
    t0 = time.time()
    try:
        p = subprocess.run([sys.executable, '-O', os.path.join(VERIF, 'run.py'), prop_id, '--tier', 'quick'], env=env,
                           timeout=float(os.environ.get('VERIF_HARD_TIMEOUT_S', '1800')))
        rc = p.returncode
    except subprocess.TimeoutExpired:
        print('HARNESS-PROBLEM: python -O pass timed out: inconclusive', file=sys.stderr)
        rc = 2
    evp = os.path.join(OUT, 'evidence', f'{prop_id}.json')
    cvp = os.path.join(out, 'evidence', f'{prop_id}.json')
    try:
        with open(evp) as f:
            ev = json.load(f)
        with open(cvp) as f:
            cv = json.load(f)
        ev['coverage']['python_O_pass'] = {
            'what': 'the same sub-checks run once more in a child interpreter started with -O (assert statements stripped), '
                    'quick sizes with multiplier 1; violations found there are reported as python-O/<signature>',
            'evaluations': cv['coverage']['evaluations'], 'distinct_nontrivial': cv['coverage']['distinct_nontrivial'],
            'violations': cv['violations'], 'exit': rc, 'wall_s': round(time.time() - t0, 2)}
        ev['violations'] = ev.get('violations', 0) + cv.get('violations', 0)
        ev['wall_s'] = round(ev.get('wall_s', 0) + (time.time() - t0), 2)
        with open(evp, 'w') as f:
            json.dump(ev, f, indent=1, default=_json_default)
    except Exception as e:
        print(f'HARNESS-PROBLEM: could not merge the python -O pass into the evidence: {e!r}', file=sys.stderr)
        rc = rc or 2
    shutil.rmtree(os.path.join(out, 'evidence'), ignore_errors=True)
    return rc
