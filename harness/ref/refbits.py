"""
Independent TL-B bit-string writer (reference model for C06).

Works on Python ``str`` of '0'/'1' only; imports nothing from pytoniq_core and nothing from bitarray.
Every writer validates its domain and raises ValueError outside it, so a generator bug cannot silently
produce an "expected" string for a value TL-B cannot express.

TL-B (block.tlb) covered here:

    uintN / intN            big-endian, intN in two's complement
    var_uint$_ {n:#} len:(#< n) value:(uint (len * 8)) = VarUInteger n;
    var_int$_  {n:#} len:(#< n) value:(int  (len * 8)) = VarInteger n;
        `len` is the MINIMAL byte count (TON: k = (bit_size(signed)+7)>>3; zero -> len 0); the library API is
        parameterised by the width of the length field, i.e. n = 2**bit_length, len <= 2**bit_length - 1
    nanograms$_ amount:(VarUInteger 16) = Grams;                 -> 4-bit length field
    nothing$0 / just$1                                           -> Maybe ^Cell, HashmapE: one bit (+ one reference)
    addr_none$00 = MsgAddressExt;
    addr_extern$01 len:(## 9) external_address:(bits len) = MsgAddressExt;
    anycast_info$_ depth:(#<= 30) { depth >= 1 } rewrite_pfx:(bits depth) = Anycast;     (#<= 30 -> 5 bits)
    addr_std$10 anycast:(Maybe Anycast) workchain_id:int8 address:bits256 = MsgAddressInt;
    tail#_ / cons#_  SnakeData (TEP-64): bytes continued in the single reference of each cell
"""


def _chk(cond, msg):
    if not cond:
        raise ValueError(msg)


def is01(s):
    return isinstance(s, str) and all(c in '01' for c in s)


def uint(v, w):
    """uintW: W binary digits, most significant first"""
    _chk(isinstance(v, int) and not isinstance(v, bool) and isinstance(w, int), 'uint: ints expected')
    _chk(w >= 0 and 0 <= v < (1 << w), f'uint: {v} does not fit {w} bits')
    if w == 0:
        return ''
    out = []
    for i in range(w - 1, -1, -1):
        out.append('1' if (v >> i) & 1 else '0')
    return ''.join(out)


def sint(v, w):
    """intW: two's complement, most significant (sign) bit first"""
    _chk(isinstance(v, int) and not isinstance(v, bool) and isinstance(w, int), 'sint: ints expected')
    _chk(w >= 1 and -(1 << (w - 1)) <= v < (1 << (w - 1)), f'sint: {v} does not fit {w} bits')
    return uint(v if v >= 0 else v + (1 << w), w)


def var_uint_len(v):
    """minimal number of bytes holding the unsigned value (0 for 0)"""
    _chk(isinstance(v, int) and v >= 0, 'var_uint_len: non-negative int expected')
    n = 0
    while v >= (1 << (8 * n)):
        n += 1
    return n


def var_int_len(v):
    """minimal number of bytes holding the value in two's complement (0 for 0): 127->1, 128->2, -128->1, -129->2"""
    _chk(isinstance(v, int), 'var_int_len: int expected')
    if v == 0:
        return 0
    n = 1
    while not (-(1 << (8 * n - 1)) <= v < (1 << (8 * n - 1))):
        n += 1
    return n


def var_uint(v, len_bits):
    """VarUInteger (2**len_bits): len field of len_bits bits (minimal byte count), then uint(8*len)"""
    _chk(len_bits >= 1, 'var_uint: length field width >= 1')
    n = var_uint_len(v)
    _chk(n < (1 << len_bits), f'var_uint: {v} needs {n} bytes, length field of {len_bits} bits holds at most {(1 << len_bits) - 1}')
    return uint(n, len_bits) + uint(v, 8 * n)


def var_int(v, len_bits):
    """VarInteger (2**len_bits): len field of len_bits bits (minimal byte count), then int(8*len)"""
    _chk(len_bits >= 1, 'var_int: length field width >= 1')
    n = var_int_len(v)
    _chk(n < (1 << len_bits), f'var_int: {v} needs {n} bytes, length field of {len_bits} bits holds at most {(1 << len_bits) - 1}')
    return uint(n, len_bits) + (sint(v, 8 * n) if n else '')


def coins(v):
    """Grams = VarUInteger 16"""
    return var_uint(v, 4)


def bit(v):
    _chk(v in (0, 1, True, False), 'bit: 0/1 expected')
    return '1' if v else '0'


def from_bytes(data):
    _chk(isinstance(data, (bytes, bytearray)), 'from_bytes: bytes expected')
    return ''.join(uint(b, 8) for b in data)


def utf8(s):
    _chk(isinstance(s, str), 'utf8: str expected')
    return from_bytes(s.encode('utf-8'))


def maybe(present):
    return '1' if present else '0'


def addr_none():
    return '00'


def addr_extern(v, n):
    """addr_extern$01 len:(## 9) external_address:(bits len); the address is given as an unsigned integer of n bits"""
    _chk(0 <= n <= 511, 'addr_extern: len is (## 9)')
    return '01' + uint(n, 9) + uint(v, n)


def anycast(depth, pfx):
    _chk(1 <= depth <= 30, 'anycast: 1 <= depth <= 30')
    return uint(depth, 5) + uint(pfx, depth)


def addr_std(wc, account, any_=None):
    """addr_std$10 anycast:(Maybe Anycast) workchain_id:int8 address:bits256; any_ = None | (depth, rewrite_pfx)"""
    _chk(isinstance(account, (bytes, bytearray)) and len(account) == 32, 'addr_std: 32-byte account id')
    head = '10' + ('0' if any_ is None else '1' + anycast(any_[0], any_[1]))
    return head + sint(wc, 8) + from_bytes(account)


def snake_chunks(data, first_capacity_bytes, cell_capacity_bytes=127):
    """one valid SnakeData layout (greedy): bytes that fit the current cell, the rest in 127-byte cells.
    returns the list of byte chunks, first chunk = current cell (may be empty), at least one chunk"""
    _chk(first_capacity_bytes >= 0 and cell_capacity_bytes >= 1, 'snake_chunks: capacities')
    chunks = [bytes(data[:first_capacity_bytes])]
    rest = bytes(data[first_capacity_bytes:])
    while rest:
        chunks.append(rest[:cell_capacity_bytes])
        rest = rest[cell_capacity_bytes:]
    return chunks


def to_bytes(bits):
    """inverse of from_bytes (length must be a multiple of 8)"""
    _chk(is01(bits) and len(bits) % 8 == 0, 'to_bytes: multiple of 8 bits expected')
    return bytes(int(bits[i:i + 8], 2) for i in range(0, len(bits), 8))


def selftest():
    """hand-computed vectors (TL-B / TON documentation values); raises AssertionError when the model is broken"""
    assert uint(5, 3) == '101' and uint(0, 1) == '0' and uint(255, 8) == '1' * 8 and uint(0, 0) == ''
    assert sint(-1, 8) == '11111111' and sint(-128, 8) == '10000000' and sint(127, 8) == '01111111'
    assert sint(-1, 1) == '1' and sint(0, 1) == '0' and sint(-2, 3) == '110' and sint(3, 3) == '011'
    assert [var_int_len(v) for v in (0, 1, -1, 127, 128, 255, 256, -128, -129, 32767, 32768, -32768, -32769)] == \
           [0, 1, 1, 1, 2, 2, 2, 1, 2, 2, 3, 2, 3]
    assert [var_uint_len(v) for v in (0, 1, 255, 256, 65535, 65536)] == [0, 1, 1, 2, 2, 3]
    assert coins(0) == '0000' and coins(1) == '0001' + '00000001'
    assert coins(10 ** 9) == '0100' + '00111011100110101100101000000000'          # 1 TON = 0x3B9ACA00
    assert var_int(-1, 4) == '0001' + '11111111' and var_int(128, 4) == '0010' + '0000000010000000'
    assert var_int(-129, 5) == '00010' + '1111111101111111' and var_int(0, 3) == '000'
    assert var_uint(255, 1) == '1' + '11111111'
    assert addr_none() == '00' and addr_extern(0, 0) == '01' + '0' * 9 and addr_extern(5, 3) == '01' + '000000011' + '101'
    assert addr_std(-1, b'\x00' * 31 + b'\x01') == '100' + '1' * 8 + '0' * 255 + '1'
    assert addr_std(0, b'\xff' * 32, (3, 5)) == '10' + '1' + '00011' + '101' + '0' * 8 + '1' * 256
    assert snake_chunks(b'abc', 1, 1) == [b'a', b'b', b'c'] and snake_chunks(b'', 5) == [b''] and snake_chunks(b'ab', 0) == [b'', b'ab']
    assert to_bytes(from_bytes(b'\x00\x80\xff')) == b'\x00\x80\xff' and utf8('é') == '1100001110101001'
    for name in ('uint:(2,1)', 'sint:(128,8)', 'sint:(-129,8)', 'var_uint:(256,1)', 'var_int:(128,1)', 'addr_extern:(0,512)'):
        f, args = name.split(':')
        try:
            globals()[f](*eval(args))
        except ValueError:
            continue
        raise AssertionError(f'{name} accepted')
    return True
