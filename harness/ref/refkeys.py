"""
Independent reference for the key material used by C20 (no imports from pytoniq_core).

* Ed25519 key pairs / verification straight from libsodium (nacl.bindings).
* ADNL short id of an Ed25519 public key: sha256(TL constructor id of pub.ed25519 (0x4813b4c6, little endian) || key).
* TON mnemonic rules as documented for the standard wallets (tonweb-mnemonic / ton-crypto):
    entropy      = HMAC-SHA512(key = words joined by one space, msg = password (empty))
    basic seed   <=> PBKDF2-HMAC-SHA512(entropy, salt 'TON seed version', floor(100000/256) = 390 rounds)[0] == 0
    wallet key   = Ed25519 key pair of seed PBKDF2-HMAC-SHA512(entropy, salt 'TON default seed', 100000 rounds)[:32]
"""
import hashlib
import hmac

from nacl.bindings import crypto_sign_seed_keypair, crypto_sign_open
from nacl.exceptions import BadSignatureError

TL_PUB_ED25519 = (0x4813b4c6).to_bytes(4, 'little')
PBKDF_ROUNDS = 100000


def ed_keypair(seed: bytes):
    """-> (public key 32 bytes, libsodium secret key 64 bytes = seed || public key)"""
    pk, sk = crypto_sign_seed_keypair(seed)
    return bytes(pk), bytes(sk)


def adnl_key_id(pub: bytes) -> bytes:
    return hashlib.sha256(TL_PUB_ED25519 + pub).digest()


def ed_verify(pk: bytes, msg: bytes, sig: bytes) -> bool:
    if len(sig) != 64 or len(pk) != 32:
        return False
    try:
        crypto_sign_open(sig + msg, pk)
        return True
    except BadSignatureError:
        return False


_L = 2 ** 252 + 27742317777372353535851937790883648493


def ed_sign_alt(seed: bytes, msg: bytes, salt: bytes) -> bytes:
    """A valid Ed25519 signature of `msg` under the key of `seed` made with a nonce derived from `salt` instead of the
    RFC 8032 deterministic one: a signer may produce any number of distinct valid signatures of one message."""
    from nacl.bindings import crypto_scalarmult_ed25519_base_noclamp
    h = hashlib.sha512(seed).digest()
    a = bytearray(h[:32])
    a[0] &= 248
    a[31] &= 127
    a[31] |= 64
    a = int.from_bytes(a, 'little') % _L
    pk, _ = crypto_sign_seed_keypair(seed)
    r = int.from_bytes(hashlib.sha512(b'alt-nonce' + salt + h[32:] + msg).digest(), 'little') % _L
    if r == 0:
        r = 1
    R = crypto_scalarmult_ed25519_base_noclamp(r.to_bytes(32, 'little'))
    k = int.from_bytes(hashlib.sha512(R + bytes(pk) + msg).digest(), 'little') % _L
    S = (r + k * a) % _L
    return bytes(R) + S.to_bytes(32, 'little')


def mnemonic_entropy(words, password: str = '') -> bytes:
    return hmac.new(' '.join(words).encode('utf-8'), password.encode('utf-8'), hashlib.sha512).digest()


def is_basic_seed(entropy: bytes) -> bool:
    return hashlib.pbkdf2_hmac('sha512', entropy, b'TON seed version', max(1, PBKDF_ROUNDS // 256))[0] == 0


def mnemonic_valid(words) -> bool:
    return len(words) == 24 and is_basic_seed(mnemonic_entropy(words))


def wallet_key(words):
    """-> (public key, 64-byte secret key)"""
    seed = hashlib.pbkdf2_hmac('sha512', mnemonic_entropy(words), b'TON default seed', PBKDF_ROUNDS)[:32]
    return ed_keypair(seed)


def _selfcheck():
    # RFC 8032 test vector 1 (empty message) pins ed_keypair / ed_verify
    seed = bytes.fromhex('9d61b19deffd5a60ba844af492ec2cc44449c5697b326919703bac031cae7f60')
    pk, _ = ed_keypair(seed)
    assert pk.hex() == 'd75a980182b10ab7d54bfed3c964073a0ee172f3daa62325af021a68f707511a'
    sig = bytes.fromhex('e5564300c360ac729086e2cc806e828a84877f1eb8e5d974d873e065224901555fb8821590a33bacc61e39701cf9b46b'
                        'd25bf5f0595bbe24655141438e7a100b')
    assert ed_verify(pk, b'', sig) and not ed_verify(pk, b'\x00', sig)
    alt = ed_sign_alt(seed, b'', b'x')
    assert alt != sig and ed_verify(pk, b'', alt) and ed_verify(pk, b'm', ed_sign_alt(seed, b'm', b'y'))


_selfcheck()
