"""
Reference model of TON cells: level masks and per-level hashes/depths for ordinary, pruned-branch, library,
Merkle-proof and Merkle-update cells, written as a recursive definition from the TVM white paper §3.1 and the
semantics of crypto/vm/cells/DataCell.cpp / CellBuilder.cpp. Imports nothing from the library under test.
Bits are python str of '0'/'1'.
"""
import hashlib

ORD, PRUNED, LIBRARY, MPROOF, MUPDATE = -1, 1, 2, 3, 4


class RefCellError(Exception):
    pass


def bits_to_padded_bytes(b: str) -> bytes:
    if len(b) % 8:
        b = b + '1' + '0' * (7 - len(b) % 8)
    return int(b, 2).to_bytes(len(b) // 8, 'big') if b else b''


def bytes_to_bits(data: bytes) -> str:
    return ''.join(f'{x:08b}' for x in data)


class RCell:
    __slots__ = ('bits', 'refs', 'special', '_memo')

    def __init__(self, bits, refs=(), special=False):
        self.bits = bits
        self.refs = tuple(refs)
        self.special = bool(special)
        self._memo = {}
        if len(bits) > 1023 or len(self.refs) > 4:
            raise RefCellError('cell overflow: more than 1023 bits or 4 references')
        # eager: children are always constructed first, so every recursion below is one level deep
        # (a depth-1023 chain never recurses 1023 frames)
        for i in range(4):
            self.HD(i)

    # -- structure ---------------------------------------------------------------------------------
    @property
    def type(self):
        if not self.special:
            return ORD
        return int(self.bits[:8], 2)

    def data_padded(self):
        return bits_to_padded_bytes(self.bits)

    def d2(self):
        n = len(self.bits)
        return (n // 8) + ((n + 7) // 8)

    def mask(self):
        m = self._memo.get('m')
        if m is not None:
            return m
        t = self.type
        if t == ORD:
            m = 0
            for r in self.refs:
                m |= r.mask()
        elif t == PRUNED:
            m = int(self.bits[8:16], 2)
        elif t == LIBRARY:
            m = 0
        elif t == MPROOF:
            m = self.refs[0].mask() >> 1
        elif t == MUPDATE:
            m = (self.refs[0].mask() | self.refs[1].mask()) >> 1
        else:
            raise RefCellError(f'unknown special type {t}')
        self._memo['m'] = m
        return m

    def level(self):
        return self.mask().bit_length()

    def sig_levels(self):
        m = self.mask()
        return [0] + [i + 1 for i in range(3) if (m >> i) & 1]

    # -- hashes ------------------------------------------------------------------------------------
    def HD(self, i):
        """(hash, depth) of this cell at level i (0..3)"""
        m = self.mask()
        e = m & ((1 << i) - 1)
        k = bin(e).count('1')
        if self.type == PRUNED:
            tot = bin(m).count('1')
            if k != tot:
                data = self.data_padded()
                h = data[2 + 32 * k: 2 + 32 * (k + 1)]
                off = 2 + 32 * tot + 2 * k
                return h, int.from_bytes(data[off: off + 2], 'big')
            return self._HHD(0, own=True)
        return self._HHD(k)

    def H(self, i=0):
        return self.HD(i)[0]

    def D(self, i=0):
        return self.HD(i)[1]

    def _HHD(self, k, own=False):
        key = ('hh', k, own)
        r = self._memo.get(key)
        if r is not None:
            return r
        m = self.mask()
        if own:  # pruned branch: a single own hash, descriptor carries the full mask
            lvl_mask = m
            body = self.data_padded()
            L = 0  # pruned branches have no refs; irrelevant
        else:
            L = self.sig_levels()[k]
            lvl_mask = m & ((1 << L) - 1)
            body = self.data_padded() if k == 0 else self._HHD(k - 1)[0]
        d1 = len(self.refs) + 8 * self.special + 32 * lvl_mask
        shift = 1 if self.type in (MPROOF, MUPDATE) else 0
        hs = b''
        ds = b''
        depth = 0
        for c in self.refs:
            h, d = c.HD(L + shift)
            hs += h
            ds += d.to_bytes(2, 'big')
            depth = max(depth, d + 1)
        res = (hashlib.sha256(bytes([d1, self.d2()]) + body + ds + hs).digest(), depth)
        self._memo[key] = res
        return res

    def repr_hash(self):
        """top (representation) hash = hash at level 3"""
        return self.H(3)


# -- constructors of exotic cells (as CellBuilder does) ---------------------------------------------

def pruned_branch_of(c: RCell, new_level: int) -> RCell:
    """CellBuilder::do_create_pruned_branch: requires level(c) < new_level <= 3"""
    m = c.mask()
    if not (c.level() < new_level <= 3):
        raise RefCellError('pruned branch level must exceed the level of the pruned cell')
    data = bytes([PRUNED, m | (1 << (new_level - 1))])
    sig = c.sig_levels()
    for i in sig:
        data += c.H(i)
    for i in sig:
        data += c.D(i).to_bytes(2, 'big')
    return RCell(bytes_to_bits(data), (), True)


def pruned_raw(mask: int, hashes, depths) -> RCell:
    """stand-alone pruned branch with arbitrary stored hashes/depths; needs popcount(mask) of each"""
    n = bin(mask).count('1')
    assert 1 <= mask <= 7 and len(hashes) == n and len(depths) == n
    data = bytes([PRUNED, mask]) + b''.join(hashes) + b''.join(d.to_bytes(2, 'big') for d in depths)
    return RCell(bytes_to_bits(data), (), True)


def library_ref(h: bytes) -> RCell:
    assert len(h) == 32
    return RCell(bytes_to_bits(bytes([LIBRARY]) + h), (), True)


def merkle_proof(c: RCell) -> RCell:
    data = bytes([MPROOF]) + c.H(0) + c.D(0).to_bytes(2, 'big')
    return RCell(bytes_to_bits(data), (c,), True)


def merkle_update(a: RCell, b: RCell) -> RCell:
    data = bytes([MUPDATE]) + a.H(0) + b.H(0) + a.D(0).to_bytes(2, 'big') + b.D(0).to_bytes(2, 'big')
    return RCell(bytes_to_bits(data), (a, b), True)


def spec_invalid(c: RCell):
    """None if this single cell is a well-formed TON cell given its children, else the reason (DataCell.cpp checks):
    exotic cells have their exact data layout, Merkle cells commit to their children's level-0 hash and depth,
    level <= 3, depth <= 1023 at every level."""
    t = c.type
    n = len(c.bits)
    if c.special:
        if n < 8:
            return 'special cell shorter than its type byte'
        if t == PRUNED:
            if c.refs:
                return 'pruned branch with references'
            if n < 16:
                return 'pruned branch without mask'
            m = int(c.bits[8:16], 2)
            if not 1 <= m <= 7:
                return 'pruned branch mask out of range'
            if n != 16 + bin(m).count('1') * (256 + 16):
                return 'pruned branch length'
        elif t == LIBRARY:
            if c.refs or n != 8 + 256:
                return 'library cell layout'
        elif t == MPROOF:
            if len(c.refs) != 1 or n != 8 + 256 + 16:
                return 'merkle proof layout'
            d = c.data_padded()
            if d[1:33] != c.refs[0].H(0) or int.from_bytes(d[33:35], 'big') != c.refs[0].D(0):
                return 'merkle proof does not commit to its child'
        elif t == MUPDATE:
            if len(c.refs) != 2 or n != 8 + 512 + 32:
                return 'merkle update layout'
            d = c.data_padded()
            if d[1:33] != c.refs[0].H(0) or d[33:65] != c.refs[1].H(0) or \
                    int.from_bytes(d[65:67], 'big') != c.refs[0].D(0) or int.from_bytes(d[67:69], 'big') != c.refs[1].D(0):
                return 'merkle update does not commit to its children'
        else:
            return 'unknown exotic type'
    try:
        if c.mask() > 7:
            return 'level above 3'
    except RefCellError as e:
        return str(e)
    for i in range(4):
        if c.D(i) > 1023:
            return 'depth above 1023'
    return None


# -- DAG helpers ------------------------------------------------------------------------------------

def topo(roots):
    """distinct cells (by representation hash) reachable from roots in a valid BoC order (parents before
    children: reverse post-order of a DFS); one representative object per hash."""
    done = {}
    order = []
    for root in roots:
        if root.repr_hash() in done:
            continue
        inprog = {root.repr_hash()}
        stack = [(root, iter(root.refs))]
        while stack:
            c, it = stack[-1]
            for ch in it:
                h = ch.repr_hash()
                if h not in done and h not in inprog:
                    inprog.add(h)
                    stack.append((ch, iter(ch.refs)))
                    break
            else:
                stack.pop()
                done[c.repr_hash()] = c
                order.append(c)
    order.reverse()
    return order


def count_distinct(root):
    return len(topo([root]))


def structurally_equal_lib(rc: RCell, lc, memo=None):
    """deep comparison of a reference cell with a library cell: bits, type, refs (recursively).
    memo is per call (keyed on id pairs of objects kept alive by the caller's trees)."""
    if memo is None:
        memo = {}
    stack = [(rc, lc)]
    while stack:
        a, b = stack.pop()
        key = (id(a), id(b))
        if key in memo:
            continue
        memo[key] = True
        if a.bits != b.bits.to01():
            return f'bits differ: {a.bits[:64]}… vs {b.bits.to01()[:64]}…'
        if a.type != b.type_:
            return f'type differs: {a.type} vs {b.type_}'
        if len(a.refs) != len(b.refs):
            return f'ref count differs: {len(a.refs)} vs {len(b.refs)}'
        for x, y in zip(a.refs, b.refs):
            stack.append((x, y))
    return None
