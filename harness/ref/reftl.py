"""
reftl — an independent implementation of the TL (Type Language) binary format for the schema files bundled with the
library under test.  Imports nothing from pytoniq_core; only the *text* of the .tl files is read.

Written from https://core.telegram.org/mtproto/TL , https://core.telegram.org/mtproto/serialize and the way TON's
tl-parser names things (ton/tl/generate/scheme/*.tl).

Schema text  ->  Ctor(name, id, args, result, section, file)
  * `//` comments are dropped, declarations end at `;`, `---types---` / `---functions---` switch the section.
  * `name#hexid ...`  : explicit id;  otherwise id = CRC-32 (zlib polynomial) of the normalised declaration:
    tokens separated by exactly one blank, no `;`, no round brackets.
  * argument `field:type`, type one of
        #  int  long  int128  int256  string  bytes  Bool  true  double ...        ('prim', name)
        (vector T) / vector<T>                                                    ('vector', T)      bare vector
        lower-case last name component                                            ('bare', ctor-name)
        upper-case last name component                                            ('boxed', class-name)
        cond.N?type                                                               arg.cond = (field, bit)

Binary format
  int/# 4 bytes little-endian (int signed, # unsigned), long 8 bytes LE signed, int128/int256 16/32 raw bytes,
  Bool = boxed constructor id of boolTrue / boolFalse, true = zero bytes,
  string/bytes: L<=253 -> 1 length byte, else 0xFE + 3 length bytes LE; then the data; zero padding to a multiple of 4,
  bare vector: 4-byte LE count then the elements, bare object: its fields, boxed object: 4-byte LE id + fields,
  field with cond (f, n): present iff bit n of the (already encoded) `#` field f is set.

Value model (plain Python): int, bool, bytes (bytes, int128, int256), str (string), list (vector),
  dict {'@type': ctor-name, field: value, ...} (objects; '@type' optional for a bare type), True for `true`;
  a dict in a `bytes` field means "the boxed encoding of that object, wrapped as bytes".
"""
import os
import re
import zlib

PRIMS = {'#', 'int', 'long', 'int128', 'int256', 'string', 'bytes', 'Bool', 'true'}
# pseudo / foreign builtins that this model does not give values to
UNSUPPORTED_PRIMS = {'double', 'object', 'function', 'Object', 'Function', 'int32', 'int53', 'int64', 'secureString',
                     'secureBytes', 'Double', 'Int', 'Long', 'String', 'Bytes', 'True', 'Int128', 'Int256', 'Type'}
FIXED = {'#': 4, 'int': 4, 'long': 8, 'int128': 16, 'int256': 32}


class TlRefError(Exception):
    pass


class Arg:
    __slots__ = ('name', 'type', 'cond', 'text')

    def __init__(self, name, type_, cond, text):
        self.name, self.type, self.cond, self.text = name, type_, cond, text

    def __repr__(self):
        return f'{self.name}:{self.text}'


class Ctor:
    __slots__ = ('name', 'id', 'explicit_id', 'args', 'result', 'section', 'file', 'decl', 'builtin',
                 'inner_comment', 'alt_ids')

    def __init__(self, **k):
        for s in self.__slots__:
            setattr(self, s, k[s])

    @property
    def id_le(self):
        return self.id.to_bytes(4, 'little')

    def sig(self):
        """field list as a comparable value (used to detect one name declared with different field lists)"""
        return tuple((a.name, a.text) for a in self.args), self.result

    def __repr__(self):
        return f'<{self.name}#{self.id:08x} {self.args} = {self.result} [{self.file}/{self.section}]>'


# --------------------------------------------------------------------------------------------------
# schema text

def _tokens(decl):
    """split a declaration on blanks that are outside round brackets"""
    out, cur, depth = [], '', 0
    for ch in decl:
        if ch == '(':
            depth += 1
        elif ch == ')':
            depth -= 1
        if ch.isspace() and depth == 0:
            if cur:
                out.append(cur)
            cur = ''
        else:
            cur += ch
    if cur:
        out.append(cur)
    return out


def _is_boxed_name(t):
    last = t.split('.')[-1]
    return last[:1].isupper()


def parse_type(t):
    t = t.strip()
    if t.startswith('(') and t.endswith(')'):
        inner = t[1:-1].split(None, 1)
        if len(inner) == 2 and inner[0] == 'vector':
            return ('vector', parse_type(inner[1]))
        if len(inner) == 1:
            return parse_type(inner[0])
        return ('unsupported', t)
    m = re.fullmatch(r'vector<(.+)>', t)
    if m:
        return ('vector', parse_type(m.group(1)))
    if t in PRIMS:
        return ('prim', t)
    if t in UNSUPPORTED_PRIMS or not re.fullmatch(r'[A-Za-z_][A-Za-z0-9_.]*', t):
        return ('unsupported', t)
    if _is_boxed_name(t):
        return ('boxed', t)
    return ('bare', t)


def parse_declaration(decl, section, file):
    """decl: one declaration without comments, up to and excluding ';'"""
    norm = ' '.join(decl.split())
    toks = _tokens(norm)
    if '=' not in toks:
        raise TlRefError(f'no "=" in declaration: {decl!r}')
    eq = toks.index('=')
    head, argtoks, restoks = toks[0], toks[1:eq], toks[eq + 1:]
    explicit = None
    name = head
    if '#' in head:
        name, hx = head.split('#', 1)
        explicit = int(hx, 16)
    result = ' '.join(restoks)
    args, builtin = [], False
    for tok in argtoks:
        m = re.fullmatch(r'([A-Za-z_][A-Za-z0-9_]*):(.+)', tok)
        if not m:
            builtin = True          # '?', '{t:Type}', '#', '[', 't', ']', '4*[' ... : the built-in pseudo declarations
            continue
        fname, ftype = m.group(1), m.group(2)
        cond = None
        mc = re.fullmatch(r'([A-Za-z_][A-Za-z0-9_]*)\.(\d+)\?(.+)', ftype)
        if mc:
            cond = (mc.group(1), int(mc.group(2)))
            ftype_core = mc.group(3)
        else:
            ftype_core = ftype
        args.append(Arg(fname, parse_type(ftype_core), cond, ftype))
    if name in PRIMS or name in UNSUPPORTED_PRIMS or name in ('boolTrue', 'boolFalse', 'vector'):
        builtin = True
    if explicit is not None:
        cid = explicit
    else:
        cid = zlib.crc32(norm.replace('(', '').replace(')', '').encode()) & 0xFFFFFFFF
    return Ctor(name=name, id=cid, explicit_id=explicit is not None, args=args, result=result, section=section,
                file=file, decl=norm, builtin=builtin, inner_comment=False, alt_ids=())


def _crc_decl(text):
    return zlib.crc32(text.replace(';', '').replace('(', '').replace(')', '').strip().encode()) & 0xFFFFFFFF


def parse_text(text, file):
    """`inner_comment` marks a declaration that continues after a line carrying a `//` comment.  `alt_ids` are CRCs of
    sloppier readings of the same text (blanks not collapsed; text cut at the first comment) - they are NOT ids, they
    only widen the set of 4-byte prefixes that generated opaque byte strings avoid."""
    out = []
    section = 'types'
    cur = ''
    raw = []          # stripped source lines of the current declaration, comments included
    inner = False
    for line in text.splitlines():
        whole = line.strip()
        code = line.split('//', 1)[0].strip()
        if not code:
            continue
        m = re.fullmatch(r'---\s*(types|functions)\s*---', code)
        if m:
            section = m.group(1)
            continue
        if '//' in whole and ';' not in code:
            inner = True
        cur += ' ' + code
        raw.append((code, whole))
        while ';' in cur:
            decl, cur = cur.split(';', 1)
            if decl.strip():
                c = parse_declaration(decl, section, file)
                c.inner_comment = inner
                if not c.explicit_id:
                    a = _crc_decl(' '.join(x for x, _ in raw))
                    b = _crc_decl(' '.join(w for _, w in raw).split('//', 1)[0])
                    c.alt_ids = tuple(sorted({a, b} - {c.id}))
                out.append(c)
            raw, inner = [], False
    if cur.strip():
        raise TlRefError(f'{file}: unterminated declaration {cur!r}')
    return out


class Schema:
    """All bundled declarations.  `domain_files` are the files whose constructors are candidates for generation."""

    def __init__(self, files, domain_files=None):
        # files: {basename: text}
        self.all = []
        for fn in sorted(files):
            self.all.extend(parse_text(files[fn], fn))
        self.domain_files = set(domain_files if domain_files is not None else files)
        by_name = {}
        for c in self.all:
            by_name.setdefault(c.name, []).append(c)
        # a name is ambiguous if its declarations do not all agree on (fields, result, id)
        self.ambiguous = {n for n, cs in by_name.items()
                          if len({(c.sig(), c.id) for c in cs}) > 1}
        self.by_name = {n: cs[0] for n, cs in by_name.items()}
        self.decls_of = by_name
        self.ids = {}
        for c in self.all:
            self.ids.setdefault(c.id, set()).add(c.name)
        # classes: constructors from the *types* sections only
        self.classes = {}
        for n, cs in by_name.items():
            for c in cs:
                if c.section == 'types' and not c.builtin:
                    lst = self.classes.setdefault(c.result, [])
                    if n not in lst:
                        lst.append(n)
        self._depth = None

    @classmethod
    def load(cls, schema_dir, domain=('lite_api.tl', 'ton_api.tl')):
        files = {}
        for fn in sorted(os.listdir(schema_dir)):
            if fn.endswith('.tl'):
                with open(os.path.join(schema_dir, fn)) as f:
                    files[fn] = f.read()
        return cls(files, [d for d in domain if d in files])

    # ---- ids ----
    def ctor(self, name):
        c = self.by_name.get(name)
        if c is None:
            raise TlRefError(f'unknown constructor {name}')
        return c

    def ctor_id(self, name):
        """id of a constructor by name; refuses ambiguous names"""
        if name in self.ambiguous:
            # still well defined if all declarations inside the domain files agree
            cs = [c for c in self.decls_of[name] if c.file in self.domain_files]
            if len({(c.sig(), c.id) for c in cs}) != 1:
                raise TlRefError(f'{name} is declared inconsistently')
            return cs[0].id
        return self.ctor(name).id

    def known_ids_le(self):
        """every id any bundled file declares, as 4 little-endian bytes"""
        return {i.to_bytes(4, 'little') for i in self.ids}

    def avoid_prefixes(self):
        """known ids plus the CRCs of sloppier readings of the same declarations (see parse_text)"""
        out = self.known_ids_le()
        for c in self.all:
            for i in c.alt_ids:
                out.add(i.to_bytes(4, 'little'))
        return out

    def in_domain(self, name):
        c = self.by_name.get(name)
        return c is not None and c.file in self.domain_files and not c.builtin and name not in self.ambiguous

    # ---- supported closure ----
    def _type_depth(self, t, depth):
        k = t[0]
        if k == 'prim':
            return 0
        if k == 'vector':
            return 0 if self._type_depth(t[1], depth) is not None else None      # may be empty, but element must exist
        if k == 'bare':
            if not self.in_domain(t[1]):
                return None
            return depth.get(t[1])
        if k == 'boxed':
            if t[1] == 'Bool':
                return 0
            ds = [depth[n] for n in self.classes.get(t[1], []) if depth.get(n) is not None and self.in_domain(n)]
            return min(ds) if ds else None
        return None

    def depths(self):
        """least nesting depth of a value of each constructor (None = no finite well-typed value in the supported
        closure).  Optional and vector fields still need a supported type, though they can be absent/empty."""
        if self._depth is not None:
            return self._depth
        depth = {}
        cands = [c for c in self.by_name.values() if not c.builtin and c.name not in self.ambiguous]
        changed = True
        while changed:
            changed = False
            for c in cands:
                worst = 0
                ok = True
                for a in c.args:
                    if a.cond is not None:
                        f = next((b for b in c.args if b.name == a.cond[0]), None)
                        if f is None or f.type != ('prim', '#') or f.cond is not None:
                            ok = False
                            break
                    elif a.type == ('prim', 'true'):
                        pass
                    d = self._type_depth(a.type, depth)
                    if d is None:
                        ok = False
                        break
                    if a.cond is None and a.type[0] != 'vector':
                        worst = max(worst, d)
                if ok:
                    nd = worst + 1
                    if depth.get(c.name) is None or nd < depth[c.name]:
                        depth[c.name] = nd
                        changed = True
        self._depth = depth
        return depth

    def partition(self):
        """(supported, excluded) over the constructors declared in the domain files; excluded: name -> reason"""
        depth = self.depths()
        supported, excluded = [], {}
        seen = set()
        for c in self.all:
            if c.file not in self.domain_files or c.name in seen:
                continue
            seen.add(c.name)
            if c.builtin:
                excluded[c.name] = 'builtin-pseudo-declaration'
            elif c.name in self.ambiguous:
                excluded[c.name] = 'name-declared-differently-in-several-files'
            elif depth.get(c.name) is None:
                excluded[c.name] = self._why(c)
            else:
                supported.append(c.name)
        return supported, excluded

    def _why(self, c):
        def refs_amb(t):
            if t[0] == 'vector':
                return refs_amb(t[1])
            if t[0] == 'bare':
                return t[1] in self.ambiguous
            if t[0] == 'boxed':
                return any(n in self.ambiguous for n in self.classes.get(t[1], []))
            return False
        if any(refs_amb(a.type) for a in c.args):
            return 'depends-on-ambiguous-name'
        for a in c.args:
            if a.type[0] == 'unsupported' or (a.type[0] == 'vector' and a.type[1][0] == 'unsupported'):
                return 'unsupported-field-type:' + (a.type[1] if a.type[0] == 'unsupported' else a.type[1][1])
        return 'depends-on-unsupported-constructor'

    def alternatives(self, class_name):
        """supported, unambiguous constructors of a boxed class"""
        depth = self.depths()
        return [n for n in self.classes.get(class_name, []) if depth.get(n) is not None and self.in_domain(n)]

    # ---- encoding ----
    def bool_id(self, v):
        return self.ctor('boolTrue' if v else 'boolFalse').id_le

    def encode(self, name, value, boxed=True, omit=()):
        return b''.join(b for _, b in self.pieces(name, value, boxed, omit=omit))

    def pieces(self, name, value, boxed=True, top=True, omit=()):
        """the encoding as an ordered list of (kind, bytes) leaves; kind names what the bytes are (for diagnostics).
        `omit`: primitive type names whose fields are left out at every level - NOT TL, only used by checks to recognise
        a particular wrong output (e.g. omit=('string',) reproduces "string fields are dropped")."""
        c = self.ctor(name)
        out = []
        if boxed:
            out.append(('ctor-id' if top else 'boxed-id', c.id_le))
        for a in c.args:
            if a.cond is not None:
                present = (int(value[a.cond[0]]) >> a.cond[1]) & 1
                has = a.name in value and value[a.name] is not None
                if bool(present) != bool(has):
                    raise TlRefError(f'{name}.{a.name}: presence {has} contradicts bit {a.cond[1]} of {a.cond[0]}')
                if not present:
                    continue
            out += self.pieces_type(a.type, value[a.name], omit)
        return out

    @staticmethod
    def bytes_pieces(b, kind):
        n = len(b)
        if n <= 253:
            pre = bytes([n])
        elif n < 1 << 24:
            pre = b'\xfe' + n.to_bytes(3, 'little')
        else:
            raise TlRefError('string longer than 2^24-1')
        return [(kind + '-prefix', pre), (kind + '-body', b), (kind + '-padding', b'\x00' * (-(len(pre) + n) % 4))]

    @classmethod
    def encode_bytes(cls, b):
        return b''.join(x for _, x in cls.bytes_pieces(b, 'bytes'))

    def encode_type(self, t, v):
        return b''.join(b for _, b in self.pieces_type(t, v))

    def pieces_type(self, t, v, omit=()):
        k = t[0]
        if k == 'prim':
            p = t[1]
            if p in omit:
                return []
            if p == '#':
                return [('nat', int(v).to_bytes(4, 'little', signed=False))]
            if p == 'int':
                return [('int', int(v).to_bytes(4, 'little', signed=True))]
            if p == 'long':
                return [('long', int(v).to_bytes(8, 'little', signed=True))]
            if p in ('int128', 'int256'):
                if not isinstance(v, (bytes, bytearray)) or len(v) != FIXED[p]:
                    raise TlRefError(f'{p} needs {FIXED[p]} raw bytes')
                return [(p, bytes(v))]
            if p == 'Bool':
                return [('Bool', self.bool_id(bool(v)))]
            if p == 'true':
                return []
            if p == 'string':
                if not isinstance(v, str):
                    raise TlRefError('string field needs str')
                return self.bytes_pieces(v.encode('utf-8'), 'string')
            if p == 'bytes':
                if isinstance(v, dict):
                    return self.bytes_pieces(self.encode(v['@type'], v, boxed=True, omit=omit), 'bytes-nested')
                return self.bytes_pieces(bytes(v), 'bytes')
        if k == 'vector':
            out = [('vector-count', len(v).to_bytes(4, 'little'))]
            for e in v:
                out += self.pieces_type(t[1], e, omit)
            return out
        if k == 'bare':
            if isinstance(v, dict) and v.get('@type', t[1]) != t[1]:
                raise TlRefError(f'bare {t[1]} given a {v.get("@type")}')
            return self.pieces(t[1], v, boxed=False, top=False, omit=omit)
        if k == 'boxed':
            if t[1] == 'Bool':
                return [('Bool', self.bool_id(bool(v)))]
            if v['@type'] not in self.classes.get(t[1], []):
                raise TlRefError(f'{v["@type"]} is not a constructor of {t[1]}')
            return self.pieces(v['@type'], v, boxed=True, top=False, omit=omit)
        raise TlRefError(f'unsupported type {t}')

    # ---- decoding ----
    def decode(self, data, name=None, pos=0):
        """boxed if name is None (constructor looked up by id), else bare `name`.  returns (value, new_pos)"""
        if name is None:
            if pos + 4 > len(data):
                raise TlRefError('truncated constructor id')
            cid = int.from_bytes(data[pos:pos + 4], 'little')
            names = self.ids.get(cid)
            if not names:
                raise TlRefError(f'unknown constructor id {cid:08x}')
            name = sorted(names)[0]
            pos += 4
        c = self.ctor(name)
        val = {'@type': name}
        for a in c.args:
            if a.cond is not None and not (val[a.cond[0]] >> a.cond[1]) & 1:
                continue
            val[a.name], pos = self.decode_type(a.type, data, pos)
        return val, pos

    @staticmethod
    def _take(data, pos, n):
        if pos + n > len(data):
            raise TlRefError('truncated')
        return data[pos:pos + n], pos + n

    def decode_type(self, t, data, pos):
        k = t[0]
        if k == 'prim':
            p = t[1]
            if p in FIXED:
                raw, pos = self._take(data, pos, FIXED[p])
                if p == '#':
                    return int.from_bytes(raw, 'little'), pos
                if p in ('int', 'long'):
                    return int.from_bytes(raw, 'little', signed=True), pos
                return bytes(raw), pos
            if p == 'Bool':
                raw, pos = self._take(data, pos, 4)
                if raw == self.bool_id(True):
                    return True, pos
                if raw == self.bool_id(False):
                    return False, pos
                raise TlRefError('bad Bool')
            if p == 'true':
                return True, pos
            if p in ('string', 'bytes'):
                start = pos
                first, pos = self._take(data, pos, 1)
                if first[0] == 0xFE:
                    raw, pos = self._take(data, pos, 3)
                    n = int.from_bytes(raw, 'little')
                elif first[0] == 0xFF:
                    raise TlRefError('0xff length marker')
                else:
                    n = first[0]
                body, pos = self._take(data, pos, n)
                pad = -(pos - start) % 4
                padding, pos = self._take(data, pos, pad)
                if any(padding):
                    raise TlRefError('non-zero padding')
                return (body.decode('utf-8') if p == 'string' else bytes(body)), pos
        if k == 'vector':
            raw, pos = self._take(data, pos, 4)
            n = int.from_bytes(raw, 'little')
            if n > len(data) - pos and self._min_size(t[1]) > 0:
                raise TlRefError('vector count exceeds input')
            out = []
            for _ in range(n):
                e, pos = self.decode_type(t[1], data, pos)
                out.append(e)
            return out, pos
        if k == 'bare':
            return self.decode(data, t[1], pos)
        if k == 'boxed':
            if t[1] == 'Bool':
                return self.decode_type(('prim', 'Bool'), data, pos)
            v, pos = self.decode(data, None, pos)
            if v['@type'] not in self.classes.get(t[1], []):
                raise TlRefError(f'{v["@type"]} is not a {t[1]}')
            return v, pos
        raise TlRefError(f'unsupported type {t}')

    def _min_size(self, t):
        if t[0] == 'prim':
            return 0 if t[1] == 'true' else 4
        if t[0] == 'bare':
            return 1 if self.ctor(t[1]).args else 0
        return 4


_CACHE = {}


def bundled(repo):
    """Schema of the files bundled under <repo>/pytoniq_core/tl/schemas (cached per path)."""
    d = os.path.join(repo, 'pytoniq_core/tl/schemas')
    if d not in _CACHE:
        _CACHE[d] = Schema.load(d)
    return _CACHE[d]


# well-known network constants and the ids pinned in the repository's tests (tests/test_tl.py), used as known-answer anchors
ANCHORS = {
    'tcp.ping': 0x4d082b9a,
    'pub.ed25519': 0x4813b4c6,
    'liteServer.getMasterchainInfo': 0x89b5e62e,
    'dht.ping': 0xcbeb3f18,                 # tests/test_tl.py: b'\x18?\xeb\xcb'
    'adnl.packetContents': 0xd142cd89,      # tests/test_tl.py: packet starts 89cd42d1
    'adnl.message.query': 0xb48bf97a,
    'adnl.message.answer': 0x0fac8416,      # tests/test_tl.py: 1684ac0f
    'adnl.address.udp': 0x670da6e7,         # examples/tl/tl.py
    'boolTrue': 0x997275b5,
    'boolFalse': 0xbc799737,
    'liteServer.query': 0x798c06df,
    'tonNode.blockIdExt': 0x6752eb78,
}


def self_check(schema):
    """raises TlRefError when an anchor id is not reproduced"""
    bad = []
    for n, i in ANCHORS.items():
        got = schema.ctor_id(n)
        if got != i:
            bad.append(f'{n}: computed {got:08x}, anchor {i:08x}')
    # ton.blockId: the declaration of ton_api.tl (root_cell_hash, file_hash) is the one block signatures use
    cs = [c for c in schema.decls_of.get('ton.blockId', []) if c.file == 'ton_api.tl']
    if not cs or cs[0].id != 0xc50b6e70:
        bad.append(f'ton.blockId (ton_api.tl): {cs and hex(cs[0].id)} != c50b6e70')
    if bad:
        raise TlRefError('; '.join(bad))
    return True
