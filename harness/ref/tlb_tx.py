"""
TL-B tables (for harness/ref/reftlb.py) of the transaction / account / message-descriptor types (property C16, "tx" half).
Imports nothing from the library under test.

Where each layout comes from
  * pytoniq_core/tlb/schemas/block.tlb (= ton/crypto/block/block.tlb of the revision bundled with the library), transcribed
    constructor by constructor (the quoted declaration stands above every Record):
      IntermediateAddress, MsgEnvelope (msg_envelope#4), InMsg (7 constructors), ImportFees, OutMsg (8 constructors),
      StorageUsed, StorageUsedShort, StorageInfo, Account, AccountStorage, AccountState, AccountStatus, ShardAccount,
      Transaction, AccountBlock, TrStoragePhase, AccStatusChange, TrCreditPhase, TrComputePhase, ComputeSkipReason,
      TrActionPhase, TrBouncePhase, TransactionDescr (7 constructors), SplitMergeInfo.
  * class docstrings of pytoniq_core/tlb/transaction.py that quote a NEWER block.tlb than the bundled file (the docstring is
    what the class claims to parse):
      msg_envelope_v2#5 ... emitted_lt:(Maybe uint64) metadata:(Maybe MsgMetadata)      (MsgEnvelope docstring)
      msg_metadata#0 depth:uint32 initiator_addr:MsgAddressInt initiator_lt:uint64      (MsgMetadata docstring)
      msg_import_deferred_fin$00100, msg_import_deferred_tr$00101                        (InMsg docstring)
  * OutMsg: the docstring lists the 8 constructors of the bundled block.tlb; the parser additionally has branches labelled
    'msg_export_new_defer' ($10100) and 'msg_export_deferred_tr' ($10101). Their layout is taken from the upstream block.tlb
    that introduced them together with msg_envelope_v2 / msg_import_deferred_*:
      msg_export_new_defer$10100 out_msg:^MsgEnvelope transaction:^Transaction = OutMsg;
      msg_export_deferred_tr$10101 out_msg:^MsgEnvelope imported:^InMsg = OutMsg;
  * Message Any, CurrencyCollection, StateInit, HASH_UPDATE: harness/ref/tlb_msg.py.

Conventions
  * Anonymous constructors are named after their type. The anonymous field of `account_active$1 _:StateInit` is called
    'state_init' here (a field cannot be called '_' in the value language; it is also the name the library class declares).
  * `^[ ... ]` groups are spliced: their fields live in the parent's dict.
  * The first alternative of every Union is non-recursive (reftlb generates it when the budget is used up).
  * `tables(addr_int, msg_any)` builds the whole family over a given MsgAddressInt / Message Any, so that a generator can
    restrict addresses to what an API can express; the module-level names are the unrestricted schema.
  * HashmapAug fork extras are not determined by TL-B; the encoder needs some value: `cc_sum` (component-wise sum of the
    CurrencyCollections below the fork, clamped to the field ranges) is what a real block carries.
"""
from types import SimpleNamespace

from .reftlb import (Record, Union, U, I, Bool, Bytes, Maybe, Ref, RefCell, HashmapE, HashmapAug, VarU, Grams, ULe,
                     MsgAddressInt, to_cell, from_cell, diff)
from . import tlb_msg as M

CurrencyCollection = M.CurrencyCollection
HashUpdate = M.HashUpdate
StateInit = M.StateInit


def cc_sum(extras):
    """fork extra of a HashmapAug .. CurrencyCollection: the sum of the leaf extras below (clamped to the value ranges)"""
    grams = min(sum(e['grams'] for e in extras), (1 << 120) - 1)
    other = {}
    for e in extras:
        for k, x in e['other']['dict']:
            other[k] = min(other.get(k, 0) + x, (1 << 248) - 1)
    return {'_': 'currencies', 'grams': grams, 'other': {'_': 'extra_currencies', 'dict': [[k, other[k]] for k in sorted(other)]}}


# ---- types that do not depend on addresses / messages ------------------------------------------------------------

# acst_unchanged$0 = AccStatusChange;  acst_frozen$10 = AccStatusChange;  acst_deleted$11 = AccStatusChange;
AccStatusChange = Union('AccStatusChange', [Record('acst_unchanged', '$0', []), Record('acst_frozen', '$10', []),
                                            Record('acst_deleted', '$11', [])])

# cskip_no_state$00 / cskip_bad_state$01 / cskip_no_gas$10 / cskip_suspended$110 = ComputeSkipReason;
ComputeSkipReason = Union('ComputeSkipReason', [Record('cskip_no_state', '$00', []), Record('cskip_bad_state', '$01', []),
                                                Record('cskip_no_gas', '$10', []), Record('cskip_suspended', '$110', [])])

# acc_state_uninit$00 / acc_state_frozen$01 / acc_state_active$10 / acc_state_nonexist$11 = AccountStatus;
AccountStatus = Union('AccountStatus', [Record('acc_state_uninit', '$00', []), Record('acc_state_frozen', '$01', []),
                                        Record('acc_state_active', '$10', []), Record('acc_state_nonexist', '$11', [])])

# storage_used$_ cells:(VarUInteger 7) bits:(VarUInteger 7) public_cells:(VarUInteger 7) = StorageUsed;
StorageUsed = Record('storage_used', '$_', [('cells', VarU(7)), ('bits', VarU(7)), ('public_cells', VarU(7))])

# storage_used_short$_ cells:(VarUInteger 7) bits:(VarUInteger 7) = StorageUsedShort;
StorageUsedShort = Record('storage_used_short', '$_', [('cells', VarU(7)), ('bits', VarU(7))])

# storage_info$_ used:StorageUsed last_paid:uint32 due_payment:(Maybe Grams) = StorageInfo;
StorageInfo = Record('storage_info', '$_', [('used', StorageUsed), ('last_paid', U(32)), ('due_payment', Maybe(Grams))])

# tr_phase_storage$_ storage_fees_collected:Grams storage_fees_due:(Maybe Grams) status_change:AccStatusChange = TrStoragePhase;
TrStoragePhase = Record('tr_phase_storage', '$_', [('storage_fees_collected', Grams), ('storage_fees_due', Maybe(Grams)),
                                                   ('status_change', AccStatusChange)])

# tr_phase_credit$_ due_fees_collected:(Maybe Grams) credit:CurrencyCollection = TrCreditPhase;
TrCreditPhase = Record('tr_phase_credit', '$_', [('due_fees_collected', Maybe(Grams)), ('credit', CurrencyCollection)])

# tr_phase_compute_skipped$0 reason:ComputeSkipReason = TrComputePhase;
# tr_phase_compute_vm$1 success:Bool msg_state_used:Bool account_activated:Bool gas_fees:Grams
#   ^[ gas_used:(VarUInteger 7) gas_limit:(VarUInteger 7) gas_credit:(Maybe (VarUInteger 3)) mode:int8 exit_code:int32
#      exit_arg:(Maybe int32) vm_steps:uint32 vm_init_state_hash:bits256 vm_final_state_hash:bits256 ] = TrComputePhase;
TrComputePhase = Union('TrComputePhase', [
    Record('tr_phase_compute_skipped', '$0', [('reason', ComputeSkipReason)]),
    Record('tr_phase_compute_vm', '$1', [
        ('success', Bool), ('msg_state_used', Bool), ('account_activated', Bool), ('gas_fees', Grams),
        (None, Ref(Record('', '', [('gas_used', VarU(7)), ('gas_limit', VarU(7)), ('gas_credit', Maybe(VarU(3))),
                                   ('mode', I(8)), ('exit_code', I(32)), ('exit_arg', Maybe(I(32))), ('vm_steps', U(32)),
                                   ('vm_init_state_hash', Bytes(32)), ('vm_final_state_hash', Bytes(32))])))])])

# tr_phase_action$_ success:Bool valid:Bool no_funds:Bool status_change:AccStatusChange total_fwd_fees:(Maybe Grams)
#   total_action_fees:(Maybe Grams) result_code:int32 result_arg:(Maybe int32) tot_actions:uint16 spec_actions:uint16
#   skipped_actions:uint16 msgs_created:uint16 action_list_hash:bits256 tot_msg_size:StorageUsedShort = TrActionPhase;
TrActionPhase = Record('tr_phase_action', '$_', [
    ('success', Bool), ('valid', Bool), ('no_funds', Bool), ('status_change', AccStatusChange),
    ('total_fwd_fees', Maybe(Grams)), ('total_action_fees', Maybe(Grams)), ('result_code', I(32)),
    ('result_arg', Maybe(I(32))), ('tot_actions', U(16)), ('spec_actions', U(16)), ('skipped_actions', U(16)),
    ('msgs_created', U(16)), ('action_list_hash', Bytes(32)), ('tot_msg_size', StorageUsedShort)])

# tr_phase_bounce_negfunds$00 = TrBouncePhase;
# tr_phase_bounce_nofunds$01 msg_size:StorageUsedShort req_fwd_fees:Grams = TrBouncePhase;
# tr_phase_bounce_ok$1 msg_size:StorageUsedShort msg_fees:Grams fwd_fees:Grams = TrBouncePhase;
TrBouncePhase = Union('TrBouncePhase', [
    Record('tr_phase_bounce_negfunds', '$00', []),
    Record('tr_phase_bounce_nofunds', '$01', [('msg_size', StorageUsedShort), ('req_fwd_fees', Grams)]),
    Record('tr_phase_bounce_ok', '$1', [('msg_size', StorageUsedShort), ('msg_fees', Grams), ('fwd_fees', Grams)])])

# split_merge_info$_ cur_shard_pfx_len:(## 6) acc_split_depth:(## 6) this_addr:bits256 sibling_addr:bits256 = SplitMergeInfo;
SplitMergeInfo = Record('split_merge_info', '$_', [('cur_shard_pfx_len', U(6)), ('acc_split_depth', U(6)),
                                                   ('this_addr', Bytes(32)), ('sibling_addr', Bytes(32))])

# interm_addr_regular$0 use_dest_bits:(#<= 96) = IntermediateAddress;
# interm_addr_simple$10 workchain_id:int8 addr_pfx:uint64 = IntermediateAddress;
# interm_addr_ext$11 workchain_id:int32 addr_pfx:uint64 = IntermediateAddress;
IntermediateAddress = Union('IntermediateAddress', [
    Record('interm_addr_regular', '$0', [('use_dest_bits', ULe(96))]),
    Record('interm_addr_simple', '$10', [('workchain_id', I(8)), ('addr_pfx', U(64))]),
    Record('interm_addr_ext', '$11', [('workchain_id', I(32)), ('addr_pfx', U(64))])])

# import_fees$_ fees_collected:Grams value_imported:CurrencyCollection = ImportFees;
ImportFees = Record('import_fees', '$_', [('fees_collected', Grams), ('value_imported', CurrencyCollection)])


def tables(addr_int=MsgAddressInt, msg_any=M.MessageAny):
    """the address / message dependent part of the family (and, for convenience, the rest) as a namespace"""
    ns = SimpleNamespace(
        AccStatusChange=AccStatusChange, ComputeSkipReason=ComputeSkipReason, AccountStatus=AccountStatus,
        StorageUsed=StorageUsed, StorageUsedShort=StorageUsedShort, StorageInfo=StorageInfo, TrStoragePhase=TrStoragePhase,
        TrCreditPhase=TrCreditPhase, TrComputePhase=TrComputePhase, TrActionPhase=TrActionPhase, TrBouncePhase=TrBouncePhase,
        SplitMergeInfo=SplitMergeInfo, IntermediateAddress=IntermediateAddress, ImportFees=ImportFees,
        CurrencyCollection=CurrencyCollection, HashUpdate=HashUpdate, StateInit=StateInit, MessageAny=msg_any)

    # trans_ord$0000 credit_first:Bool storage_ph:(Maybe TrStoragePhase) credit_ph:(Maybe TrCreditPhase)
    #   compute_ph:TrComputePhase action:(Maybe ^TrActionPhase) aborted:Bool bounce:(Maybe TrBouncePhase) destroyed:Bool
    # trans_storage$0001 storage_ph:TrStoragePhase
    # trans_tick_tock$001 is_tock:Bool storage_ph:TrStoragePhase compute_ph:TrComputePhase action:(Maybe ^TrActionPhase)
    #   aborted:Bool destroyed:Bool
    # trans_split_prepare$0100 split_info:SplitMergeInfo storage_ph:(Maybe TrStoragePhase) compute_ph:TrComputePhase
    #   action:(Maybe ^TrActionPhase) aborted:Bool destroyed:Bool
    # trans_split_install$0101 split_info:SplitMergeInfo prepare_transaction:^Transaction installed:Bool
    # trans_merge_prepare$0110 split_info:SplitMergeInfo storage_ph:TrStoragePhase aborted:Bool
    # trans_merge_install$0111 split_info:SplitMergeInfo prepare_transaction:^Transaction storage_ph:(Maybe TrStoragePhase)
    #   credit_ph:(Maybe TrCreditPhase) compute_ph:TrComputePhase action:(Maybe ^TrActionPhase) aborted:Bool destroyed:Bool
    tx = lambda c: ns.Transaction
    ns.TransactionDescr = Union('TransactionDescr', [
        Record('trans_ord', '$0000', [('credit_first', Bool), ('storage_ph', Maybe(TrStoragePhase)),
                                      ('credit_ph', Maybe(TrCreditPhase)), ('compute_ph', TrComputePhase),
                                      ('action', Maybe(Ref(TrActionPhase))), ('aborted', Bool),
                                      ('bounce', Maybe(TrBouncePhase)), ('destroyed', Bool)]),
        Record('trans_storage', '$0001', [('storage_ph', TrStoragePhase)]),
        Record('trans_tick_tock', '$001', [('is_tock', Bool), ('storage_ph', TrStoragePhase), ('compute_ph', TrComputePhase),
                                           ('action', Maybe(Ref(TrActionPhase))), ('aborted', Bool), ('destroyed', Bool)]),
        Record('trans_split_prepare', '$0100', [('split_info', SplitMergeInfo), ('storage_ph', Maybe(TrStoragePhase)),
                                                ('compute_ph', TrComputePhase), ('action', Maybe(Ref(TrActionPhase))),
                                                ('aborted', Bool), ('destroyed', Bool)]),
        Record('trans_split_install', '$0101', [('split_info', SplitMergeInfo), ('prepare_transaction', Ref(tx)),
                                                ('installed', Bool)]),
        Record('trans_merge_prepare', '$0110', [('split_info', SplitMergeInfo), ('storage_ph', TrStoragePhase),
                                                ('aborted', Bool)]),
        Record('trans_merge_install', '$0111', [('split_info', SplitMergeInfo), ('prepare_transaction', Ref(tx)),
                                                ('storage_ph', Maybe(TrStoragePhase)), ('credit_ph', Maybe(TrCreditPhase)),
                                                ('compute_ph', TrComputePhase), ('action', Maybe(Ref(TrActionPhase))),
                                                ('aborted', Bool), ('destroyed', Bool)])])

    # transaction$0111 account_addr:bits256 lt:uint64 prev_trans_hash:bits256 prev_trans_lt:uint64 now:uint32
    #   outmsg_cnt:uint15 orig_status:AccountStatus end_status:AccountStatus
    #   ^[ in_msg:(Maybe ^(Message Any)) out_msgs:(HashmapE 15 ^(Message Any)) ]
    #   total_fees:CurrencyCollection state_update:^(HASH_UPDATE Account) description:^TransactionDescr = Transaction;
    ns.Transaction = Record('transaction', '$0111', [
        ('account_addr', Bytes(32)), ('lt', U(64)), ('prev_trans_hash', Bytes(32)), ('prev_trans_lt', U(64)), ('now', U(32)),
        ('outmsg_cnt', U(15)), ('orig_status', AccountStatus), ('end_status', AccountStatus),
        (None, Ref(Record('', '', [('in_msg', Maybe(Ref(msg_any))), ('out_msgs', HashmapE(15, Ref(msg_any)))]))),
        ('total_fees', CurrencyCollection), ('state_update', Ref(HashUpdate)), ('description', Ref(ns.TransactionDescr))])

    # account_uninit$00 = AccountState;  account_active$1 _:StateInit = AccountState;
    # account_frozen$01 state_hash:bits256 = AccountState;
    ns.AccountState = Union('AccountState', [Record('account_uninit', '$00', []),
                                             Record('account_active', '$1', [('state_init', StateInit)]),
                                             Record('account_frozen', '$01', [('state_hash', Bytes(32))])])

    # account_storage$_ last_trans_lt:uint64 balance:CurrencyCollection state:AccountState = AccountStorage;
    ns.AccountStorage = Record('account_storage', '$_', [('last_trans_lt', U(64)), ('balance', CurrencyCollection),
                                                         ('state', ns.AccountState)])

    # account_none$0 = Account;  account$1 addr:MsgAddressInt storage_stat:StorageInfo storage:AccountStorage = Account;
    ns.Account = Union('Account', [Record('account_none', '$0', []),
                                   Record('account', '$1', [('addr', addr_int), ('storage_stat', StorageInfo),
                                                            ('storage', ns.AccountStorage)])])

    # account_descr$_ account:^Account last_trans_hash:bits256 last_trans_lt:uint64 = ShardAccount;
    ns.ShardAccount = Record('account_descr', '$_', [('account', Ref(ns.Account)), ('last_trans_hash', Bytes(32)),
                                                     ('last_trans_lt', U(64))])

    # acc_trans#5 account_addr:bits256 transactions:(HashmapAug 64 ^Transaction CurrencyCollection)
    #   state_update:^(HASH_UPDATE Account) = AccountBlock;
    ns.AccountBlock = Record('acc_trans', '#5', [
        ('account_addr', Bytes(32)),
        ('transactions', HashmapAug(64, Ref(ns.Transaction), CurrencyCollection, fork_extra=cc_sum, counts=(1, 1, 2, 3))),
        ('state_update', Ref(HashUpdate))])

    # msg_metadata#0 depth:uint32 initiator_addr:MsgAddressInt initiator_lt:uint64 = MsgMetadata;
    ns.MsgMetadata = Record('msg_metadata', '#0', [('depth', U(32)), ('initiator_addr', addr_int), ('initiator_lt', U(64))])

    # msg_envelope#4 cur_addr:IntermediateAddress next_addr:IntermediateAddress fwd_fee_remaining:Grams
    #   msg:^(Message Any) = MsgEnvelope;
    # msg_envelope_v2#5 cur_addr:IntermediateAddress next_addr:IntermediateAddress fwd_fee_remaining:Grams
    #   msg:^(Message Any) emitted_lt:(Maybe uint64) metadata:(Maybe MsgMetadata) = MsgEnvelope;
    ns.MsgEnvelope = Union('MsgEnvelope', [
        Record('msg_envelope', '#4', [('cur_addr', IntermediateAddress), ('next_addr', IntermediateAddress),
                                      ('fwd_fee_remaining', Grams), ('msg', Ref(msg_any))]),
        Record('msg_envelope_v2', '#5', [('cur_addr', IntermediateAddress), ('next_addr', IntermediateAddress),
                                         ('fwd_fee_remaining', Grams), ('msg', Ref(msg_any)),
                                         ('emitted_lt', Maybe(U(64))), ('metadata', Maybe(ns.MsgMetadata))])])

    env, trans = Ref(ns.MsgEnvelope), Ref(ns.Transaction)
    # msg_import_ext$000 msg:^(Message Any) transaction:^Transaction = InMsg;
    # msg_import_ihr$010 msg:^(Message Any) transaction:^Transaction ihr_fee:Grams proof_created:^Cell = InMsg;
    # msg_import_imm$011 in_msg:^MsgEnvelope transaction:^Transaction fwd_fee:Grams = InMsg;
    # msg_import_fin$100 in_msg:^MsgEnvelope transaction:^Transaction fwd_fee:Grams = InMsg;
    # msg_import_tr$101  in_msg:^MsgEnvelope out_msg:^MsgEnvelope transit_fee:Grams = InMsg;
    # msg_discard_fin$110 in_msg:^MsgEnvelope transaction_id:uint64 fwd_fee:Grams = InMsg;
    # msg_discard_tr$111 in_msg:^MsgEnvelope transaction_id:uint64 fwd_fee:Grams proof_delivered:^Cell = InMsg;
    # msg_import_deferred_fin$00100 in_msg:^MsgEnvelope transaction:^Transaction fwd_fee:Grams = InMsg;
    # msg_import_deferred_tr$00101 in_msg:^MsgEnvelope out_msg:^MsgEnvelope = InMsg;
    ns.InMsg = Union('InMsg', [
        Record('msg_import_ext', '$000', [('msg', Ref(msg_any)), ('transaction', trans)]),
        Record('msg_import_ihr', '$010', [('msg', Ref(msg_any)), ('transaction', trans), ('ihr_fee', Grams),
                                          ('proof_created', RefCell)]),
        Record('msg_import_imm', '$011', [('in_msg', env), ('transaction', trans), ('fwd_fee', Grams)]),
        Record('msg_import_fin', '$100', [('in_msg', env), ('transaction', trans), ('fwd_fee', Grams)]),
        Record('msg_import_tr', '$101', [('in_msg', env), ('out_msg', env), ('transit_fee', Grams)]),
        Record('msg_discard_fin', '$110', [('in_msg', env), ('transaction_id', U(64)), ('fwd_fee', Grams)]),
        Record('msg_discard_tr', '$111', [('in_msg', env), ('transaction_id', U(64)), ('fwd_fee', Grams),
                                          ('proof_delivered', RefCell)]),
        Record('msg_import_deferred_fin', '$00100', [('in_msg', env), ('transaction', trans), ('fwd_fee', Grams)]),
        Record('msg_import_deferred_tr', '$00101', [('in_msg', env), ('out_msg', env)])])

    inm = Ref(ns.InMsg)
    # msg_export_ext$000 msg:^(Message Any) transaction:^Transaction = OutMsg;
    # msg_export_imm$010 out_msg:^MsgEnvelope transaction:^Transaction reimport:^InMsg = OutMsg;
    # msg_export_new$001 out_msg:^MsgEnvelope transaction:^Transaction = OutMsg;
    # msg_export_tr$011  out_msg:^MsgEnvelope imported:^InMsg = OutMsg;
    # msg_export_deq$1100 out_msg:^MsgEnvelope import_block_lt:uint63 = OutMsg;
    # msg_export_deq_short$1101 msg_env_hash:bits256 next_workchain:int32 next_addr_pfx:uint64 import_block_lt:uint64 = OutMsg;
    # msg_export_tr_req$111 out_msg:^MsgEnvelope imported:^InMsg = OutMsg;
    # msg_export_deq_imm$100 out_msg:^MsgEnvelope reimport:^InMsg = OutMsg;
    # msg_export_new_defer$10100 out_msg:^MsgEnvelope transaction:^Transaction = OutMsg;           (upstream, see docstring)
    # msg_export_deferred_tr$10101 out_msg:^MsgEnvelope imported:^InMsg = OutMsg;                  (upstream, see docstring)
    ns.OutMsg = Union('OutMsg', [
        Record('msg_export_ext', '$000', [('msg', Ref(msg_any)), ('transaction', trans)]),
        Record('msg_export_imm', '$010', [('out_msg', env), ('transaction', trans), ('reimport', inm)]),
        Record('msg_export_new', '$001', [('out_msg', env), ('transaction', trans)]),
        Record('msg_export_tr', '$011', [('out_msg', env), ('imported', inm)]),
        Record('msg_export_deq', '$1100', [('out_msg', env), ('import_block_lt', U(63))]),
        Record('msg_export_deq_short', '$1101', [('msg_env_hash', Bytes(32)), ('next_workchain', I(32)),
                                                 ('next_addr_pfx', U(64)), ('import_block_lt', U(64))]),
        Record('msg_export_tr_req', '$111', [('out_msg', env), ('imported', inm)]),
        Record('msg_export_deq_imm', '$100', [('out_msg', env), ('reimport', inm)]),
        Record('msg_export_new_defer', '$10100', [('out_msg', env), ('transaction', trans)]),
        Record('msg_export_deferred_tr', '$10101', [('out_msg', env), ('imported', inm)])])
    return ns


X = tables()                       # the unrestricted schema
TransactionDescr, Transaction = X.TransactionDescr, X.Transaction
AccountState, AccountStorage, Account, ShardAccount, AccountBlock = (X.AccountState, X.AccountStorage, X.Account,
                                                                     X.ShardAccount, X.AccountBlock)
MsgMetadata, MsgEnvelope, InMsg, OutMsg = X.MsgMetadata, X.MsgEnvelope, X.InMsg, X.OutMsg


# ----------------------------------------------------------------------------------------------------------------------
def self_check():
    """hand-assembled encodings (derived from block.tlb / the docstrings by hand, NOT by running the encoder)"""
    def rt(t, v, bits, nrefs=0):
        c = to_cell(t, v)
        assert c.bits == bits, f'{t.name}: encoded\n {c.bits}\nexpected\n {bits}'
        assert len(c.refs) == nrefs, f'{t.name}: {len(c.refs)} refs, expected {nrefs}'
        back = from_cell(t, c)
        assert diff(back, v) is None, f'{t.name}: decode differs at {diff(back, v)}'
        return c

    one_ton = '0100' + '00111011' + '10011010' + '11001010' + '00000000'            # Grams 10^9 = 0x3B9ACA00, 4 bytes
    cc0 = {'_': 'currencies', 'grams': 0, 'other': {'_': 'extra_currencies', 'dict': []}}
    s_cc0 = '0000' + '0'
    h00, hff, hab = '00' * 32, 'ff' * 32, 'ab' * 32
    b00, bff, bab = '0' * 256, '1' * 256, '10101011' * 32
    u = lambda x, n: format(x, f'0{n}b')

    # enumerations
    for t, names, tags in ((AccStatusChange, ('acst_unchanged', 'acst_frozen', 'acst_deleted'), ('0', '10', '11')),
                           (ComputeSkipReason, ('cskip_no_state', 'cskip_bad_state', 'cskip_no_gas', 'cskip_suspended'),
                            ('00', '01', '10', '110')),
                           (AccountStatus, ('acc_state_uninit', 'acc_state_frozen', 'acc_state_active', 'acc_state_nonexist'),
                            ('00', '01', '10', '11'))):
        for n, s in zip(names, tags):
            rt(t, {'_': n}, s)
    # IntermediateAddress: #<= 96 is 7 bits
    rt(IntermediateAddress, {'_': 'interm_addr_regular', 'use_dest_bits': 96}, '0' + '1100000')
    ia_simple = {'_': 'interm_addr_simple', 'workchain_id': -1, 'addr_pfx': 1 << 63}
    s_ia_simple = '10' + '11111111' + '1' + '0' * 63
    rt(IntermediateAddress, ia_simple, s_ia_simple)
    ia_ext = {'_': 'interm_addr_ext', 'workchain_id': -2, 'addr_pfx': 1}
    s_ia_ext = '11' + '1' * 31 + '0' + '0' * 63 + '1'
    rt(IntermediateAddress, ia_ext, s_ia_ext)
    # StorageUsed(Short): VarUInteger 7 = 3-bit byte count + value
    sus = {'_': 'storage_used_short', 'cells': 1, 'bits': 256}
    s_sus = '001' + '00000001' + '010' + '00000001' + '00000000'
    rt(StorageUsedShort, sus, s_sus)
    su = {'_': 'storage_used', 'cells': 1, 'bits': 255, 'public_cells': 0}
    s_su = '001' + '00000001' + '001' + '11111111' + '000'
    rt(StorageUsed, su, s_su)
    si = {'_': 'storage_info', 'used': su, 'last_paid': 1 << 31, 'due_payment': 10 ** 9}
    s_si = s_su + '1' + '0' * 31 + '1' + one_ton
    rt(StorageInfo, si, s_si)
    rt(StorageInfo, dict(si, due_payment=None), s_su + '1' + '0' * 31 + '0')
    # storage phase: Grams, Maybe Grams, status
    sp = {'_': 'tr_phase_storage', 'storage_fees_collected': 0, 'storage_fees_due': 1, 'status_change': {'_': 'acst_deleted'}}
    s_sp = '0000' + '1' + '0001' + '00000001' + '11'
    rt(TrStoragePhase, sp, s_sp)
    sp2 = {'_': 'tr_phase_storage', 'storage_fees_collected': 10 ** 9, 'storage_fees_due': None,
           'status_change': {'_': 'acst_unchanged'}}
    s_sp2 = one_ton + '0' + '0'
    rt(TrStoragePhase, sp2, s_sp2)
    # credit phase
    cp = {'_': 'tr_phase_credit', 'due_fees_collected': 255, 'credit': cc0}
    s_cp = '1' + '0001' + '11111111' + s_cc0
    rt(TrCreditPhase, cp, s_cp)
    rt(TrCreditPhase, dict(cp, due_fees_collected=None), '0' + s_cc0)
    # compute phase: skipped = '0' + reason; vm = '1' + 3 Bool + Grams, the rest in a reference
    sk = {'_': 'tr_phase_compute_skipped', 'reason': {'_': 'cskip_suspended'}}
    rt(TrComputePhase, sk, '0' + '110')
    vm = {'_': 'tr_phase_compute_vm', 'success': True, 'msg_state_used': False, 'account_activated': True, 'gas_fees': 10 ** 9,
          'gas_used': 255, 'gas_limit': 65536, 'gas_credit': 256, 'mode': -1, 'exit_code': -2, 'exit_arg': None,
          'vm_steps': 1 << 31, 'vm_init_state_hash': h00, 'vm_final_state_hash': hff}
    s_vm = '1' + '1' + '0' + '1' + one_ton
    c = rt(TrComputePhase, vm, s_vm, 1)
    # gas_used 255: 1 byte; gas_limit 65536 = 0x010000: 3 bytes; gas_credit: Maybe bit, VarUInteger 3 has a 2-bit length
    s_vm_ref = ('001' + '11111111' + '011' + '00000001' + '00000000' + '00000000' + '1' + '10' + '00000001' + '00000000'
                + '11111111' + '1' * 31 + '0' + '0' + '1' + '0' * 31 + b00 + bff)
    assert c.refs[0].bits == s_vm_ref and not c.refs[0].refs
    vm2 = dict(vm, gas_credit=None, exit_arg=-1, success=False)
    c = rt(TrComputePhase, vm2, '1' + '0' + '0' + '1' + one_ton, 1)
    assert c.refs[0].bits == ('001' + '11111111' + '011' + '00000001' + '00000000' + '00000000' + '0' + '11111111'
                              + '1' * 31 + '0' + '1' + '1' * 32 + '1' + '0' * 31 + b00 + bff)
    # action phase
    ap = {'_': 'tr_phase_action', 'success': True, 'valid': True, 'no_funds': False, 'status_change': {'_': 'acst_frozen'},
          'total_fwd_fees': None, 'total_action_fees': 255, 'result_code': -1, 'result_arg': 5, 'tot_actions': 1,
          'spec_actions': 2, 'skipped_actions': 3, 'msgs_created': 65535, 'action_list_hash': hab, 'tot_msg_size': sus}
    s_ap = ('1' + '1' + '0' + '10' + '0' + '1' + '0001' + '11111111' + '1' * 32 + '1' + u(5, 32) + u(1, 16) + u(2, 16)
            + u(3, 16) + '1' * 16 + bab + s_sus)
    rt(TrActionPhase, ap, s_ap)
    # bounce phase
    rt(TrBouncePhase, {'_': 'tr_phase_bounce_negfunds'}, '00')
    rt(TrBouncePhase, {'_': 'tr_phase_bounce_nofunds', 'msg_size': sus, 'req_fwd_fees': 10 ** 9}, '01' + s_sus + one_ton)
    bo = {'_': 'tr_phase_bounce_ok', 'msg_size': sus, 'msg_fees': 0, 'fwd_fees': 1}
    s_bo = '1' + s_sus + '0000' + '0001' + '00000001'
    rt(TrBouncePhase, bo, s_bo)
    # split/merge info: two 6-bit numbers, two hashes
    smi = {'_': 'split_merge_info', 'cur_shard_pfx_len': 60, 'acc_split_depth': 1, 'this_addr': hab, 'sibling_addr': hff}
    s_smi = '111100' + '000001' + bab + bff
    rt(SplitMergeInfo, smi, s_smi)
    # descriptions
    d_ord = {'_': 'trans_ord', 'credit_first': True, 'storage_ph': sp, 'credit_ph': None, 'compute_ph': sk, 'action': ap,
             'aborted': False, 'bounce': {'_': 'tr_phase_bounce_negfunds'}, 'destroyed': True}
    s_ord = '0000' + '1' + '1' + s_sp + '0' + '0110' + '1' + '0' + '1' + '00' + '1'
    c = rt(TransactionDescr, d_ord, s_ord, 1)
    assert c.refs[0].bits == s_ap
    d_ord2 = {'_': 'trans_ord', 'credit_first': False, 'storage_ph': None, 'credit_ph': cp, 'compute_ph': vm, 'action': None,
              'aborted': True, 'bounce': bo, 'destroyed': False}
    c = rt(TransactionDescr, d_ord2, '0000' + '0' + '0' + '1' + s_cp + s_vm + '0' + '1' + '1' + s_bo + '0', 1)
    assert c.refs[0].bits == s_vm_ref
    rt(TransactionDescr, {'_': 'trans_storage', 'storage_ph': sp2}, '0001' + s_sp2)
    d_tt = {'_': 'trans_tick_tock', 'is_tock': True, 'storage_ph': sp, 'compute_ph': sk, 'action': None, 'aborted': True,
            'destroyed': False}
    s_tt = '001' + '1' + s_sp + '0110' + '0' + '1' + '0'
    rt(TransactionDescr, d_tt, s_tt)
    rt(TransactionDescr, {'_': 'trans_split_prepare', 'split_info': smi, 'storage_ph': None, 'compute_ph': sk, 'action': None,
                          'aborted': False, 'destroyed': True}, '0100' + s_smi + '0' + '0110' + '0' + '0' + '1')
    rt(TransactionDescr, {'_': 'trans_merge_prepare', 'split_info': smi, 'storage_ph': sp, 'aborted': True},
       '0110' + s_smi + s_sp + '1')
    # transaction: 4 + 256 + 64 + 256 + 64 + 32 + 15 + 2 + 2 bits, then total_fees; references: ^[in_msg out_msgs],
    # state_update, description (in this order)
    hu = {'_': 'update_hashes', 'old_hash': h00, 'new_hash': hff}
    s_hu = '01110010' + b00 + bff
    tr = {'_': 'transaction', 'account_addr': hab, 'lt': 1 << 63, 'prev_trans_hash': hff, 'prev_trans_lt': (1 << 64) - 1,
          'now': 1 << 31, 'outmsg_cnt': 32767, 'orig_status': {'_': 'acc_state_active'}, 'end_status': {'_': 'acc_state_nonexist'},
          'in_msg': None, 'out_msgs': [], 'total_fees': cc0, 'state_update': hu, 'description': d_tt}
    s_tr = '0111' + bab + '1' + '0' * 63 + bff + '1' * 64 + '1' + '0' * 31 + '1' * 15 + '10' + '11' + s_cc0
    c = rt(Transaction, tr, s_tr, 3)
    assert c.refs[0].bits == '00' and not c.refs[0].refs and c.refs[1].bits == s_hu and c.refs[2].bits == s_tt
    ext_in = {'_': 'ext_in_msg_info', 'src': {'_': 'addr_none'},
              'dest': {'_': 'addr_std', 'anycast': None, 'workchain_id': 0, 'address': h00}, 'import_fee': 0}
    s_std0 = '10' + '0' + '00000000' + b00
    s_ext_in = '10' + '00' + s_std0 + '0000'
    msg = {'_': 'message', 'info': ext_in, 'init': None, 'body': {'either': 'left', 'v': {'bits': '101', 'refs': [], 'special': False}}}
    s_msg = s_ext_in + '0' + '0' + '101'
    # in_msg present, one out message under key 1 (15-bit key '0'*14+'1': hml_long$10, 4-bit length 1111, label), the
    # dictionary value is a reference; extra currencies in total_fees add a 4th reference BETWEEN ^[..] and state_update
    tr2 = dict(tr, in_msg=msg, out_msgs=[[1, msg]],
               total_fees={'_': 'currencies', 'grams': 10 ** 9, 'other': {'_': 'extra_currencies', 'dict': [[7, 1]]}})
    c = rt(Transaction, tr2, s_tr[:-5] + one_ton + '1', 4)
    assert c.refs[0].bits == '1' + '1' and len(c.refs[0].refs) == 2 and c.refs[0].refs[0].bits == s_msg
    assert c.refs[0].refs[1].bits == '10' + '1111' + '0' * 14 + '1' and c.refs[0].refs[1].refs[0].bits == s_msg
    assert c.refs[1].bits == '10' + '100000' + '0' * 29 + '111' + '00001' + '00000001'       # the extra-currency dictionary
    assert c.refs[2].bits == s_hu and c.refs[3].bits == s_tt
    # nested prepare_transaction
    c = rt(TransactionDescr, {'_': 'trans_split_install', 'split_info': smi, 'prepare_transaction': tr, 'installed': True},
           '0101' + s_smi + '1', 1)
    assert c.refs[0].bits == s_tr and len(c.refs[0].refs) == 3
    c = rt(TransactionDescr, {'_': 'trans_merge_install', 'split_info': smi, 'prepare_transaction': tr, 'storage_ph': None,
                              'credit_ph': cp, 'compute_ph': sk, 'action': ap, 'aborted': False, 'destroyed': True},
           '0111' + s_smi + '0' + '1' + s_cp + '0110' + '1' + '0' + '1', 2)
    assert c.refs[0].bits == s_tr and c.refs[1].bits == s_ap
    # accounts
    rt(Account, {'_': 'account_none'}, '0')
    a_std = {'_': 'addr_std', 'anycast': None, 'workchain_id': -1, 'address': hab}
    s_std = '10' + '0' + '11111111' + bab
    st_frozen = {'_': 'account_storage', 'last_trans_lt': 1 << 63, 'balance': cc0, 'state': {'_': 'account_frozen', 'state_hash': hff}}
    s_st_frozen = '1' + '0' * 63 + s_cc0 + '01' + bff
    rt(AccountStorage, st_frozen, s_st_frozen)
    rt(AccountState, {'_': 'account_uninit'}, '00')
    leaf = {'bits': '1', 'refs': [], 'special': False}
    sinit = {'_': 'StateInit', 'split_depth': None, 'special': None, 'code': leaf, 'data': None, 'library': None}
    rt(AccountState, {'_': 'account_active', 'state_init': sinit}, '1' + '00100', 1)
    acc = {'_': 'account', 'addr': a_std, 'storage_stat': si, 'storage': st_frozen}
    s_acc = '1' + s_std + s_si + s_st_frozen
    rt(Account, acc, s_acc)
    c = rt(ShardAccount, {'_': 'account_descr', 'account': acc, 'last_trans_hash': hab, 'last_trans_lt': (1 << 64) - 2},
           bab + '1' * 63 + '0', 1)
    assert c.refs[0].bits == s_acc
    c = rt(ShardAccount, {'_': 'account_descr', 'account': {'_': 'account_none'}, 'last_trans_hash': h00, 'last_trans_lt': 0},
           b00 + '0' * 64, 1)
    assert c.refs[0].bits == '0'
    # AccountBlock: inline HashmapAug 64. One key 2^63+5: the label is the whole key, hml_long$10 with a 7-bit length
    # (bitlen(64) = 7) '1000000'; ahmn_leaf: extra (CurrencyCollection) THEN value (^Transaction); then state_update
    k1 = (1 << 63) + 5
    ab = {'_': 'acc_trans', 'account_addr': hab, 'transactions': [[k1, {'extra': cc0, 'value': tr}]], 'state_update': hu}
    c = rt(AccountBlock, ab, '0101' + bab + '10' + '1000000' + '1' + '0' * 60 + '101' + s_cc0, 2)
    assert c.refs[0].bits == s_tr and c.refs[1].bits == s_hu
    # two keys 1 and 2^63: empty root label hml_short$0 + unary 0 = '00'; ahmn_fork: left, right references, then extra
    # (the sum 10^9 + 0); left: 63 bits '0'*62+'1', hml_long with 6-bit length 111111; right: 63 zeros, hml_same$11 0 111111
    cc1 = {'_': 'currencies', 'grams': 10 ** 9, 'other': {'_': 'extra_currencies', 'dict': []}}
    ab2 = dict(ab, transactions=[[1, {'extra': cc1, 'value': tr}], [1 << 63, {'extra': cc0, 'value': tr}]])
    c = rt(AccountBlock, ab2, '0101' + bab + '00' + one_ton + '0', 3)
    assert c.refs[0].bits == '10' + '111111' + '0' * 62 + '1' + one_ton + '0' and c.refs[0].refs[0].bits == s_tr
    assert c.refs[1].bits == '11' + '0' + '111111' + s_cc0 and c.refs[1].refs[0].bits == s_tr
    assert c.refs[2].bits == s_hu
    # envelopes: #4 / #5 are 4-bit tags; v2 appends Maybe uint64 and Maybe MsgMetadata (msg_metadata#0: 4-bit tag 0000)
    env = {'_': 'msg_envelope', 'cur_addr': ia_simple, 'next_addr': {'_': 'interm_addr_regular', 'use_dest_bits': 0},
           'fwd_fee_remaining': 10 ** 9, 'msg': msg}
    s_env = '0100' + s_ia_simple + '0' + '0000000' + one_ton
    c = rt(MsgEnvelope, env, s_env, 1)
    assert c.refs[0].bits == s_msg
    md = {'_': 'msg_metadata', 'depth': 1 << 31, 'initiator_addr': a_std, 'initiator_lt': 1 << 63}
    s_md = '0000' + '1' + '0' * 31 + s_std + '1' + '0' * 63
    rt(MsgMetadata, md, s_md)
    env2 = {'_': 'msg_envelope_v2', 'cur_addr': ia_ext, 'next_addr': ia_simple, 'fwd_fee_remaining': 0, 'msg': msg,
            'emitted_lt': 1 << 63, 'metadata': md}
    s_env2 = '0101' + s_ia_ext + s_ia_simple + '0000' + '1' + '1' + '0' * 63 + '1' + s_md
    rt(MsgEnvelope, env2, s_env2, 1)
    rt(MsgEnvelope, dict(env2, emitted_lt=None, metadata=None), '0101' + s_ia_ext + s_ia_simple + '0000' + '0' + '0', 1)
    # InMsg
    c = rt(InMsg, {'_': 'msg_import_ext', 'msg': msg, 'transaction': tr}, '000', 2)
    assert c.refs[0].bits == s_msg and c.refs[1].bits == s_tr
    c = rt(InMsg, {'_': 'msg_import_ihr', 'msg': msg, 'transaction': tr, 'ihr_fee': 10 ** 9, 'proof_created': leaf},
           '010' + one_ton, 3)
    assert c.refs[2].bits == '1'
    for name, tag in (('msg_import_imm', '011'), ('msg_import_fin', '100'), ('msg_import_deferred_fin', '00100')):
        c = rt(InMsg, {'_': name, 'in_msg': env, 'transaction': tr, 'fwd_fee': 255}, tag + '0001' + '11111111', 2)
        assert c.refs[0].bits == s_env and c.refs[1].bits == s_tr
    c = rt(InMsg, {'_': 'msg_import_tr', 'in_msg': env, 'out_msg': env2, 'transit_fee': 0}, '101' + '0000', 2)
    assert c.refs[0].bits == s_env and c.refs[1].bits == s_env2
    rt(InMsg, {'_': 'msg_discard_fin', 'in_msg': env, 'transaction_id': (1 << 63) + 1, 'fwd_fee': 255},
       '110' + '1' + '0' * 62 + '1' + '0001' + '11111111', 1)
    c = rt(InMsg, {'_': 'msg_discard_tr', 'in_msg': env2, 'transaction_id': 3, 'fwd_fee': 0, 'proof_delivered': leaf},
           '111' + '0' * 62 + '11' + '0000', 2)
    assert c.refs[0].bits == s_env2 and c.refs[1].bits == '1'
    rt(InMsg, {'_': 'msg_import_deferred_tr', 'in_msg': env, 'out_msg': env}, '00101', 2)
    # OutMsg
    im = {'_': 'msg_import_deferred_tr', 'in_msg': env, 'out_msg': env}
    rt(OutMsg, {'_': 'msg_export_ext', 'msg': msg, 'transaction': tr}, '000', 2)
    c = rt(OutMsg, {'_': 'msg_export_imm', 'out_msg': env, 'transaction': tr, 'reimport': im}, '010', 3)
    assert c.refs[0].bits == s_env and c.refs[1].bits == s_tr and c.refs[2].bits == '00101'
    rt(OutMsg, {'_': 'msg_export_new', 'out_msg': env, 'transaction': tr}, '001', 2)
    rt(OutMsg, {'_': 'msg_export_new_defer', 'out_msg': env, 'transaction': tr}, '10100', 2)
    for name, tag in (('msg_export_tr', '011'), ('msg_export_tr_req', '111'), ('msg_export_deferred_tr', '10101')):
        c = rt(OutMsg, {'_': name, 'out_msg': env2, 'imported': im}, tag, 2)
        assert c.refs[0].bits == s_env2 and c.refs[1].bits == '00101'
    rt(OutMsg, {'_': 'msg_export_deq_imm', 'out_msg': env, 'reimport': im}, '100', 2)
    # import_block_lt:uint63 - 63 bits
    rt(OutMsg, {'_': 'msg_export_deq', 'out_msg': env, 'import_block_lt': (1 << 62) + 1}, '1100' + '1' + '0' * 61 + '1', 1)
    rt(OutMsg, {'_': 'msg_export_deq_short', 'msg_env_hash': hab, 'next_workchain': -1, 'next_addr_pfx': 1 << 63,
                'import_block_lt': (1 << 64) - 1}, '1101' + bab + '1' * 32 + '1' + '0' * 63 + '1' * 64)
    rt(ImportFees, {'_': 'import_fees', 'fees_collected': 10 ** 9, 'value_imported': cc0}, one_ton + s_cc0)
    # fork extra helper
    assert cc_sum([cc1, cc1])['grams'] == 2 * 10 ** 9
    e1 = {'_': 'currencies', 'grams': (1 << 120) - 1, 'other': {'_': 'extra_currencies', 'dict': [[1, 2], [3, 4]]}}
    e2 = {'_': 'currencies', 'grams': 1, 'other': {'_': 'extra_currencies', 'dict': [[3, 1]]}}
    assert cc_sum([e1, e2]) == {'_': 'currencies', 'grams': (1 << 120) - 1,
                                'other': {'_': 'extra_currencies', 'dict': [[1, 2], [3, 5]]}}
    return True


self_check()
