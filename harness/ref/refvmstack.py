"""Independent decoder for the TVM `VmStack` TL-B schema (block.tlb). No library code.

Input is a *cell tree*: a pair `(bits, refs)` with `bits` a '0'/'1' string and `refs` a list of cell trees.
`to_tree(cell)` makes one from any object exposing `.bits.to01()` and `.refs` (ordinary cells only).

Schema implemented (block.tlb):

    vm_stack#_ depth:(## 24) stack:(VmStackList depth) = VmStack;
    vm_stk_cons#_ {n:#} rest:^(VmStackList n) tos:VmStackValue = VmStackList (n + 1);
    vm_stk_nil#_ = VmStackList 0;
    vm_stk_null#00 | vm_stk_tinyint#01 value:int64 | vm_stk_int#0201_ value:int257 | vm_stk_nan#02ff
    vm_stk_cell#03 cell:^Cell | vm_stk_slice#04 _:VmCellSlice | vm_stk_builder#05 cell:^Cell
    vm_stk_cont#06 cont:VmCont | vm_stk_tuple#07 len:(## 16) data:(VmTuple len)
    _ cell:^Cell st_bits:(## 10) end_bits:(## 10) { st_bits <= end_bits }
      st_ref:(#<= 4) end_ref:(#<= 4) { st_ref <= end_ref } = VmCellSlice;
    vm_tupref_nil$_ = VmTupleRef 0; vm_tupref_single$_ entry:^VmStackValue = VmTupleRef 1;
    vm_tupref_any$_ {n:#} ref:^(VmTuple (n + 2)) = VmTupleRef (n + 2);
    vm_tuple_nil$_ = VmTuple 0; vm_tuple_tcons$_ {n:#} head:(VmTupleRef n) tail:^VmStackValue = VmTuple (n + 1);
    vm_ctl_data$_ nargs:(Maybe uint13) stack:(Maybe VmStack) save:VmSaveList cp:(Maybe int16) = VmControlData;
    _ cregs:(HashmapE 4 VmStackValue) = VmSaveList;
    vmc_std$00 cdata code:VmCellSlice | vmc_envelope$01 cdata next:^VmCont | vmc_quit$1000 exit_code:int32
    vmc_quit_exc$1001 | vmc_repeat$10100 count:uint63 body:^ after:^ | vmc_until$110000 body:^ after:^
    vmc_again$110001 body:^ | vmc_while_cond$110010 cond:^ body:^ after:^ | vmc_while_body$110011 (same)
    vmc_pushint$1111 value:int32 next:^VmCont
    hm_edge#_ {n:#} {X:Type} {l:#} {m:#} label:(HmLabel ~l n) {n = (~m) + l} node:(HashmapNode m X)
    hmn_leaf#_ value:X = HashmapNode 0 X; hmn_fork#_ left:^(Hashmap n X) right:^(Hashmap n X) = HashmapNode (n+1) X
    hml_short$0 len:(Unary ~n) s:(n * Bit) | hml_long$10 n:(#<= m) s:(n * Bit) | hml_same$11 v:Bit n:(#<= m)

Every referenced cell that holds a complete object (^VmStackValue, ^(VmStackList n), ^(VmTuple n), ^VmCont, a
dictionary fork or leaf) must be consumed exactly: left-over bits or references are a schema violation.

Decoded normal form (plain tuples/lists):
    ('null',)  ('nan',)  ('int', value, 'tiny'|'big')  ('cell', tree)  ('slice', bits, [trees])
    ('builder', bits, [trees])  ('tuple', [values])  ('cont', kind, {field: value | int | cdata-dict})
    cdata-dict = {'nargs': int|None, 'stack': [values]|None, 'save': {key: value}, 'cp': int|None}
"""


class DecodeError(Exception):
    def __init__(self, what, where=''):
        super().__init__(f'{what} at {where}')
        self.what = what
        self.where = where


def to_tree(cell):
    """cell tree of an object with .bits (bitarray) and .refs; iterative-safe for the depths used here"""
    return (cell.bits.to01(), [to_tree(r) for r in cell.refs])


class Cur:
    __slots__ = ('b', 'r', 'i', 'j', 'where')

    def __init__(self, tree, where):
        self.b, self.r = tree
        self.i = 0
        self.j = 0
        self.where = where

    def peek(self, n):
        return self.b[self.i:self.i + n]

    def bits(self, n):
        if self.i + n > len(self.b):
            raise DecodeError('bits-underflow', self.where)
        s = self.b[self.i:self.i + n]
        self.i += n
        return s

    def uint(self, n):
        return int(self.bits(n), 2) if n else 0

    def int(self, n):
        s = self.bits(n)
        v = int(s, 2)
        return v - (1 << n) if s[0] == '1' else v

    def ref(self):
        if self.j >= len(self.r):
            raise DecodeError('refs-underflow', self.where)
        self.j += 1
        return self.r[self.j - 1]

    def end(self):
        if self.i != len(self.b) or self.j != len(self.r):
            raise DecodeError('trailing-data',
                              f'{self.where} ({len(self.b) - self.i} bits, {len(self.r) - self.j} refs left)')


def decode_stack(tree):
    c = Cur(tree, 'VmStack')
    vals = stack_inline(c, 'stack')
    c.end()
    return vals


def stack_inline(c, where):
    depth = c.uint(24)
    return stack_list(c, depth, where)


def stack_list(c, n, where):
    """VmStackList n, inline in cursor c (iterative: depth may be large). Returns bottom..top."""
    out = []
    cur = c
    k = n
    while k > 0:
        rest = cur.ref()
        out.append(value(cur, f'{where}[{k - 1}]'))
        if cur is not c:
            cur.end()
        k -= 1
        cur = Cur(rest, f'{where}.rest{k}')
    if cur is not c:
        cur.end()  # VmStackList 0 in its own cell: empty
    out.reverse()
    return out


def value(c, where):
    tag = c.peek(8)
    if len(tag) < 8:
        raise DecodeError('value-tag-underflow', where)
    t = int(tag, 2)
    if t == 0:
        c.bits(8)
        return ('null',)
    if t == 1:
        c.bits(8)
        return ('int', c.int(64), 'tiny')
    if t == 2:
        if c.peek(15) == '000000100000000':
            c.bits(15)
            return ('int', c.int(257), 'big')
        if c.peek(16) == '0000001011111111':
            c.bits(16)
            return ('nan',)
        raise DecodeError('bad-tag-02xx', where)
    if t == 3:
        c.bits(8)
        return ('cell', c.ref())
    if t == 4:
        c.bits(8)
        return cellslice(c, where)
    if t == 5:
        c.bits(8)
        b, r = c.ref()
        return ('builder', b, list(r))
    if t == 6:
        c.bits(8)
        return cont(c, where + '.cont')
    if t == 7:
        c.bits(8)
        n = c.uint(16)
        return ('tuple', vmtuple(c, n, where + '.tuple'))
    raise DecodeError(f'bad-value-tag-{t:02x}', where)


def value_cell(tree, where):
    c = Cur(tree, where)
    v = value(c, where)
    c.end()
    return v


def cellslice(c, where):
    b, r = c.ref()
    st_bits = c.uint(10)
    end_bits = c.uint(10)
    st_ref = c.uint(3)
    end_ref = c.uint(3)
    if not (st_bits <= end_bits <= len(b)):
        raise DecodeError('cellslice-bit-bounds', f'{where} st={st_bits} end={end_bits} cell={len(b)}')
    if not (st_ref <= end_ref <= 4 and end_ref <= len(r)):
        raise DecodeError('cellslice-ref-bounds', f'{where} st={st_ref} end={end_ref} cell={len(r)}')
    return ('slice', b[st_bits:end_bits], list(r[st_ref:end_ref]))


def vmtuple(c, n, where):
    if n == 0:
        return []
    head = tupref(c, n - 1, where)
    tail = value_cell(c.ref(), f'{where}[{n - 1}]')
    return head + [tail]


def tupref(c, n, where):
    if n == 0:
        return []
    if n == 1:
        return [value_cell(c.ref(), f'{where}[0]')]
    c2 = Cur(c.ref(), f'{where}.head{n}')
    t = vmtuple(c2, n, where)
    c2.end()
    return t


def cont_cell(tree, where):
    c = Cur(tree, where)
    v = cont(c, where)
    c.end()
    return v


def cont(c, where):
    p = c.peek(6)
    if p[:2] == '00':
        c.bits(2)
        cd = cdata(c, where + '.cdata')
        code = cellslice(c, where + '.code')
        return ('cont', 'std', {'cdata': cd, 'code': code})
    if p[:2] == '01':
        c.bits(2)
        cd = cdata(c, where + '.cdata')
        return ('cont', 'envelope', {'cdata': cd, 'next': cont_cell(c.ref(), where + '.next')})
    if p[:4] == '1000':
        c.bits(4)
        return ('cont', 'quit', {'exit_code': c.int(32)})
    if p[:4] == '1001':
        c.bits(4)
        return ('cont', 'quit_exc', {})
    if p[:5] == '10100':
        c.bits(5)
        count = c.uint(63)
        return ('cont', 'repeat', {'count': count, 'body': cont_cell(c.ref(), where + '.body'),
                                   'after': cont_cell(c.ref(), where + '.after')})
    if p == '110000':
        c.bits(6)
        return ('cont', 'until', {'body': cont_cell(c.ref(), where + '.body'),
                                  'after': cont_cell(c.ref(), where + '.after')})
    if p == '110001':
        c.bits(6)
        return ('cont', 'again', {'body': cont_cell(c.ref(), where + '.body')})
    if p in ('110010', '110011'):
        c.bits(6)
        return ('cont', 'while_cond' if p == '110010' else 'while_body',
                {'cond': cont_cell(c.ref(), where + '.cond'), 'body': cont_cell(c.ref(), where + '.body'),
                 'after': cont_cell(c.ref(), where + '.after')})
    if p[:4] == '1111':
        c.bits(4)
        v = c.int(32)
        return ('cont', 'pushint', {'value': v, 'next': cont_cell(c.ref(), where + '.next')})
    raise DecodeError('bad-cont-tag', f'{where} {p}')


def cdata(c, where):
    nargs = c.uint(13) if c.uint(1) else None
    stack = stack_inline(c, where + '.stack') if c.uint(1) else None
    save = hashmap_e(c, 4, where + '.save')
    cp = c.int(16) if c.uint(1) else None
    return {'nargs': nargs, 'stack': stack, 'save': save, 'cp': cp}


def hashmap_e(c, n, where):
    if not c.uint(1):
        return {}
    out = {}
    _edge(Cur(c.ref(), where + '.root'), n, '', out, where)
    return out


def _edge(cur, n, prefix, out, where):
    # label:(HmLabel ~l n)
    if cur.uint(1) == 0:                      # hml_short$0 len:(Unary ~n) s:(n * Bit)
        ln = 0
        while cur.uint(1):
            ln += 1
        lab = cur.bits(ln)
    elif cur.uint(1) == 0:                    # hml_long$10 n:(#<= m) s:(n * Bit)
        ln = cur.uint(n.bit_length())
        lab = cur.bits(ln)
    else:                                     # hml_same$11 v:Bit n:(#<= m)
        v = cur.bits(1)
        ln = cur.uint(n.bit_length())
        lab = v * ln
    if ln > n:
        raise DecodeError('hashmap-label-too-long', f'{where} key={prefix}')
    m = n - ln
    key = prefix + lab
    if m == 0:
        k = int(key, 2) if key else 0
        if k in out:
            raise DecodeError('hashmap-duplicate-key', where)
        out[k] = value(cur, f'{where}[{k}]')
        cur.end()
        return
    left = cur.ref()
    right = cur.ref()
    cur.end()
    _edge(Cur(left, where), m - 1, key + '0', out, where)
    _edge(Cur(right, where), m - 1, key + '1', out, where)


# --------------------------------------------------------------------------------------------------
# self-check on hand-assembled encodings (bit strings written out by hand from the schema above)

def _u(v, n):
    return format(v & ((1 << n) - 1), f'0{n}b')


def _selftest():
    E = ('', [])
    # depth 0
    assert decode_stack((_u(0, 24), [])) == []
    # [null]
    assert decode_stack((_u(1, 24) + '00000000', [E])) == [('null',)]
    # [7, -2^63 (tiny), 2^256-1 (big)]  — bottom first; top of stack lives in the outer cell
    c1 = ('00000001' + _u(7, 64), [E])
    c2 = ('00000001' + _u(-2 ** 63, 64), [c1])
    top = (_u(3, 24) + '000000100000000' + _u(2 ** 256 - 1, 257), [c2])
    assert decode_stack(top) == [('int', 7, 'tiny'), ('int', -2 ** 63, 'tiny'), ('int', 2 ** 256 - 1, 'big')]
    # tuple (1, 2, 3): VmTuple 3 = head:(VmTupleRef 2 = ^(VmTuple 2 = ^1 ^2)) tail:^3
    i = lambda v: ('00000001' + _u(v, 64), [])
    t2 = ('', [i(1), i(2)])
    tup = (_u(1, 24) + '00000111' + _u(3, 16), [E, t2, i(3)])
    assert decode_stack(tup) == [('tuple', [('int', 1, 'tiny'), ('int', 2, 'tiny'), ('int', 3, 'tiny')])]
    # tuple of length 1 and 0
    assert decode_stack((_u(1, 24) + '00000111' + _u(1, 16), [E, i(9)])) == [('tuple', [('int', 9, 'tiny')])]
    assert decode_stack((_u(1, 24) + '00000111' + _u(0, 16), [E])) == [('tuple', [])]
    # slice: cell '110101' with one ref, window bits 2..5, refs 0..1
    inner = ('110101', [E])
    sl = (_u(1, 24) + '00000100' + _u(2, 10) + _u(5, 10) + _u(0, 3) + _u(1, 3), [E, inner])
    assert decode_stack(sl) == [('slice', '010', [E])]
    # continuation quit(-5) with envelope around it: cdata nargs=just 0, no stack, save {3: null}, cp=just -1
    q = ('1000' + _u(-5, 32), [])
    leaf = ('10' + '100' + '0011' + '00000000', [])           # hml_long, len=4 (3 bits), key 0011, value null
    env = (_u(1, 24) + '00000110' + '01' + '1' + _u(0, 13) + '0' + '1' + '1' + _u(-1, 16), [E, leaf, q])
    got = decode_stack(env)
    assert got == [('cont', 'envelope', {'cdata': {'nargs': 0, 'stack': None, 'save': {3: ('null',)}, 'cp': -1},
                                         'next': ('cont', 'quit', {'exit_code': -5})})], got
    # dictionary with a fork: keys 0 (0000) and 8 (1000): root label empty (hml_short len 0 = '00'), two leaves
    l0 = ('0' + '1110' + '000' + '00000000', [])               # hml_short len 3 '000', null
    l1 = ('11' + '0' + '11' + '00000001' + _u(4, 64), [])      # hml_same v=0 len=3 (n=3 -> 2 bits), tinyint 4
    root = ('00', [l0, l1])
    std_code = ('1111', [])
    std = (_u(1, 24) + '00000110' + '00' + '0' + '0' + '1' + '0' + _u(0, 10) + _u(4, 10) + '000' + '000',
           [E, root, std_code])
    got = decode_stack(std)
    assert got == [('cont', 'std', {'cdata': {'nargs': None, 'stack': None,
                                              'save': {0: ('null',), 8: ('int', 4, 'tiny')}, 'cp': None},
                                    'code': ('slice', '1111', [])})], got
    # trailing data is rejected
    for bad in ((_u(0, 24) + '0', []), (_u(0, 24), [E]), (_u(1, 24) + '00000000', [('0', [])])):
        try:
            decode_stack(bad)
        except DecodeError:
            continue
        raise AssertionError('trailing data accepted')


_selftest()
