"""TEP-2 user-friendly / raw address renderer. Independent of the library."""
import base64
from .refcrc import crc16_xmodem


def friendly(wc: int, account: bytes, bounceable=True, test_only=False, url_safe=True) -> str:
    tag = 0x11 if bounceable else 0x51
    if test_only:
        tag |= 0x80
    body = bytes([tag, wc & 0xFF]) + account
    body += crc16_xmodem(body).to_bytes(2, 'big')
    s = base64.b64encode(body).decode()
    if url_safe:
        s = s.replace('+', '-').replace('/', '_')
    return s


def raw(wc: int, account: bytes) -> str:
    return f'{wc}:{account.hex()}'
