"""
TL-B tables (for harness/ref/reftlb.py) of the block-level types: block header, value flow, shard descriptors, validator
sets, catchain config, masterchain extras, shard state, block. Imports nothing from the library under test.

Where each layout comes from: pytoniq_core/tlb/schemas/block.tlb (= ton/crypto/block/block.tlb), transcribed constructor
by constructor; the declaration is quoted above each Record. Where a library class quotes a schema in its docstring the
two were compared: they agree for every type below (McBlockExtra's docstring merely drops the final `= McBlockExtra;`).
  * `block_extra` has no explicit tag in block.tlb: TL-B then assigns the CRC-32 of the constructor text with the
    parentheses removed - 0x4a33f6fd - which self_check() recomputes with zlib.
  * `!merkle_update#02 {X:Type} old_hash:bits256 new_hash:bits256 old:^X new:^X = MERKLE_UPDATE X` is an exotic cell:
    its physical layout is fixed by the cell format (type byte 4, two level-0 hashes, two depths, two references -
    refcell.merkle_update), not by the `#02` of block.tlb. MerkleUpdateRef(X) models `^(MERKLE_UPDATE X)`.
  * Types of the other half of C16 (InMsg, OutMsg, AccountBlock, Account, OutMsgQueueInfo) are NOT modelled here:
    `^InMsg` / `^OutMsgQueueInfo` references are opaque cells (bit-compatible: one reference), dictionaries over
    InMsg / OutMsg / AccountBlock take their value type as a parameter (default: the opaque leaf remainder, and only the
    empty dictionary is generated), ShardAccount takes the Account type as a parameter (default: account_none$0 only).

Anonymous constructors (`_ key:Bool ... = KeyMaxLt`) are given the type's name as their constructor name.
CTORS maps every constructor name to (TL-B type name, constructor label such as 'validators#11'): used by the check to
name a failure after the innermost type that holds the differing field.

Generation-only variants (*Gen: ShardDescrGen, ShardHashesGen, McStateExtraGen, ...) have the SAME encoding as the canonical
type; they only keep the two inline amounts of the old shard_descr#b small enough for the value to fit its cell.
*_pruned / exotic_ok variants accept pruned branches (decoding the Merkle update of the real block).

Helpers on top of reftlb's public API
  variant(record, field=type, ...)   the same constructor with some field types replaced (Const(...), one alternative of a
                                     Union, Present(T) / Absent(T) for a Maybe) - to ENUMERATE flag / optional combinations
  Present(T) / Absent(T)             Maybe T whose generator always / never produces the value (same encoding as Maybe T)
  MerkleUpdateRef(X)                 ^(MERKLE_UPDATE X)
"""
import zlib

from . import refcell
from .reftlb import (T, Record, Union, U, I, Bool, Bytes, Maybe, Ref, RefCell, AnyRest, HashmapE, Hashmap, HashmapAugE,
                     ULe, Range, Const, Cond, Grams, VarU, BinTree as _BinTree, Bld, Rd, Ctx, Trk, ModelError, DecodeError,
                     to_cell, from_cell, diff, _res, cell_to_plain, plain_to_cell)
from .tlb_msg import CurrencyCollection, ExtraCurrencyCollection

M32 = (1 << 32) - 1
CTORS = {'currencies': ('CurrencyCollection', 'currencies'), 'extra_currencies': ('ExtraCurrencyCollection', 'extra_currencies')}


def rec(type_name, name, tag, fields, check=None):
    """a Record registered in CTORS"""
    r = Record(name, tag, fields, check)
    CTORS[name] = (type_name, name + (tag if tag not in ('', '$_', '#_', '_') else ''))
    return r


def variant(r, **over):
    """the constructor `r` with the types of the named fields replaced (fields inside ^[ ... ] groups included)"""
    used = set()

    def rebuild(x):
        fields = []
        for fn, ft in x.fields:
            if fn is None:
                inner, depth = ft, 0
                while isinstance(inner, Ref):
                    inner, depth = inner.t, depth + 1
                inner = rebuild(inner)
                for _ in range(depth):
                    inner = Ref(inner)
                fields.append((None, inner))
            elif fn in over:
                used.add(fn)
                fields.append((fn, over[fn]))
            else:
                fields.append((fn, ft))
        out = Record(x.name, '', fields, x.check)
        out.tag = x.tag
        return out
    out = rebuild(r)
    if used != set(over):
        raise KeyError(f'{r.name}: no field(s) {sorted(set(over) - used)}')
    return out


class Present(Maybe):
    """Maybe T, generated present"""

    def gen(self, ch, budget, ctx):
        if ctx.trk is not None:
            ctx.trk.put('1')
        return _res(self.t, ctx).gen(ch, budget, ctx)


class Absent(Maybe):
    """Maybe T, generated absent"""

    def gen(self, ch, budget, ctx):
        if ctx.trk is not None:
            ctx.trk.put('0')
        return None


# ---- block header ---------------------------------------------------------------------------------------------------

# shard_ident$00 shard_pfx_bits:(#<= 60) workchain_id:int32 shard_prefix:uint64 = ShardIdent;
ShardIdent = rec('ShardIdent', 'shard_ident', '$00', [('shard_pfx_bits', ULe(60)), ('workchain_id', I(32)),
                                                      ('shard_prefix', U(64))])

# ext_blk_ref$_ end_lt:uint64 seq_no:uint32 root_hash:bits256 file_hash:bits256 = ExtBlkRef;
ExtBlkRef = rec('ExtBlkRef', 'ext_blk_ref', '$_', [('end_lt', U(64)), ('seq_no', U(32)), ('root_hash', Bytes(32)),
                                                   ('file_hash', Bytes(32))])

# master_info$_ master:ExtBlkRef = BlkMasterInfo;
BlkMasterInfo = rec('BlkMasterInfo', 'master_info', '$_', [('master', ExtBlkRef)])

# prev_blk_info$_ prev:ExtBlkRef = BlkPrevInfo 0;
# prev_blks_info$_ prev1:^ExtBlkRef prev2:^ExtBlkRef = BlkPrevInfo 1;
prev_blk_info = rec('BlkPrevInfo', 'prev_blk_info', '$_', [('prev', ExtBlkRef)])
prev_blks_info = rec('BlkPrevInfo', 'prev_blks_info', '$_', [('prev1', Ref(ExtBlkRef)), ('prev2', Ref(ExtBlkRef))])


def BlkPrevInfo(after_merge):
    return prev_blks_info if after_merge else prev_blk_info


# capabilities#c4 version:uint32 capabilities:uint64 = GlobalVersion;
GlobalVersion = rec('GlobalVersion', 'capabilities', '#c4', [('version', U(32)), ('capabilities', U(64))])

# block_info#9bc7a987 version:uint32 not_master:(## 1) after_merge:(## 1) before_split:(## 1) after_split:(## 1)
#   want_split:Bool want_merge:Bool key_block:Bool vert_seqno_incr:(## 1) flags:(## 8) { flags <= 1 }
#   seq_no:# vert_seq_no:# { vert_seq_no >= vert_seqno_incr } { prev_seq_no:# } { ~prev_seq_no + 1 = seq_no }
#   shard:ShardIdent gen_utime:uint32 start_lt:uint64 end_lt:uint64 gen_validator_list_hash_short:uint32
#   gen_catchain_seqno:uint32 min_ref_mc_seqno:uint32 prev_key_block_seqno:uint32
#   gen_software:flags . 0?GlobalVersion master_ref:not_master?^BlkMasterInfo prev_ref:^(BlkPrevInfo after_merge)
#   prev_vert_ref:vert_seqno_incr?^(BlkPrevInfo 0) = BlockInfo;
# ({ prev_seq_no:# } { ~prev_seq_no + 1 = seq_no }: an implicit natural number with prev_seq_no + 1 = seq_no exists
#  only when seq_no >= 1, so seq_no = 0 is outside the type.)
BlockInfo = rec('BlockInfo', 'block_info', '#9bc7a987', [
    ('version', U(32)), ('not_master', U(1)), ('after_merge', U(1)), ('before_split', U(1)), ('after_split', U(1)),
    ('want_split', Bool), ('want_merge', Bool), ('key_block', Bool), ('vert_seqno_incr', U(1)),
    ('flags', Range(U(8), 0, 1)), ('seq_no', Range(U(32), 1, M32)),
    ('vert_seq_no', lambda c: Range(U(32), c['vert_seqno_incr'], M32)),
    ('shard', ShardIdent), ('gen_utime', U(32)), ('start_lt', U(64)), ('end_lt', U(64)),
    ('gen_validator_list_hash_short', U(32)), ('gen_catchain_seqno', U(32)), ('min_ref_mc_seqno', U(32)),
    ('prev_key_block_seqno', U(32)),
    ('gen_software', Cond(lambda c: c['flags'] & 1, GlobalVersion)),
    ('master_ref', Cond(lambda c: c['not_master'], Ref(BlkMasterInfo))),
    ('prev_ref', lambda c: Ref(BlkPrevInfo(c['after_merge']))),
    ('prev_vert_ref', Cond(lambda c: c['vert_seqno_incr'], Ref(BlkPrevInfo(0))))])

# ---- value flow -----------------------------------------------------------------------------------------------------
_CC = CurrencyCollection
_vf_head = Ref(Record('', '', [('from_prev_blk', _CC), ('to_next_blk', _CC), ('imported', _CC), ('exported', _CC)]))
_vf_tail = Ref(Record('', '', [('fees_imported', _CC), ('recovered', _CC), ('created', _CC), ('minted', _CC)]))

# value_flow#b8e48dfb ^[ from_prev_blk to_next_blk imported exported ] fees_collected:CurrencyCollection
#   ^[ fees_imported recovered created minted ] = ValueFlow;                    (all CurrencyCollection)
value_flow = rec('ValueFlow', 'value_flow', '#b8e48dfb', [(None, _vf_head), ('fees_collected', _CC), (None, _vf_tail)])
# value_flow_v2#3ebf98b7 ^[ ... ] fees_collected:CurrencyCollection burned:CurrencyCollection ^[ ... ] = ValueFlow;
value_flow_v2 = rec('ValueFlow', 'value_flow_v2', '#3ebf98b7', [(None, _vf_head), ('fees_collected', _CC), ('burned', _CC),
                                                                (None, _vf_tail)])
ValueFlow = Union('ValueFlow', [value_flow, value_flow_v2])

# ---- shard descriptors ----------------------------------------------------------------------------------------------
# fsm_none$0 = FutureSplitMerge;  fsm_split$10 split_utime:uint32 interval:uint32;  fsm_merge$11 merge_utime:uint32 interval:uint32
fsm_none = rec('FutureSplitMerge', 'fsm_none', '$0', [])
fsm_split = rec('FutureSplitMerge', 'fsm_split', '$10', [('split_utime', U(32)), ('interval', U(32))])
fsm_merge = rec('FutureSplitMerge', 'fsm_merge', '$11', [('merge_utime', U(32)), ('interval', U(32))])
FutureSplitMerge = Union('FutureSplitMerge', [fsm_none, fsm_split, fsm_merge])

_sd_common = [('seq_no', U(32)), ('reg_mc_seqno', U(32)), ('start_lt', U(64)), ('end_lt', U(64)),
              ('root_hash', Bytes(32)), ('file_hash', Bytes(32)), ('before_split', Bool), ('before_merge', Bool),
              ('want_split', Bool), ('want_merge', Bool), ('nx_cc_updated', Bool), ('flags', Const(U(3), 0)),
              ('next_catchain_seqno', U(32)), ('next_validator_shard', U(64)), ('min_ref_mc_seqno', U(32)),
              ('gen_utime', U(32)), ('split_merge_at', FutureSplitMerge)]
# shard_descr#b seq_no:uint32 reg_mc_seqno:uint32 start_lt:uint64 end_lt:uint64 root_hash:bits256 file_hash:bits256
#   before_split:Bool before_merge:Bool want_split:Bool want_merge:Bool nx_cc_updated:Bool flags:(## 3) { flags = 0 }
#   next_catchain_seqno:uint32 next_validator_shard:uint64 min_ref_mc_seqno:uint32 gen_utime:uint32
#   split_merge_at:FutureSplitMerge fees_collected:CurrencyCollection funds_created:CurrencyCollection = ShardDescr;
shard_descr = rec('ShardDescr', 'shard_descr', '#b', _sd_common + [('fees_collected', _CC), ('funds_created', _CC)])
# shard_descr_new#a ... split_merge_at:FutureSplitMerge ^[ fees_collected:CurrencyCollection funds_created:CurrencyCollection ]
shard_descr_new = rec('ShardDescr', 'shard_descr_new', '#a', _sd_common + [
    (None, Ref(Record('', '', [('fees_collected', _CC), ('funds_created', _CC)])))])
ShardDescr = Union('ShardDescr', [shard_descr, shard_descr_new])
# shard_descr#b keeps both amounts inline: 876 bits + split_merge_at leave room for a few bytes of Grams only (the reason
# shard_descr_new exists). For GENERATION the amounts of the old constructor are kept below 2^24 so that values fit a cell
# (and a BinTree leaf); encoding / decoding is that of ShardDescr.
_SmallCC = Record('currencies', '$_', [('grams', Range(Grams, 0, (1 << 24) - 1)), ('other', ExtraCurrencyCollection)])
shard_descr_small = variant(shard_descr, fees_collected=_SmallCC, funds_created=_SmallCC)
ShardDescrGen = Union('ShardDescr', [shard_descr_small, shard_descr_new])

# bt_leaf$0 {X:Type} leaf:X = BinTree X;  bt_fork$1 {X:Type} left:^(BinTree X) right:^(BinTree X) = BinTree X;
CTORS['bt_leaf'] = ('BinTree', 'bt_leaf$0')
CTORS['bt_fork'] = ('BinTree', 'bt_fork$1')


def bin_tree_pruned(x):
    """BinTree X whose sub-trees may be pruned branches (cells of a Merkle update, real block only)"""
    box = []
    t = Union('BinTree', [Record('bt_leaf', '0', [('leaf', x)]),
                          Record('bt_fork', '1', [('left', Ref(lambda c: box[0], exotic_ok=True)),
                                                  ('right', Ref(lambda c: box[0], exotic_ok=True))])])
    box.append(t)
    return t


def shard_hashes(descr=ShardDescr, exotic_ok=False, **kw):
    """_ (HashmapE 32 ^(BinTree ShardDescr)) = ShardHashes;"""
    if exotic_ok:
        return HashmapE(32, Ref(bin_tree_pruned(descr), exotic_ok=True), pruned_ok=True, **kw)
    return HashmapE(32, Ref(_BinTree(descr)), **kw)


ShardHashes = shard_hashes()
ShardHashesGen = shard_hashes(ShardDescrGen)

# _ fees:CurrencyCollection create:CurrencyCollection = ShardFeeCreated;
ShardFeeCreated = rec('ShardFeeCreated', 'ShardFeeCreated', '', [('fees', _CC), ('create', _CC)])
# _ (HashmapAugE 96 ShardFeeCreated ShardFeeCreated) = ShardFees;
ShardFees = HashmapAugE(96, ShardFeeCreated, ShardFeeCreated, counts=(0, 0, 1, 1, 2))

# ---- validators, catchain config ------------------------------------------------------------------------------------
# ed25519_pubkey#8e81278a pubkey:bits256 = SigPubKey;
SigPubKey = rec('SigPubKey', 'ed25519_pubkey', '#8e81278a', [('pubkey', Bytes(32))])
# validator#53 public_key:SigPubKey weight:uint64 = ValidatorDescr;
validator = rec('ValidatorDescr', 'validator', '#53', [('public_key', SigPubKey), ('weight', U(64))])
# validator_addr#73 public_key:SigPubKey weight:uint64 adnl_addr:bits256 = ValidatorDescr;
validator_addr = rec('ValidatorDescr', 'validator_addr', '#73', [('public_key', SigPubKey), ('weight', U(64)),
                                                                ('adnl_addr', Bytes(32))])
ValidatorDescr = Union('ValidatorDescr', [validator, validator_addr])

_vs_head = [('utime_since', U(32)), ('utime_until', U(32)), ('total', Range(U(16), 1, 65535)),
            ('main', lambda c: Range(U(16), 1, c['total']))]          # { main <= total } { main >= 1 }
# validators#11 utime_since:uint32 utime_until:uint32 total:(## 16) main:(## 16) { main <= total } { main >= 1 }
#   list:(Hashmap 16 ValidatorDescr) = ValidatorSet;                              -- the dictionary root is INLINE
validators = rec('ValidatorSet', 'validators', '#11', _vs_head + [('list', Hashmap(16, ValidatorDescr))])
# validators_ext#12 utime_since:uint32 utime_until:uint32 total:(## 16) main:(## 16) { main <= total } { main >= 1 }
#   total_weight:uint64 list:(HashmapE 16 ValidatorDescr) = ValidatorSet;
validators_ext = rec('ValidatorSet', 'validators_ext', '#12', _vs_head + [('total_weight', U(64)),
                                                                         ('list', HashmapE(16, ValidatorDescr))])
ValidatorSet = Union('ValidatorSet', [validators, validators_ext])

_cc_tail = [('mc_catchain_lifetime', U(32)), ('shard_catchain_lifetime', U(32)), ('shard_validators_lifetime', U(32)),
            ('shard_validators_num', U(32))]
# catchain_config#c1 mc_catchain_lifetime:uint32 shard_catchain_lifetime:uint32 shard_validators_lifetime:uint32
#   shard_validators_num:uint32 = CatchainConfig;
catchain_config = rec('CatchainConfig', 'catchain_config', '#c1', list(_cc_tail))
# catchain_config_new#c2 flags:(## 7) { flags = 0 } shuffle_mc_validators:Bool mc_catchain_lifetime:uint32 ... = CatchainConfig;
catchain_config_new = rec('CatchainConfig', 'catchain_config_new', '#c2', [('flags', Const(U(7), 0)),
                                                                           ('shuffle_mc_validators', Bool)] + _cc_tail)
CatchainConfig = Union('CatchainConfig', [catchain_config, catchain_config_new])

# ---- masterchain extras ---------------------------------------------------------------------------------------------
# _ config_addr:bits256 config:^(Hashmap 32 ^Cell) = ConfigParams;
ConfigParams = rec('ConfigParams', 'ConfigParams', '', [('config_addr', Bytes(32)),
                                                        ('config', Ref(Hashmap(32, RefCell, counts=(1, 1, 2, 3))))])
# validator_info$_ validator_list_hash_short:uint32 catchain_seqno:uint32 nx_cc_updated:Bool = ValidatorInfo;
ValidatorInfo = rec('ValidatorInfo', 'validator_info', '$_', [('validator_list_hash_short', U(32)), ('catchain_seqno', U(32)),
                                                              ('nx_cc_updated', Bool)])
# _ key:Bool max_end_lt:uint64 = KeyMaxLt;
KeyMaxLt = rec('KeyMaxLt', 'KeyMaxLt', '', [('key', Bool), ('max_end_lt', U(64))])
# _ key:Bool blk_ref:ExtBlkRef = KeyExtBlkRef;
KeyExtBlkRef = rec('KeyExtBlkRef', 'KeyExtBlkRef', '', [('key', Bool), ('blk_ref', ExtBlkRef)])
# _ (HashmapAugE 32 KeyExtBlkRef KeyMaxLt) = OldMcBlocksInfo;
OldMcBlocksInfo = HashmapAugE(32, KeyExtBlkRef, KeyMaxLt, counts=(0, 1, 1, 2, 3))
# counters#_ last_updated:uint32 total:uint64 cnt2048:uint64 cnt65536:uint64 = Counters;
Counters = rec('Counters', 'counters', '#_', [('last_updated', U(32)), ('total', U(64)), ('cnt2048', U(64)), ('cnt65536', U(64))])
# creator_info#4 mc_blocks:Counters shard_blocks:Counters = CreatorStats;
CreatorStats = rec('CreatorStats', 'creator_info', '#4', [('mc_blocks', Counters), ('shard_blocks', Counters)])
# block_create_stats#17 counters:(HashmapE 256 CreatorStats) = BlockCreateStats;
block_create_stats = rec('BlockCreateStats', 'block_create_stats', '#17', [
    ('counters', HashmapE(256, CreatorStats, counts=(0, 1, 1, 2)))])
# block_create_stats_ext#34 counters:(HashmapAugE 256 CreatorStats uint32) = BlockCreateStats;
block_create_stats_ext = rec('BlockCreateStats', 'block_create_stats_ext', '#34', [
    ('counters', HashmapAugE(256, CreatorStats, U(32), counts=(0, 1, 1, 2)))])
BlockCreateStats = Union('BlockCreateStats', [block_create_stats, block_create_stats_ext])

# masterchain_state_extra#cc26 shard_hashes:ShardHashes config:ConfigParams
#   ^[ flags:(## 16) { flags <= 1 } validator_info:ValidatorInfo prev_blocks:OldMcBlocksInfo after_key_block:Bool
#      last_key_block:(Maybe ExtBlkRef) block_create_stats:(flags . 0)?BlockCreateStats ]
#   global_balance:CurrencyCollection = McStateExtra;
McStateExtra = rec('McStateExtra', 'masterchain_state_extra', '#cc26', [
    ('shard_hashes', ShardHashes), ('config', ConfigParams),
    (None, Ref(Record('', '', [('flags', Range(U(16), 0, 1)), ('validator_info', ValidatorInfo),
                               ('prev_blocks', OldMcBlocksInfo), ('after_key_block', Bool),
                               ('last_key_block', Maybe(ExtBlkRef)),
                               ('block_create_stats', Cond(lambda c: c['flags'] & 1, BlockCreateStats))]))),
    ('global_balance', _CC)])


def mc_state_extra_pruned(cc):
    """McStateExtra as it appears inside a Merkle update (real block only): dictionaries and trees may be partly pruned"""
    stats = Union('BlockCreateStats', [
        Record('block_create_stats', '#17', [('counters', HashmapE(256, CreatorStats, pruned_ok=True))]),
        Record('block_create_stats_ext', '#34', [('counters', HashmapAugE(256, CreatorStats, U(32), pruned_ok=True))])])
    return Record('masterchain_state_extra', '#cc26', [
        ('shard_hashes', shard_hashes(exotic_ok=True)),
        ('config', Record('ConfigParams', '', [('config_addr', Bytes(32)),
                                               ('config', Ref(Hashmap(32, RefCell, pruned_ok=True), exotic_ok=True))])),
        (None, Ref(Record('', '', [('flags', Range(U(16), 0, 1)), ('validator_info', ValidatorInfo),
                                   ('prev_blocks', HashmapAugE(32, KeyExtBlkRef, KeyMaxLt, pruned_ok=True)),
                                   ('after_key_block', Bool), ('last_key_block', Maybe(ExtBlkRef)),
                                   ('block_create_stats', Cond(lambda c: c['flags'] & 1, stats))]))),
        ('global_balance', cc)])

# ed25519_signature#5 R:bits256 s:bits256 = CryptoSignatureSimple;  _ CryptoSignatureSimple = CryptoSignature;
CryptoSignatureSimple = rec('CryptoSignatureSimple', 'ed25519_signature', '#5', [('R', Bytes(32)), ('s', Bytes(32))])
# certificate#4 temp_key:SigPubKey valid_since:uint32 valid_until:uint32 = Certificate;
Certificate = rec('Certificate', 'certificate', '#4', [('temp_key', SigPubKey), ('valid_since', U(32)), ('valid_until', U(32))])
# chained_signature#f signed_cert:^SignedCertificate temp_key_signature:CryptoSignatureSimple = CryptoSignature;
# signed_certificate$_ certificate:Certificate certificate_signature:CryptoSignature = SignedCertificate;
_crypto_sig = []
SignedCertificate = rec('SignedCertificate', 'signed_certificate', '$_', [('certificate', Certificate),
                                                                          ('certificate_signature', lambda c: _crypto_sig[0])])
chained_signature = rec('CryptoSignature', 'chained_signature', '#f', [('signed_cert', Ref(SignedCertificate)),
                                                                       ('temp_key_signature', CryptoSignatureSimple)])
CryptoSignature = Union('CryptoSignature', [CryptoSignatureSimple, chained_signature])
_crypto_sig.append(CryptoSignature)
# sig_pair$_ node_id_short:bits256 sign:CryptoSignature = CryptoSignaturePair;
CryptoSignaturePair = rec('CryptoSignaturePair', 'sig_pair', '$_', [('node_id_short', Bytes(32)), ('sign', CryptoSignature)])


def mc_block_extra(in_msg_ref=RefCell, hashes=ShardHashes):
    """masterchain_block_extra#cca5 key_block:(## 1) shard_hashes:ShardHashes shard_fees:ShardFees
         ^[ prev_blk_signatures:(HashmapE 16 CryptoSignaturePair) recover_create_msg:(Maybe ^InMsg) mint_msg:(Maybe ^InMsg) ]
         config:key_block?ConfigParams = McBlockExtra;           (in_msg_ref: the type standing for ^InMsg)"""
    return rec('McBlockExtra', 'masterchain_block_extra', '#cca5', [
        ('key_block', U(1)), ('shard_hashes', hashes), ('shard_fees', ShardFees),
        (None, Ref(Record('', '', [('prev_blk_signatures', HashmapE(16, CryptoSignaturePair, counts=(0, 1, 1, 2))),
                                   ('recover_create_msg', Maybe(in_msg_ref)), ('mint_msg', Maybe(in_msg_ref))]))),
        ('config', Cond(lambda c: c['key_block'], ConfigParams))])


McBlockExtra = mc_block_extra()
McBlockExtraGen = mc_block_extra(hashes=ShardHashesGen)
McStateExtraGen = variant(McStateExtra, shard_hashes=ShardHashesGen)

# ---- block extra, shard state, block --------------------------------------------------------------------------------
# import_fees$_ fees_collected:Grams value_imported:CurrencyCollection = ImportFees;
ImportFees = rec('ImportFees', 'import_fees', '$_', [('fees_collected', Grams), ('value_imported', _CC)])


def block_extra(in_msg=None, out_msg=None, account_block=None, custom=McBlockExtra, exotic_ok=False):
    """block_extra in_msg_descr:^InMsgDescr out_msg_descr:^OutMsgDescr account_blocks:^ShardAccountBlocks
         rand_seed:bits256 created_by:bits256 custom:(Maybe ^McBlockExtra) = BlockExtra;          (tag #4a33f6fd, see above)
       _ (HashmapAugE 256 InMsg ImportFees) = InMsgDescr;  _ (HashmapAugE 256 OutMsg CurrencyCollection) = OutMsgDescr;
       _ (HashmapAugE 256 AccountBlock CurrencyCollection) = ShardAccountBlocks;
       A value type left None is the opaque remainder of the leaf and only the empty dictionary is generated."""
    def d(x, y):
        return Ref(HashmapAugE(256, x, y) if x is not None else HashmapAugE(256, AnyRest, y, counts=(0,)))
    return rec('BlockExtra', 'block_extra', '#4a33f6fd', [
        ('in_msg_descr', d(in_msg, ImportFees)), ('out_msg_descr', d(out_msg, _CC)), ('account_blocks', d(account_block, _CC)),
        ('rand_seed', Bytes(32)), ('created_by', Bytes(32)), ('custom', Maybe(Ref(custom, exotic_ok=exotic_ok)))])


BlockExtra = block_extra()
BlockExtraGen = block_extra(custom=McBlockExtraGen)

# account_none$0 = Account;   (the only Account constructor of this half; the others belong to tlb_tx)
AccountNone = Union('Account', [rec('Account', 'account_none', '$0', [])])


def shard_account(account=Ref(AccountNone)):
    """account_descr$_ account:^Account last_trans_hash:bits256 last_trans_lt:uint64 = ShardAccount;"""
    return rec('ShardAccount', 'account_descr', '$_', [('account', account), ('last_trans_hash', Bytes(32)),
                                                       ('last_trans_lt', U(64))])


ShardAccount = shard_account()
# depth_balance$_ split_depth:(#<= 30) balance:CurrencyCollection = DepthBalanceInfo;
def depth_balance(cc=_CC):
    return rec('DepthBalanceInfo', 'depth_balance', '$_', [('split_depth', ULe(30)), ('balance', cc)])


DepthBalanceInfo = depth_balance()
# CurrencyCollection whose extra-currency dictionary may be a pruned branch (cells of a Merkle update, real block only)
CurrencyCollectionPruned = Record('currencies', '$_', [('grams', Grams), ('other', Record('extra_currencies', '$_', [
    ('dict', HashmapE(32, VarU(32), pruned_ok=True))]))])
# true$_ = True;
TrueT = rec('True', 'true', '$_', [])
# shared_lib_descr$00 lib:^Cell publishers:(Hashmap 256 True) = LibDescr;
LibDescr = rec('LibDescr', 'shared_lib_descr', '$00', [('lib', RefCell), ('publishers', Hashmap(256, TrueT, counts=(1, 1, 2)))])


def shard_state_unsplit(account=Ref(AccountNone), custom=McStateExtra, exotic_ok=False, accounts_counts=(0, 1, 1, 2), cc=_CC):
    """shard_state#9023afe2 global_id:int32 shard_id:ShardIdent seq_no:uint32 vert_seq_no:# gen_utime:uint32 gen_lt:uint64
         min_ref_mc_seqno:uint32 out_msg_queue_info:^OutMsgQueueInfo before_split:(## 1) accounts:^ShardAccounts
         ^[ overload_history:uint64 underload_history:uint64 total_balance:CurrencyCollection
            total_validator_fees:CurrencyCollection libraries:(HashmapE 256 LibDescr) master_ref:(Maybe BlkMasterInfo) ]
         custom:(Maybe ^McStateExtra) = ShardStateUnsplit;
       _ (HashmapAugE 256 ShardAccount DepthBalanceInfo) = ShardAccounts;        ^OutMsgQueueInfo: an opaque cell"""
    accounts = HashmapAugE(256, shard_account(account), depth_balance(cc), counts=accounts_counts, pruned_ok=exotic_ok)
    group = Record('', '', [('overload_history', U(64)), ('underload_history', U(64)), ('total_balance', cc),
                            ('total_validator_fees', cc),
                            ('libraries', HashmapE(256, LibDescr, counts=(0, 0, 1, 2), pruned_ok=exotic_ok)),
                            ('master_ref', Maybe(BlkMasterInfo))])
    return rec('ShardStateUnsplit', 'shard_state', '#9023afe2', [
        ('global_id', I(32)), ('shard_id', ShardIdent), ('seq_no', U(32)), ('vert_seq_no', U(32)), ('gen_utime', U(32)),
        ('gen_lt', U(64)), ('min_ref_mc_seqno', U(32)), ('out_msg_queue_info', RefCell), ('before_split', U(1)),
        ('accounts', Ref(accounts, exotic_ok=exotic_ok)),
        (('group' if exotic_ok else None), Ref(group, exotic_ok=exotic_ok)),
        ('custom', Maybe(Ref(custom, exotic_ok=exotic_ok)))])


ShardStateUnsplit = shard_state_unsplit()
ShardStateUnsplitGen = shard_state_unsplit(custom=McStateExtraGen)


def shard_state(unsplit=ShardStateUnsplit, exotic_ok=False):
    """_ ShardStateUnsplit = ShardState;  split_state#5f327da5 left:^ShardStateUnsplit right:^ShardStateUnsplit = ShardState;"""
    return Union('ShardState', [unsplit, rec('ShardState', 'split_state', '#5f327da5', [
        ('left', Ref(unsplit, exotic_ok=exotic_ok)), ('right', Ref(unsplit, exotic_ok=exotic_ok))])])


ShardState = shard_state()
ShardStateGen = shard_state(ShardStateUnsplitGen)


class MerkleUpdateRef(T):
    """^(MERKLE_UPDATE X): a reference to a Merkle-update cell (exotic, type 4: level-0 hashes and depths of its two
    children, then the children). Value {'_': 'merkle_update', 'old_hash': hex, 'new_hash': hex, 'old': x, 'new': x};
    a child that is itself exotic (pruned) decodes to {'exotic': cell}. The hashes are derived data: the encoder requires
    them to equal the hashes of the encoded children, the generator fills them in."""
    name = '^MERKLE_UPDATE'

    def __init__(self, x):
        self.x = x

    def _child(self, v, ctx):
        if isinstance(v, dict) and 'exotic' in v:
            return plain_to_cell(v['exotic'])
        nb = Bld()
        _res(self.x, ctx).enc(v, nb, Ctx(ctx))
        return nb.cell()

    def enc(self, v, b, ctx):
        try:
            a, n = self._child(v['old'], ctx), self._child(v['new'], ctx)
            if v['old_hash'] != a.H(0).hex() or v['new_hash'] != n.H(0).hex():
                raise ModelError('domain', 'merkle_update: the hashes do not commit to the children')
        except (KeyError, TypeError) as e:
            raise ModelError('domain', f'merkle_update value expected: {e!r}')
        b.ref(refcell.merkle_update(a, n))

    def dec(self, r, ctx):
        c = r.ref()
        if not c.special or c.type != 4 or len(c.bits) != 8 + 512 + 32 or len(c.refs) != 2:
            raise DecodeError('a Merkle update cell expected')
        out = {'_': 'merkle_update', 'old_hash': format(int(c.bits[8:264], 2), '064x'),
               'new_hash': format(int(c.bits[264:520], 2), '064x')}
        for k, ch in (('old', c.refs[0]), ('new', c.refs[1])):
            if ch.special:
                out[k] = {'exotic': cell_to_plain(ch)}
            else:
                sub = Rd(ch)
                out[k] = _res(self.x, ctx).dec(sub, Ctx(ctx))
                if not sub.done():
                    raise DecodeError(f'merkle_update.{k}: {sub.rest_bits} bits / {sub.rest_refs} refs left over')
        return out

    def gen(self, ch, budget, ctx):
        if ctx.trk is not None:
            ctx.trk.ref()
        out = {'_': 'merkle_update'}
        for k in ('old', 'new'):
            last = None
            for i in range(8):              # each child is a cell tree of its own: regenerate it until it can be laid out
                v = _res(self.x, ctx).gen(ch, max(budget - 1 - i, 0), Ctx(ctx, Trk()))
                try:
                    cell = self._child(v, ctx)
                    break
                except ModelError as e:
                    if e.kind == 'domain':
                        raise
                    last = e
            else:
                raise ModelError(last.kind, f'merkle_update.{k}: no fitting value ({last})')
            out[k] = v
            out[k + '_hash'] = cell.H(0).hex()
        return out


CTORS['merkle_update'] = ('MERKLE_UPDATE', 'merkle_update')


def block(info=BlockInfo, value_flow=ValueFlow, state=ShardState, extra=BlockExtra, exotic_ok=False):
    """block#11ef55aa global_id:int32 info:^BlockInfo value_flow:^ValueFlow state_update:^(MERKLE_UPDATE ShardState)
         extra:^BlockExtra = Block;"""
    return rec('Block', 'block', '#11ef55aa', [('global_id', I(32)), ('info', Ref(info, exotic_ok=exotic_ok)),
                                               ('value_flow', Ref(value_flow, exotic_ok=exotic_ok)),
                                               ('state_update', MerkleUpdateRef(state)),
                                               ('extra', Ref(extra, exotic_ok=exotic_ok))])


Block = block()
BlockGen = block(state=ShardStateGen, extra=BlockExtraGen)


# ---- self test: hand-assembled encodings (derived from block.tlb by hand, NOT by running the encoder) ---------------

def self_check():
    def rt(t, v, bits, nrefs=0):
        c = to_cell(t, v)
        assert c.bits == bits, f'{t.name}: encoded\n {c.bits}\nexpected\n {bits}'
        assert len(c.refs) == nrefs, f'{t.name}: {len(c.refs)} refs, expected {nrefs}'
        back = from_cell(t, c)
        assert diff(back, v) is None, f'{t.name}: decode differs at {diff(back, v)}'
        return c

    def u(v, w):
        return format(v, f'0{w}b')

    # implicit constructor tag of block_extra: CRC-32 of the declaration with the parentheses removed
    decl = ('block_extra in_msg_descr:^InMsgDescr out_msg_descr:^OutMsgDescr account_blocks:^ShardAccountBlocks '
            'rand_seed:bits256 created_by:bits256 custom:Maybe ^McBlockExtra = BlockExtra')
    assert zlib.crc32(decl.encode()) == 0x4a33f6fd
    h1, h2 = '11' * 32, 'fe' * 32
    b1, b2 = '00010001' * 32, '11111110' * 32
    # shard_ident$00: #<= 60 is 6 bits (60 = 0b111100); workchain -1; prefix with the top bit
    sid = {'_': 'shard_ident', 'shard_pfx_bits': 60, 'workchain_id': -1, 'shard_prefix': 1 << 63}
    s_sid = '00' + '111100' + '1' * 32 + '1' + '0' * 63
    rt(ShardIdent, sid, s_sid)
    ebr = {'_': 'ext_blk_ref', 'end_lt': (1 << 63) + 5, 'seq_no': 1 << 31, 'root_hash': h1, 'file_hash': h2}
    s_ebr = '1' + '0' * 60 + '101' + '1' + '0' * 31 + b1 + b2
    rt(ExtBlkRef, ebr, s_ebr)
    rt(BlkPrevInfo(0), {'_': 'prev_blk_info', 'prev': ebr}, s_ebr)
    c = rt(BlkPrevInfo(1), {'_': 'prev_blks_info', 'prev1': ebr, 'prev2': dict(ebr, seq_no=7)}, '', 2)
    assert c.refs[0].bits == s_ebr and c.refs[1].bits == s_ebr[:64] + u(7, 32) + b1 + b2
    gv = {'_': 'capabilities', 'version': (1 << 32) - 2, 'capabilities': 46}
    s_gv = '11000100' + '1' * 31 + '0' + '0' * 58 + '101110'
    rt(GlobalVersion, gv, s_gv)
    # block_info#9bc7a987 with every flag-dependent field: not_master=1, after_merge=1, vert_seqno_incr=1, flags=1
    tag = '1001' + '1011' + '1100' + '0111' + '1010' + '1001' + '1000' + '0111'
    bi = {'_': 'block_info', 'version': 0, 'not_master': 1, 'after_merge': 1, 'before_split': 0, 'after_split': 0,
          'want_split': True, 'want_merge': False, 'key_block': True, 'vert_seqno_incr': 1, 'flags': 1, 'seq_no': 5,
          'vert_seq_no': 1, 'shard': sid, 'gen_utime': 1, 'start_lt': 2, 'end_lt': 1 << 63,
          'gen_validator_list_hash_short': 3, 'gen_catchain_seqno': 4, 'min_ref_mc_seqno': 5, 'prev_key_block_seqno': 6,
          'gen_software': gv, 'master_ref': {'_': 'master_info', 'master': ebr},
          'prev_ref': {'_': 'prev_blks_info', 'prev1': ebr, 'prev2': ebr}, 'prev_vert_ref': {'_': 'prev_blk_info', 'prev': ebr}}
    s_bi = (tag + u(0, 32) + '1' + '1' + '0' + '0' + '1' + '0' + '1' + '1' + u(1, 8) + u(5, 32) + u(1, 32) + s_sid + u(1, 32)
            + u(2, 64) + '1' + '0' * 63 + u(3, 32) + u(4, 32) + u(5, 32) + u(6, 32) + s_gv)
    c = rt(BlockInfo, bi, s_bi, 3)
    assert c.refs[0].bits == s_ebr and c.refs[1].bits == '' and len(c.refs[1].refs) == 2 and c.refs[2].bits == s_ebr
    # the plainest header: masterchain, no merge, flags = 0 -> one reference (prev_ref), nothing after prev_key_block_seqno
    bi0 = dict(bi, not_master=0, after_merge=0, vert_seqno_incr=0, flags=0, vert_seq_no=0, gen_software=None, master_ref=None,
               prev_ref={'_': 'prev_blk_info', 'prev': ebr}, prev_vert_ref=None)
    s_bi0 = (tag + u(0, 32) + '0' + '0' + '0' + '0' + '1' + '0' + '1' + '0' + u(0, 8) + u(5, 32) + u(0, 32) + s_sid + u(1, 32)
             + u(2, 64) + '1' + '0' * 63 + u(3, 32) + u(4, 32) + u(5, 32) + u(6, 32))
    c = rt(BlockInfo, bi0, s_bi0, 1)
    assert c.refs[0].bits == s_ebr
    for bad in (dict(bi0, seq_no=0), dict(bi, vert_seq_no=0), dict(bi0, flags=2), dict(bi0, gen_software=gv)):
        try:
            to_cell(BlockInfo, bad)
        except ModelError as e:
            assert e.kind == 'domain'
            continue
        raise AssertionError('invalid BlockInfo accepted')
    # currency collections: grams 0 / no extra = '0000' + '0';  grams 1 = '0001' '00000001'
    cc0 = {'_': 'currencies', 'grams': 0, 'other': {'_': 'extra_currencies', 'dict': []}}
    cc1 = {'_': 'currencies', 'grams': 1, 'other': {'_': 'extra_currencies', 'dict': []}}
    s0, s1 = '00000', '0001' + '00000001' + '0'
    vf = {'_': 'value_flow', 'from_prev_blk': cc1, 'to_next_blk': cc0, 'imported': cc0, 'exported': cc1, 'fees_collected': cc1,
          'fees_imported': cc0, 'recovered': cc1, 'created': cc0, 'minted': cc0}
    c = rt(ValueFlow, vf, '1011' + '1000' + '1110' + '0100' + '1000' + '1101' + '1111' + '1011' + s1, 2)
    assert c.refs[0].bits == s1 + s0 + s0 + s1 and c.refs[1].bits == s0 + s1 + s0 + s0
    vf2 = dict(vf, _='value_flow_v2', burned=cc0)
    c = rt(ValueFlow, vf2, '0011' + '1110' + '1011' + '1111' + '1001' + '1000' + '1011' + '0111' + s1 + s0, 2)
    assert c.refs[0].bits == s1 + s0 + s0 + s1 and c.refs[1].bits == s0 + s1 + s0 + s0
    # shard descriptors: #b inline fees, #a fees behind a reference; fsm_split$10 / fsm_merge$11 / fsm_none$0
    sd = {'_': 'shard_descr', 'seq_no': 1, 'reg_mc_seqno': 2, 'start_lt': 3, 'end_lt': 1 << 63, 'root_hash': h1,
          'file_hash': h2, 'before_split': True, 'before_merge': False, 'want_split': False, 'want_merge': True,
          'nx_cc_updated': True, 'flags': 0, 'next_catchain_seqno': 4, 'next_validator_shard': (1 << 63) | 1,
          'min_ref_mc_seqno': 5, 'gen_utime': 6, 'split_merge_at': {'_': 'fsm_split', 'split_utime': 7, 'interval': 8},
          'fees_collected': cc1, 'funds_created': cc0}
    s_sd = (u(1, 32) + u(2, 32) + u(3, 64) + '1' + '0' * 63 + b1 + b2 + '1' + '0' + '0' + '1' + '1' + '000' + u(4, 32)
            + '1' + '0' * 62 + '1' + u(5, 32) + u(6, 32))
    rt(ShardDescr, sd, '1011' + s_sd + '10' + u(7, 32) + u(8, 32) + s1 + s0)
    sdn = dict(sd, _='shard_descr_new', split_merge_at={'_': 'fsm_merge', 'merge_utime': 9, 'interval': 1})
    c = rt(ShardDescr, sdn, '1010' + s_sd + '11' + u(9, 32) + u(1, 32), 1)
    assert c.refs[0].bits == s1 + s0
    rt(ShardDescr, dict(sd, split_merge_at={'_': 'fsm_none'}), '1011' + s_sd + '0' + s1 + s0)
    # ShardHashes: one workchain (key 0 = 32 zero bits: hml_same$11 v=0 n=100000 [bitlen(32) = 6 bits]) -> ^(bt_fork ^leaf ^leaf)
    leafv = dict(sd, split_merge_at={'_': 'fsm_none'})
    sh = [[0, {'_': 'bt_fork', 'left': {'_': 'bt_leaf', 'leaf': leafv}, 'right': {'_': 'bt_leaf', 'leaf': sdn}}]]
    c = rt(ShardHashes, sh, '1', 1)
    root = c.refs[0]
    assert root.bits == '11' + '0' + '100000' and len(root.refs) == 1
    assert root.refs[0].bits == '1' and len(root.refs[0].refs) == 2
    assert root.refs[0].refs[0].bits == '0' + '1011' + s_sd + '0' + s1 + s0
    assert root.refs[0].refs[1].bits == '0' + '1010' + s_sd + '11' + u(9, 32) + u(1, 32)
    # validators: ed25519_pubkey#8e81278a, validator#53 / validator_addr#73
    s_pk = '1000' + '1110' + '1000' + '0001' + '0010' + '0111' + '1000' + '1010' + b1
    vd = {'_': 'validator', 'public_key': {'_': 'ed25519_pubkey', 'pubkey': h1}, 'weight': 1 << 63}
    vda = {'_': 'validator_addr', 'public_key': {'_': 'ed25519_pubkey', 'pubkey': h1}, 'weight': 3, 'adnl_addr': h2}
    s_vd = '01010011' + s_pk + '1' + '0' * 63
    s_vda = '01110011' + s_pk + u(3, 64) + b2
    rt(ValidatorDescr, vd, s_vd)
    rt(ValidatorDescr, vda, s_vda)
    # validators#11 with ONE entry: the root edge is inline; key 2 of 16 bits: hml_long$10 n=10000 (5 bits: bitlen(16))
    head = u(1, 32) + u(2, 32) + u(3, 16) + u(1, 16)
    vs = {'_': 'validators', 'utime_since': 1, 'utime_until': 2, 'total': 3, 'main': 1, 'list': [[2, vd]]}
    rt(ValidatorSet, vs, '00010001' + head + '10' + '10000' + u(2, 16) + s_vd)
    # validators#11 with keys 0 and 1: common prefix of 15 zero bits -> hml_same$11 v=0 n=01111, fork: two references
    # inline; each leaf has no key bits left -> hml_short$0 with unary length 0 = '00', then the value
    vs2 = dict(vs, list=[[0, vd], [1, vda]])
    c = rt(ValidatorSet, vs2, '00010001' + head + '11' + '0' + '01111', 2)
    assert c.refs[0].bits == '00' + s_vd and c.refs[1].bits == '00' + s_vda
    # validators_ext#12: total_weight, then HashmapE (one bit + reference to the same root edge)
    vse = {'_': 'validators_ext', 'utime_since': 1, 'utime_until': 2, 'total': 3, 'main': 1, 'total_weight': (1 << 64) - 1,
           'list': [[0, vd], [1, vda]]}
    c = rt(ValidatorSet, vse, '00010010' + head + '1' * 64 + '1', 1)
    assert c.refs[0].bits == '11' + '0' + '01111' and len(c.refs[0].refs) == 2
    rt(ValidatorSet, dict(vse, list=[]), '00010010' + head + '1' * 64 + '0')
    for bad in (dict(vs, main=0), dict(vs, main=4), dict(vs, list=[])):
        try:
            to_cell(ValidatorSet, bad)
        except ModelError as e:
            assert e.kind == 'domain'
            continue
        raise AssertionError('invalid ValidatorSet accepted')
    rt(CatchainConfig, {'_': 'catchain_config', 'mc_catchain_lifetime': 1, 'shard_catchain_lifetime': 2,
                        'shard_validators_lifetime': 3, 'shard_validators_num': 1 << 31},
       '11000001' + u(1, 32) + u(2, 32) + u(3, 32) + '1' + '0' * 31)
    rt(CatchainConfig, {'_': 'catchain_config_new', 'flags': 0, 'shuffle_mc_validators': True, 'mc_catchain_lifetime': 1,
                        'shard_catchain_lifetime': 2, 'shard_validators_lifetime': 3, 'shard_validators_num': 4},
       '11000010' + '0000000' + '1' + u(1, 32) + u(2, 32) + u(3, 32) + u(4, 32))
    # ConfigParams: address, then a reference to a cell with the INLINE Hashmap 32 ^Cell (one key -1 = 32 one-bits:
    # hml_same$11 v=1 n=100000 is shorter (9 bits) than hml_long (2+6+32), so the canonical label is 'same')
    leaf = {'bits': '101', 'refs': [], 'special': False}
    cp = {'_': 'ConfigParams', 'config_addr': h2, 'config': [[(1 << 32) - 1, leaf]]}
    c = rt(ConfigParams, cp, b2, 1)
    assert c.refs[0].bits == '11' + '1' + '100000' and c.refs[0].refs[0].bits == '101'
    # McStateExtra: #cc26, empty shard hashes '0', config, ^[ flags=1 validator_info prev_blocks(empty: '0' + root extra
    # KeyMaxLt = key bit + 64 bits) after_key_block last_key_block=nothing block_create_stats#17 with an empty dictionary ]
    mse = {'_': 'masterchain_state_extra', 'shard_hashes': [], 'config': cp, 'flags': 1,
           'validator_info': {'_': 'validator_info', 'validator_list_hash_short': 1, 'catchain_seqno': 2, 'nx_cc_updated': True},
           'prev_blocks': {'extra': {'_': 'KeyMaxLt', 'key': False, 'max_end_lt': 9}, 'items': []},
           'after_key_block': True, 'last_key_block': None,
           'block_create_stats': {'_': 'block_create_stats', 'counters': []}, 'global_balance': cc1}
    c = rt(McStateExtra, mse, '1100' + '1100' + '0010' + '0110' + '0' + b2 + s1, 2)
    assert c.refs[1].bits == u(1, 16) + u(1, 32) + u(2, 32) + '1' + '0' + '0' + u(9, 64) + '1' + '0' + '00010111' + '0'
    mse0 = dict(mse, flags=0, block_create_stats=None, after_key_block=False, last_key_block=ebr)
    c = rt(McStateExtra, mse0, '1100' + '1100' + '0010' + '0110' + '0' + b2 + s1, 2)
    assert c.refs[1].bits == u(0, 16) + u(1, 32) + u(2, 32) + '1' + '0' + '0' + u(9, 64) + '0' + '1' + s_ebr
    # McBlockExtra: #cca5 key_block shard_hashes shard_fees (empty: '0' + root extra = two ShardFeeCreated collections)
    sfc = {'_': 'ShardFeeCreated', 'fees': cc1, 'create': cc0}
    mbe = {'_': 'masterchain_block_extra', 'key_block': 1, 'shard_hashes': [], 'shard_fees': {'extra': sfc, 'items': []},
           'prev_blk_signatures': [], 'recover_create_msg': leaf, 'mint_msg': None, 'config': cp}
    c = rt(McBlockExtra, mbe, '1100' + '1100' + '1010' + '0101' + '1' + '0' + '0' + s1 + s0 + b2, 2)
    assert c.refs[0].bits == '0' + '1' + '0' and c.refs[0].refs[0].bits == '101'
    rt(McBlockExtra, dict(mbe, key_block=0, config=None), '1100' + '1100' + '1010' + '0101' + '0' + '0' + '0' + s1 + s0, 1)
    # BlockExtra with three empty dictionaries behind references ('0' + root extra)
    bx = {'_': 'block_extra', 'in_msg_descr': {'extra': {'_': 'import_fees', 'fees_collected': 1, 'value_imported': cc0}, 'items': []},
          'out_msg_descr': {'extra': cc1, 'items': []}, 'account_blocks': {'extra': cc0, 'items': []},
          'rand_seed': h1, 'created_by': h2, 'custom': None}
    c = rt(BlockExtra, bx, '0100' + '1010' + '0011' + '0011' + '1111' + '0110' + '1111' + '1101' + b1 + b2 + '0', 3)
    assert [x.bits for x in c.refs] == ['0' + '0001' + '00000001' + s0, '0' + s1, '0' + s0]
    # DepthBalanceInfo: #<= 30 is 5 bits
    rt(DepthBalanceInfo, {'_': 'depth_balance', 'split_depth': 30, 'balance': cc1}, '11110' + s1)
    # ShardStateUnsplit: empty accounts ('0' + DepthBalanceInfo root extra), account_none
    ssu = {'_': 'shard_state', 'global_id': -239, 'shard_id': sid, 'seq_no': 1, 'vert_seq_no': 2, 'gen_utime': 3,
           'gen_lt': 1 << 63, 'min_ref_mc_seqno': 4, 'out_msg_queue_info': leaf, 'before_split': 1,
           'accounts': {'extra': {'_': 'depth_balance', 'split_depth': 0, 'balance': cc0}, 'items': []},
           'overload_history': 5, 'underload_history': 6, 'total_balance': cc1, 'total_validator_fees': cc0,
           'libraries': [], 'master_ref': {'_': 'master_info', 'master': ebr}, 'custom': None}
    c = rt(ShardStateUnsplit, ssu, '1001' + '0000' + '0010' + '0011' + '1010' + '1111' + '1110' + '0010'
           + u((1 << 32) - 239, 32) + s_sid + u(1, 32) + u(2, 32) + u(3, 32) + '1' + '0' * 63 + u(4, 32) + '1' + '0', 3)
    assert c.refs[0].bits == '101' and c.refs[1].bits == '0' + '00000' + s0
    assert c.refs[2].bits == u(5, 64) + u(6, 64) + s1 + s0 + '0' + '1' + s_ebr
    # Block: the state update is a Merkle update cell over the two states
    blk = {'_': 'block', 'global_id': -1, 'info': bi0, 'value_flow': vf, 'extra': bx,
           'state_update': {'_': 'merkle_update', 'old': ssu, 'new': dict(ssu, seq_no=2)}}
    a, n = to_cell(ShardState, ssu), to_cell(ShardState, dict(ssu, seq_no=2))
    blk['state_update']['old_hash'], blk['state_update']['new_hash'] = a.repr_hash().hex(), n.repr_hash().hex()
    c = rt(Block, blk, '0001' + '0001' + '1110' + '1111' + '0101' + '0101' + '1010' + '1010' + '1' * 32, 4)
    mu = c.refs[2]
    assert mu.special and mu.bits[:8] == '00000100' and len(mu.bits) == 552 and mu.refs[0].bits == a.bits
    assert c.refs[0].bits == s_bi0 and c.refs[1].bits[:32] == '10111000111001001000110111111011'
    return True


self_check()
