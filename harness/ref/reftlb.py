"""
reftlb - a generic, declarative TL-B interpreter (reference model for C15 / C16 / C11).

Imports nothing from the library under test: only refbits (bit-string writers), refcell (RCell), refdict (label
rules of Hashmap) and the standard library. A TL-B type is a plain Python object (a *combinator*); a value is plain
JSON-able data; three generic functions work over (type, value): encode, decode, generate.

====================================================================================================================
API SUMMARY
====================================================================================================================
Values (plain data)
    uintN / intN / # / ## n / #<= n / #< n / VarUInteger / VarInteger   -> int
    Bool                                                                -> bool
    bits n   (Bits(n))                                                  -> str of '0'/'1'
    bits 8k  as bytes (Bytes(k), e.g. bits256 = Bytes(32))              -> hex str
    ^Cell (RefCell), Any (AnyRest)                                      -> {'bits': '0101', 'refs': [cells...], 'special': False}
    Maybe T                                                             -> None | value
    Either L R                                                          -> {'either': 'left'|'right', 'v': value}
    ^T   (Ref(T))                                                       -> the value of T (the reference itself is invisible)
    constructor (Record)                                                -> {'_': constructor_name, field: value, ...}
    HashmapE n V / Hashmap n V                                          -> [[key_int, value], ...] sorted by key
    HashmapAug n X Y                                                    -> [[key_int, {'extra': y, 'value': x}], ...]
    HashmapAugE n X Y                                                   -> {'extra': root_extra, 'items': [as HashmapAug]}
    f?T (Cond)                                                          -> None when the condition is false

Type combinators
    U(n) I(n) Bits(n) Bytes(k) Bool  ULe(m) [#<= m]  ULt(m) [#< m]  VarU(n) VarI(n)  Grams (= VarU(16))
    Const(T, value)   fixed value ({ flags = 0 });   Range(T, lo, hi)   integer constrained ({ flags <= 1 }, { depth >= 1 })
    Maybe(T)  Either(L, R)  EitherRef(X) (= Either(X, Ref(X)))  Ref(T)  RefCell  AnyRest
    Cond(pred(ctx) -> bool, T)
    HashmapE(n, V)  Hashmap(n, V)  HashmapAugE(n, X, Y, fork_extra=None)  HashmapAug(n, X, Y, fork_extra=None)
    Record(name, tag, [(field, T | callable(ctx) -> T), ...], check=None)
        tag: '' | '$_' | '#_' (no prefix), '0110' / '$0110' (bits), '#9bc7a987' (hex, 4 bits per digit, a trailing '_'
        removes the completion tag as in TL-B). A field named None is *spliced*: its type must be an anonymous Record
        (name '') or a Ref of one - used for `^[ a:A b:B ]` groups; its fields live in the parent's dict.
        A field type may be a callable of the context (values of the fields seen so far, lookups fall through to the
        enclosing records): ('external_address', lambda c: Bits(c['len'])), ('prev_ref', lambda c: Ref(BlkPrevInfo(c['after_merge']))).
        Recursive types: refer to the type through a callable (lambda c: TheType).
        check(ctx) -> bool: extra constraint verified by decode (DecodeError) and encode (ModelError 'domain').
    Union(name, [Record | Union, ...])      alternative chosen by the value's '_' (encode) / by the prefix (decode);
        tags must be prefix-free; at most one alternative with an empty tag (tried last). Generation with budget <= 0
        takes the FIRST alternative: put a non-recursive one first.
    MsgAddressExt, MsgAddressInt, MsgAddress, Anycast, addr_none / addr_extern / addr_std / addr_var (Records)
    BinTree(X)                              example of a parameterised, recursive type (a Python function returning a type)

Functions
    encode(T, v, b=None, ctx=None) -> Bld     append to a builder state (bits + refs); ModelError when it cannot be done
    to_cell(T, v) -> RCell                    a fresh cell holding exactly v
    measure(T, v) -> (bits, refs)             size of v in the current cell, no capacity limit (for capacity arithmetic)
    decode(T, r, ctx=None) -> value           consume from a reader `Rd(cell)`; look at r.rest_bits / r.rest_refs / r.done()
    from_cell(T, cell, exact=True) -> value   decode a whole cell; DecodeError if something is left over
    generate(T, ch, budget=3, fit=True)       random value; `ch` is a chooser (HypChooser(draw) / HashChooser(label) /
                                              FixedChooser('min'|'max')); budget = how many levels of references /
                                              dictionaries may still be opened generously; fit=True retries (smaller budget)
                                              until the value fits one cell
    strip_either(v)      logical value: every {'either':..,'v':x} replaced by x (placement ignored)
    placements(v)        all variants of v with every Either(X,^X) node flipped left/right (2^k values; encode each and
                         keep those that do not raise ModelError to enumerate the valid encodings)
    diff(a, b)           None when equal, else the path of the first difference ('info.value.other.dict[0][1]')
    cell_to_plain(RCell) / plain_to_cell(dict) / plain_hash(dict)      opaque-cell value <-> RCell
    rcell_of(obj)        duck-typed conversion of a foreign cell object (.bits.to01(), .refs, .type_) to RCell
    tag_bits(tag)        '#72' -> '01110010'

Errors
    ModelError(kind, msg)  kind in 'bits-overflow' | 'refs-overflow' | 'domain': the value cannot be laid out (the caller
                           decides what that means);   DecodeError(msg): the cell is not a serialisation of the type.

Builder / reader
    Bld: .put(bits) .ref(RCell) .cell() .nbits .refs .room() -> (bits, refs) left;    Rd(cell): .take(n) .peek(n) .ref()
    .rest_bits .rest_refs .done() .rest() -> (bits, refs)

Extending (tables for the rest of block.tlb): see harness/ref/tlb_msg.py for the style. One Record per constructor, one
Union per type with several constructors, a Python function per parameterised type. `self_check()` (run at import)
pins hand-assembled encodings; add an entry there for every new non-trivial combinator.
"""
import hashlib

from . import refbits as rb
from . import refdict as rd
from .refcell import RCell, RefCellError


# ----------------------------------------------------------------------------------------------------------------
# errors, builder state, reader

class ModelError(Exception):
    def __init__(self, kind, msg=''):
        super().__init__(f'{kind}: {msg}')
        self.kind = kind


class DecodeError(Exception):
    pass


class Bld:
    """builder state: the bits and references of the cell under construction"""
    __slots__ = ('parts', 'nbits', 'refs', 'bounded')

    def __init__(self, bounded=True):
        self.parts = []
        self.nbits = 0
        self.refs = []
        self.bounded = bounded             # False: no 1023-bit / 4-ref limit (only for measuring sizes)

    def put(self, s):
        if self.bounded and self.nbits + len(s) > 1023:
            raise ModelError('bits-overflow', f'{self.nbits} + {len(s)} bits > 1023')
        self.parts.append(s)
        self.nbits += len(s)
        return self

    def ref(self, c):
        if self.bounded and len(self.refs) >= 4:
            raise ModelError('refs-overflow', 'a fifth reference')
        self.refs.append(c)
        return self

    def bits(self):
        return ''.join(self.parts)

    def room(self):
        return 1023 - self.nbits, 4 - len(self.refs)

    def copy(self):
        b = Bld(self.bounded)
        b.parts = list(self.parts)
        b.nbits = self.nbits
        b.refs = list(self.refs)
        return b

    def cell(self, special=False):
        try:
            return RCell(self.bits(), self.refs, special)
        except RefCellError as e:  # cannot happen for ordinary cells (put/ref already check)
            raise ModelError('domain', str(e))


class Rd:
    """reader over an RCell: bit position + reference position"""
    __slots__ = ('cell', 'pos', 'rpos')

    def __init__(self, cell, pos=0, rpos=0):
        self.cell = cell
        self.pos = pos
        self.rpos = rpos

    def take(self, n):
        if n < 0 or self.pos + n > len(self.cell.bits):
            raise DecodeError(f'{n} bits wanted, {len(self.cell.bits) - self.pos} left')
        s = self.cell.bits[self.pos:self.pos + n]
        self.pos += n
        return s

    def peek(self, n):
        return self.cell.bits[self.pos:self.pos + n]

    def ref(self):
        if self.rpos >= len(self.cell.refs):
            raise DecodeError('a reference wanted, none left')
        c = self.cell.refs[self.rpos]
        self.rpos += 1
        return c

    @property
    def rest_bits(self):
        return len(self.cell.bits) - self.pos

    @property
    def rest_refs(self):
        return len(self.cell.refs) - self.rpos

    def rest(self):
        return self.cell.bits[self.pos:], list(self.cell.refs[self.rpos:])

    def done(self):
        return self.rest_bits == 0 and self.rest_refs == 0


class Trk:
    """generation-time size tracker of the cell being generated (b is None once it overflowed: size unknown)"""
    __slots__ = ('b',)

    def __init__(self, b=None, prefill=0):
        self.b = b if b is not None else Bld()
        if prefill:
            self.put('0' * min(prefill, 1023))

    def put(self, s):
        if self.b is not None:
            try:
                self.b.put(s)
            except ModelError:
                self.b = None

    def ref(self):
        if self.b is not None:
            try:
                self.b.ref(EMPTY)
            except ModelError:
                self.b = None

    def apply(self, t, v, ctx):
        if self.b is not None:
            try:
                t.enc(v, self.b, ctx)
            except ModelError:
                self.b = None

    def room(self):
        return None if self.b is None else self.b.room()

    def snapshot(self):
        return None if self.b is None else self.b.copy()


class Ctx(dict):
    """values of the fields of the enclosing record seen so far; missing names are looked up in the enclosing records.
    Use ctx['name'] (not .get). .trk is the size tracker during generation (None otherwise)."""
    __slots__ = ('up', 'trk')

    def __init__(self, up=None, trk=None):
        super().__init__()
        self.up = up
        self.trk = trk

    def __missing__(self, k):
        if self.up is not None:
            return self.up[k]
        raise KeyError(k)


def _res(t, ctx):
    """resolve a field type: a combinator, or a callable of the context returning one"""
    n = 0
    while not isinstance(t, T):
        if not callable(t) or n > 8:
            raise TypeError(f'not a TL-B type: {t!r}')
        t = t(ctx)
        n += 1
    return t


# ----------------------------------------------------------------------------------------------------------------
# choosers: one generator, several sources of choices

class HashChooser:
    """deterministic choices from the SHA-256 stream of a label (for enumerations and self-tests)"""

    def __init__(self, label):
        self.seed = label if isinstance(label, bytes) else str(label).encode()
        self.n = 0

    def _next(self):
        self.n += 1
        return int.from_bytes(hashlib.sha256(self.seed + b'/' + str(self.n).encode()).digest(), 'big')

    def int(self, lo, hi):
        span = hi - lo + 1
        v = self._next()
        for _ in range(span.bit_length() // 192):      # wide ranges: concatenate blocks
            v = (v << 256) | self._next()
        return lo + v % span

    def choice(self, seq):
        return seq[self._next() % len(seq)]

    def bool(self):
        return bool(self._next() & 1)

    def bits(self, n):
        mode = self._next() % 4
        if n == 0:
            return ''
        if mode == 0:
            return '0' * n
        if mode == 1:
            return '1' * n
        out = ''
        while len(out) < n:
            out += format(self._next(), '0256b')
        return out[:n]


class HypChooser:
    """choices drawn from Hypothesis (pass the `draw` of a @st.composite strategy); shrinks towards the first/lowest"""

    def __init__(self, draw):
        self.draw = draw

    def int(self, lo, hi):
        from hypothesis import strategies as st
        return self.draw(st.integers(lo, hi))

    def choice(self, seq):
        from hypothesis import strategies as st
        return self.draw(st.sampled_from(list(seq)))

    def bool(self):
        from hypothesis import strategies as st
        return self.draw(st.booleans())

    def bits(self, n):
        from hypothesis import strategies as st
        if n == 0:
            return ''
        mode = self.draw(st.integers(0, 3))
        if mode == 0:
            return '0' * n
        if mode == 1:
            return '1' * n
        if n <= 64:
            return format(self.draw(st.integers(0, (1 << n) - 1)), f'0{n}b')
        seed = self.draw(st.integers(0, (1 << 32) - 1))
        return expand_bits(n, seed)


class FixedChooser:
    """'min': always the first / lowest choice, 'max': always the last / highest"""

    def __init__(self, mode):
        assert mode in ('min', 'max')
        self.lo = mode == 'min'

    def int(self, lo, hi):
        return lo if self.lo else hi

    def choice(self, seq):
        return seq[0] if self.lo else seq[-1]

    def bool(self):
        return not self.lo

    def bits(self, n):
        return ('0' if self.lo else '1') * n


def expand_bits(n, seed):
    """n pseudo-random bits from an integer seed (SHA-256 counter mode)"""
    out = ''
    ctr = 0
    while len(out) < n:
        out += format(int.from_bytes(hashlib.sha256(b'%d/%d' % (seed, ctr)).digest(), 'big'), '0256b')
        ctr += 1
    return out[:n]


def gen_uint(ch, w, lo=0, hi=None):
    """unsigned integer of w bits (optionally restricted to lo..hi): 0, 1, max, max-1, top bit set, uniform"""
    top = (1 << w) - 1 if w else 0
    hi = top if hi is None else min(hi, top)
    lo = max(lo, 0)
    if lo >= hi:
        return lo
    r = ch.int(0, 9)
    if r < 4:
        v = ch.choice([0, 1, top, top - 1, 1 << (w - 1), (1 << (w - 1)) + 1, (1 << (w - 1)) - 1])
    elif r < 6:
        v = (1 << (w - 1)) | ch.int(0, (1 << (w - 1)) - 1)      # TOP BIT SET: shows signed/unsigned confusion
    else:
        v = ch.int(lo, hi)
    return min(max(v, lo), hi)


def gen_sint(ch, w):
    """signed integer of w bits: 0, 1, -1, min, max, neighbours, negative (top bit set), uniform"""
    lo, hi = -(1 << (w - 1)), (1 << (w - 1)) - 1
    if w == 1:
        return ch.choice([0, -1])
    r = ch.int(0, 9)
    if r < 4:
        return ch.choice([0, 1, -1, lo, hi, lo + 1, hi - 1])
    if r < 6:
        return ch.int(lo, -1)
    return ch.int(lo, hi)


# ----------------------------------------------------------------------------------------------------------------
# opaque cells as plain data

EMPTY = RCell('', (), False)


def cell_to_plain(c):
    return {'bits': c.bits, 'refs': [cell_to_plain(r) for r in c.refs], 'special': bool(c.special)}


def plain_to_cell(d):
    try:
        if not rb.is01(d['bits']):
            raise ModelError('domain', 'cell bits must be a 0/1 string')
        return RCell(d['bits'], [plain_to_cell(r) for r in d.get('refs', ())], bool(d.get('special', False)))
    except RefCellError as e:
        raise ModelError('bits-overflow' if len(d['bits']) > 1023 else 'refs-overflow', str(e))
    except (KeyError, TypeError, IndexError, ValueError) as e:
        raise ModelError('domain', f'not a cell value: {e!r}')


def plain_hash(d):
    return plain_to_cell(d).repr_hash().hex()


def rcell_of(obj):
    """foreign cell object -> RCell, reading only .bits.to01(), .refs and .type_ (-1 = ordinary)"""
    memo = {}

    def conv(o):
        k = id(o)
        if k not in memo:
            memo[k] = RCell(o.bits.to01(), [conv(r) for r in o.refs], getattr(o, 'type_', -1) != -1)
        return memo[k]
    return conv(obj)


def gen_cell(ch, budget, max_bits=1023, max_refs=4):
    nref = 0 if budget <= 0 or max_refs <= 0 else min(max_refs, ch.choice([0, 0, 0, 1, 1, 2, 3, 4]))
    r = ch.int(0, 9)
    if r < 5:
        n = ch.choice([0, 1, 7, 8, 9, 32])
    elif r < 8:
        n = ch.int(0, 80)
    elif r < 9:
        n = ch.choice([1023, 1022, 1016, 256, 255])
    else:
        n = ch.int(0, 1023)
    n = min(n, max_bits)
    return {'bits': ch.bits(n), 'refs': [gen_cell(ch, budget - 1) for _ in range(nref)], 'special': False}


# ----------------------------------------------------------------------------------------------------------------
# combinators

class T:
    """base of all type combinators. enc(v, b, ctx) appends; dec(r, ctx) consumes; make(ch, budget, ctx) draws a value.
    gen = make + record the size on the tracker (composite types override gen and track their own bits)."""
    name = 'T'

    def enc(self, v, b, ctx):
        raise NotImplementedError

    def dec(self, r, ctx):
        raise NotImplementedError

    def make(self, ch, budget, ctx):
        raise NotImplementedError

    def gen(self, ch, budget, ctx):
        v = self.make(ch, budget, ctx)
        if ctx.trk is not None:
            ctx.trk.apply(self, v, ctx)
        return v

    def __repr__(self):
        return self.name


def _isint(v):
    return isinstance(v, int) and not isinstance(v, bool)


class U(T):
    """uintN, (## n); # = U(32)"""

    def __init__(self, n):
        self.n = n
        self.name = f'uint{n}'

    def enc(self, v, b, ctx):
        try:
            s = rb.uint(v, self.n)
        except ValueError as e:
            raise ModelError('domain', str(e))
        b.put(s)

    def dec(self, r, ctx):
        return int(r.take(self.n), 2) if self.n else 0

    def make(self, ch, budget, ctx):
        return gen_uint(ch, self.n)


class I(T):
    """intN (two's complement)"""

    def __init__(self, n):
        self.n = n
        self.name = f'int{n}'

    def enc(self, v, b, ctx):
        try:
            s = rb.sint(v, self.n)
        except ValueError as e:
            raise ModelError('domain', str(e))
        b.put(s)

    def dec(self, r, ctx):
        s = r.take(self.n)
        v = int(s, 2)
        return v - (1 << self.n) if s[0] == '1' else v

    def make(self, ch, budget, ctx):
        return gen_sint(ch, self.n)


class ULe(U):
    """(#<= m): unsigned, bitlen(m) bits, value <= m"""

    def __init__(self, m, lt=False):
        self.m = m - 1 if lt else m
        super().__init__(self.m.bit_length())
        self.name = f'#{"<" if lt else "<="}{m}'

    def enc(self, v, b, ctx):
        if not _isint(v) or not 0 <= v <= self.m:
            raise ModelError('domain', f'{self.name}: {v!r}')
        super().enc(v, b, ctx)

    def dec(self, r, ctx):
        v = super().dec(r, ctx)
        if v > self.m:
            raise DecodeError(f'{self.name}: {v}')
        return v

    def make(self, ch, budget, ctx):
        return gen_uint(ch, self.n, 0, self.m) if ch.int(0, 3) else ch.choice([0, self.m, max(self.m - 1, 0), min(1, self.m)])


def ULt(m):
    """(#< m): unsigned, bitlen(m-1) bits, value < m"""
    return ULe(m, lt=True)


class Range(T):
    """an integer type with a schema constraint lo <= v <= hi ({ flags <= 1 }, { depth >= 1 })"""

    def __init__(self, t, lo, hi):
        self.t, self.lo, self.hi = t, lo, hi
        self.name = f'{t.name}{{{lo}..{hi}}}'

    def enc(self, v, b, ctx):
        if not _isint(v) or not self.lo <= v <= self.hi:
            raise ModelError('domain', f'{self.name}: {v!r}')
        self.t.enc(v, b, ctx)

    def dec(self, r, ctx):
        v = self.t.dec(r, ctx)
        if not self.lo <= v <= self.hi:
            raise DecodeError(f'{self.name}: {v}')
        return v

    def make(self, ch, budget, ctx):
        return ch.choice([self.lo, self.hi, ch.int(self.lo, self.hi), ch.int(self.lo, self.hi)])


class Const(T):
    """a field whose value is fixed by the schema ({ flags = 0 })"""

    def __init__(self, t, value):
        self.t, self.value = t, value
        self.name = f'{t.name}={value}'

    def enc(self, v, b, ctx):
        if v != self.value:
            raise ModelError('domain', f'{self.name}: {v!r}')
        self.t.enc(v, b, ctx)

    def dec(self, r, ctx):
        v = self.t.dec(r, ctx)
        if v != self.value:
            raise DecodeError(f'{self.name}: {v!r}')
        return v

    def make(self, ch, budget, ctx):
        return self.value


class Bits(T):
    """bits n / (n * Bit): value is a '0'/'1' string of exactly n characters"""

    def __init__(self, n):
        self.n = n
        self.name = f'bits{n}'

    def enc(self, v, b, ctx):
        if not rb.is01(v) or len(v) != self.n:
            raise ModelError('domain', f'{self.name}: {v!r:.40}')
        b.put(v)

    def dec(self, r, ctx):
        return r.take(self.n)

    def make(self, ch, budget, ctx):
        return ch.bits(self.n)


class Bytes(T):
    """bits (8k) seen as k bytes: value is a hex string (bits256 = Bytes(32))"""

    def __init__(self, k):
        self.k = k
        self.name = f'bits{8 * k}'

    def enc(self, v, b, ctx):
        try:
            raw = bytes.fromhex(v)
        except (ValueError, TypeError):
            raise ModelError('domain', f'{self.name}: {v!r:.40}')
        if len(raw) != self.k:
            raise ModelError('domain', f'{self.name}: {len(raw)} bytes')
        b.put(rb.from_bytes(raw))

    def dec(self, r, ctx):
        return rb.to_bytes(r.take(8 * self.k)).hex()

    def make(self, ch, budget, ctx):
        return rb.to_bytes(ch.bits(8 * self.k)).hex()


class _Bool(T):
    name = 'Bool'

    def enc(self, v, b, ctx):
        if v not in (True, False):
            raise ModelError('domain', f'Bool: {v!r}')
        b.put('1' if v else '0')

    def dec(self, r, ctx):
        return r.take(1) == '1'

    def make(self, ch, budget, ctx):
        return ch.bool()


Bool = _Bool()


class VarU(T):
    """VarUInteger n: len:(#< n) value:(uint (len * 8)); the writer uses the minimal len, the reader accepts any"""
    signed = False

    def __init__(self, n):
        self.n = n
        self.w = (n - 1).bit_length()
        self.name = f'{"VarInteger" if self.signed else "VarUInteger"} {n}'

    def enc(self, v, b, ctx):
        try:
            ln = rb.var_int_len(v) if self.signed else rb.var_uint_len(v)
            if ln >= self.n:
                raise ValueError(f'{v} needs {ln} bytes, len:(#< {self.n})')
            s = rb.uint(ln, self.w) + ((rb.sint(v, 8 * ln) if ln else '') if self.signed else rb.uint(v, 8 * ln))
        except ValueError as e:
            raise ModelError('domain', f'{self.name}: {e}')
        b.put(s)

    def dec(self, r, ctx):
        ln = int(r.take(self.w), 2) if self.w else 0
        if ln >= self.n:
            raise DecodeError(f'{self.name}: len {ln}')
        if ln == 0:
            return 0
        s = r.take(8 * ln)
        v = int(s, 2)
        return v - (1 << (8 * ln)) if self.signed and s[0] == '1' else v

    def make(self, ch, budget, ctx):
        """0, 1, 2^(8k)-1, 2^(8k-1) (top bit of k bytes), largest, uniform of a random byte length"""
        mx = self.n - 1                      # largest byte count
        if mx <= 0:
            return 0
        r = ch.int(0, 9)
        k = ch.int(1, mx)
        if self.signed:
            lo, hi = -(1 << (8 * k - 1)), (1 << (8 * k - 1)) - 1
            if r < 2:
                return ch.choice([0, 1, -1])
            if r < 5:
                return ch.choice([lo, hi, lo + 1, hi - 1, -(1 << (8 * mx - 1)), (1 << (8 * mx - 1)) - 1])
            return ch.int(lo, hi)
        if r < 2:
            return ch.choice([0, 1])
        if r < 4:
            return (1 << (8 * k)) - 1
        if r < 5:
            return 1 << (8 * k - 1)
        if r < 7:
            return ch.choice([(1 << (8 * mx)) - 1, (1 << (8 * mx)) - 2, 1 << (8 * mx - 1)])
        return ch.int(0, (1 << (8 * k)) - 1)


class VarI(VarU):
    """VarInteger n: len:(#< n) value:(int (len * 8))"""
    signed = True


Grams = VarU(16)


class Maybe(T):
    def __init__(self, t):
        self.t = t
        self.name = 'Maybe'

    def enc(self, v, b, ctx):
        if v is None:
            b.put('0')
        else:
            b.put('1')
            _res(self.t, ctx).enc(v, b, ctx)

    def dec(self, r, ctx):
        if r.take(1) == '0':
            return None
        return _res(self.t, ctx).dec(r, ctx)

    def gen(self, ch, budget, ctx):
        present = budget > 0 and ch.bool()
        if ctx.trk is not None:
            ctx.trk.put('1' if present else '0')
        return _res(self.t, ctx).gen(ch, budget, ctx) if present else None


class Either(T):
    """Either L R; value {'either': 'left'|'right', 'v': value}"""

    def __init__(self, l, r):
        self.l, self.r = l, r
        self.name = 'Either'

    def _side(self, v):
        try:
            side = v['either']
            if side not in ('left', 'right'):
                raise KeyError(side)
            return side, v['v']
        except (KeyError, TypeError) as e:
            raise ModelError('domain', f'Either value expected: {e!r}')

    def enc(self, v, b, ctx):
        side, x = self._side(v)
        b.put('0' if side == 'left' else '1')
        _res(self.l if side == 'left' else self.r, ctx).enc(x, b, ctx)

    def dec(self, r, ctx):
        if r.take(1) == '0':
            return {'either': 'left', 'v': _res(self.l, ctx).dec(r, ctx)}
        return {'either': 'right', 'v': _res(self.r, ctx).dec(r, ctx)}

    def gen(self, ch, budget, ctx):
        trk = ctx.trk
        if ch.choice(['left', 'right']) == 'left':
            snap = trk.snapshot() if trk is not None else None
            if trk is not None:
                trk.put('0')
            v = _res(self.l, ctx).gen(ch, budget, ctx)
            if trk is None or snap is None or trk.b is not None:
                return {'either': 'left', 'v': v}
            trk.b = snap                       # did not fit inline: generate the other alternative instead
        if trk is not None:
            trk.put('1')
        return {'either': 'right', 'v': _res(self.r, ctx).gen(ch, budget, ctx)}


class Ref(T):
    """^T : a reference to a cell that holds exactly T"""

    def __init__(self, t, exotic_ok=False):
        self.t = t
        self.exotic_ok = exotic_ok
        self.name = '^'

    def enc(self, v, b, ctx):
        if self.exotic_ok and isinstance(v, dict) and 'exotic' in v:
            b.ref(plain_to_cell(v['exotic']))
            return
        nb = Bld()
        _res(self.t, ctx).enc(v, nb, Ctx(ctx))
        b.ref(nb.cell())

    def dec(self, r, ctx):
        c = r.ref()
        t = _res(self.t, ctx)
        if c.special and not isinstance(t, (_AnyRest,)):
            if self.exotic_ok:
                return {'exotic': cell_to_plain(c)}
            raise DecodeError('exotic cell where ^T was expected')
        sub = Rd(c)
        v = t.dec(sub, Ctx(ctx))
        if not sub.done():
            raise DecodeError(f'^{t.name}: {sub.rest_bits} bits / {sub.rest_refs} refs left over in the referenced cell')
        return v

    def gen(self, ch, budget, ctx):
        if ctx.trk is not None:
            ctx.trk.ref()
        return _res(self.t, ctx).gen(ch, budget - 1, Ctx(ctx, Trk()))


class _RefCell(T):
    """^Cell: a reference to an arbitrary cell (value = the opaque cell)"""
    name = '^Cell'

    def enc(self, v, b, ctx):
        b.ref(plain_to_cell(v))

    def dec(self, r, ctx):
        return cell_to_plain(r.ref())

    def make(self, ch, budget, ctx):
        return gen_cell(ch, budget - 1)


RefCell = _RefCell()


class _AnyRest(T):
    """Any / Cell (inline): the remainder of the current cell, bits and references"""
    name = 'Any'

    def enc(self, v, b, ctx):
        try:
            bits, refs = v['bits'], v.get('refs', ())
        except (KeyError, TypeError, AttributeError) as e:
            raise ModelError('domain', f'cell value expected: {e!r}')
        if not rb.is01(bits):
            raise ModelError('domain', 'cell bits must be a 0/1 string')
        if v.get('special'):
            raise ModelError('domain', 'an exotic cell cannot be stored inline')
        b.put(bits)
        for c in refs:
            b.ref(plain_to_cell(c))

    def dec(self, r, ctx):
        bits, refs = r.rest()
        special = bool(r.cell.special) and r.pos == 0 and r.rpos == 0
        r.pos = len(r.cell.bits)
        r.rpos = len(r.cell.refs)
        return {'bits': bits, 'refs': [cell_to_plain(c) for c in refs], 'special': special}

    def make(self, ch, budget, ctx):
        room = ctx.trk.room() if ctx.trk is not None else None
        if room is None:
            return gen_cell(ch, min(budget, 1), 64, 1)
        mb, mr = room
        n = ch.choice([0, mb, max(mb - 1, 0), min(1, mb), ch.int(0, mb), ch.int(0, min(mb, 64))])
        nr = ch.choice([0, mr, ch.int(0, mr)])
        return {'bits': ch.bits(n), 'refs': [gen_cell(ch, budget - 1) for _ in range(nr)], 'special': False}


AnyRest = _AnyRest()


def EitherRef(x):
    """Either X ^X"""
    return Either(x, Ref(x))


class Cond(T):
    """cond?T : T when pred(ctx) is true, else nothing (value None)"""

    def __init__(self, pred, t):
        self.pred, self.t = pred, t
        self.name = '?'

    def enc(self, v, b, ctx):
        if self.pred(ctx):
            _res(self.t, ctx).enc(v, b, ctx)
        elif v is not None:
            raise ModelError('domain', 'a value for a conditional field whose condition is false')

    def dec(self, r, ctx):
        return _res(self.t, ctx).dec(r, ctx) if self.pred(ctx) else None

    def gen(self, ch, budget, ctx):
        return _res(self.t, ctx).gen(ch, budget, ctx) if self.pred(ctx) else None


def tag_bits(tag):
    """'' / '$_' / '#_' -> '';  '$0110' / '0110' -> '0110';  '#9bc7a987' -> 32 bits;  '#4a_' -> hex without completion tag"""
    if tag in ('', '$_', '#_', '_'):
        return ''
    if tag.startswith('$'):
        tag = tag[1:]
    if tag.startswith('#'):
        h = tag[1:]
        cut = h.endswith('_')
        if cut:
            h = h[:-1]
        s = ''.join(format(int(c, 16), '04b') for c in h)
        if cut:
            s = s.rstrip('0')[:-1]
        return s
    if not rb.is01(tag):
        raise ValueError(f'bad constructor tag {tag!r}')
    return tag


class Record(T):
    """one constructor: constant prefix + ordered fields. Value {'_': name, field: value...} (no '_' when name is '')."""

    def __init__(self, name, tag, fields, check=None):
        self.name = name
        self.tag = tag_bits(tag)
        self.fields = list(fields)
        self.check = check

    def field_names(self):
        out = []
        for fn, ft in self.fields:
            if fn is not None:
                out.append(fn)
            else:
                t = ft
                while isinstance(t, Ref):
                    t = t.t
                if isinstance(t, Record):
                    out.extend(t.field_names())
        return out

    def enc(self, v, b, ctx):
        if not isinstance(v, dict):
            raise ModelError('domain', f'{self.name}: record value expected, got {type(v).__name__}')
        if self.name and v.get('_') != self.name:
            raise ModelError('domain', f'constructor {self.name} expected, value is {v.get("_")!r}')
        b.put(self.tag)
        c = Ctx(ctx, ctx.trk if ctx is not None else None)
        for fn, ft in self.fields:
            t = _res(ft, c)
            try:
                if fn is None:
                    t.enc(v, b, c)
                    for k, x in v.items():
                        c.setdefault(k, x)
                else:
                    if fn not in v:
                        raise ModelError('domain', f'{self.name}: field {fn} missing')
                    t.enc(v[fn], b, c)
                    c[fn] = v[fn]
            except KeyError as e:
                raise ModelError('domain', f'{self.name}.{fn}: context value {e} missing')
        if self.check is not None and not self.check(c):
            raise ModelError('domain', f'{self.name}: schema constraint violated')

    def dec(self, r, ctx):
        if r.take(len(self.tag)) != self.tag:
            raise DecodeError(f'{self.name}: constructor prefix {self.tag} expected')
        out = {'_': self.name} if self.name else {}
        c = Ctx(ctx)
        for fn, ft in self.fields:
            try:
                t = _res(ft, c)
                x = t.dec(r, c)
            except DecodeError as e:
                raise DecodeError(f'{self.name}.{fn or "^[]"}: {e}') from None
            if fn is None:
                out.update(x)
                c.update(x)
            else:
                out[fn] = x
                c[fn] = x
        if self.check is not None and not self.check(c):
            raise DecodeError(f'{self.name}: schema constraint violated')
        return out

    def gen(self, ch, budget, ctx):
        if ctx.trk is not None:
            ctx.trk.put(self.tag)
        for _ in range(16):
            out = {'_': self.name} if self.name else {}
            c = Ctx(ctx, ctx.trk)
            snap = ctx.trk.snapshot() if (ctx.trk is not None and self.check is not None) else None
            for fn, ft in self.fields:
                x = _res(ft, c).gen(ch, budget, c)
                if fn is None:
                    out.update(x)
                    c.update(x)
                else:
                    out[fn] = x
                    c[fn] = x
            if self.check is None or self.check(c):
                return out
            if snap is not None:
                ctx.trk.b = snap
        raise ModelError('domain', f'{self.name}: could not generate a value satisfying the schema constraint')


class Union(T):
    """a type with several constructors"""

    def __init__(self, name, alts):
        self.name = name
        self.alts = []
        for a in alts:
            if isinstance(a, Union):
                self.alts.extend(a.alts)
            elif isinstance(a, Record):
                self.alts.append(a)
            else:
                raise TypeError('Union alternatives must be Records or Unions')
        self.by_name = {a.name: a for a in self.alts}
        if len(self.by_name) != len(self.alts):
            raise ValueError(f'{name}: duplicate constructor names')
        self.order = sorted(self.alts, key=lambda a: -len(a.tag))
        for i, a in enumerate(self.order):
            for o in self.order[i + 1:]:
                if a.tag.startswith(o.tag) and o.tag != '':
                    raise ValueError(f'{name}: constructor prefixes {o.tag} / {a.tag} are not prefix-free')
        if sum(1 for a in self.alts if a.tag == '') > 1:
            raise ValueError(f'{name}: more than one constructor without a prefix')

    def enc(self, v, b, ctx):
        try:
            alt = self.by_name[v['_']]
        except (KeyError, TypeError):
            raise ModelError('domain', f'{self.name}: unknown constructor in {str(v)[:60]}')
        alt.enc(v, b, ctx)

    def dec(self, r, ctx):
        for a in self.order:
            if r.peek(len(a.tag)) == a.tag:
                return a.dec(r, ctx)
        raise DecodeError(f'{self.name}: no constructor matches prefix {r.peek(8)}…')

    def gen(self, ch, budget, ctx):
        alt = self.alts[0] if budget <= 0 else ch.choice(self.alts)
        return alt.gen(ch, budget, ctx)


# ----------------------------------------------------------------------------------------------------------------
# dictionaries

class _Dict(T):
    """Hashmap family. aug: leaf = extra:Y value:X, fork = left right extra:Y (block.tlb ahmn_leaf / ahmn_fork).
    root: 'E' -> one bit + optional reference (hme_empty$0 / hme_root$1; ahme_* carry extra:Y after it),
          'inline' -> the root edge (label, then leaf value or two references) is laid out in the current cell."""

    def __init__(self, n, x, y=None, root='E', fork_extra=None, counts=(0, 0, 1, 1, 2, 3), pruned_ok=False):
        self.n, self.x, self.y, self.root = n, x, y, root
        self.fork_extra = fork_extra or (lambda extras: extras[0])
        self.counts = counts
        self.pruned_ok = pruned_ok
        self.name = f'Hashmap{"Aug" if y is not None else ""}{"E" if root == "E" else ""} {n}'

    # -- value shape
    def _items(self, v):
        if self.y is not None and self.root == 'E':
            if not isinstance(v, dict) or 'items' not in v or 'extra' not in v:
                raise ModelError('domain', f'{self.name}: {{extra, items}} expected')
            return v['items']
        return v

    def _root_cell(self, items, ctx):
        mapping, extras = {}, {}
        try:
            for k, val in items:
                key = rb.uint(k, self.n)
                if key in mapping:
                    raise ModelError('domain', f'{self.name}: duplicate key {k}')
                vb = Bld()
                c = Ctx(ctx)
                if self.y is not None:
                    eb = Bld()
                    _res(self.y, c).enc(val['extra'], eb, c)
                    extras[key] = (val['extra'], eb.bits(), eb.refs)
                    _res(self.x, c).enc(val['value'], vb, c)
                else:
                    _res(self.x, c).enc(val, vb, c)
                mapping[key] = (vb.bits(), vb.refs)
        except (ValueError, TypeError, KeyError) as e:
            raise ModelError('domain', f'{self.name}: bad item ({e!r})')
        extra_of = None
        if self.y is not None:
            def extra_of(keys_below, is_leaf, path):
                if is_leaf:
                    return extras[keys_below[0]][1], extras[keys_below[0]][2]
                ev = self.fork_extra([extras[k][0] for k in sorted(keys_below)])
                eb = Bld()
                _res(self.y, ctx).enc(ev, eb, Ctx(ctx))
                return eb.bits(), eb.refs
        try:
            return rd.build(mapping, self.n, extra_of=extra_of)
        except RefCellError as e:
            raise ModelError('bits-overflow', f'{self.name}: a dictionary node does not fit a cell ({e})')

    def enc(self, v, b, ctx):
        items = self._items(v)
        if not isinstance(items, (list, tuple)):
            raise ModelError('domain', f'{self.name}: list of [key, value] expected')
        if self.root == 'E':
            if items:
                b.put('1')
                b.ref(self._root_cell(items, ctx))
            else:
                b.put('0')
            if self.y is not None:
                _res(self.y, ctx).enc(v['extra'], b, ctx)
        else:
            if not items:
                raise ModelError('domain', f'{self.name}: a Hashmap without the E cannot be empty')
            c = self._root_cell(items, ctx)
            b.put(c.bits)
            for x in c.refs:
                b.ref(x)

    # -- decoding
    def _edge(self, r, n, prefix, out, ctx, inline):
        if r.cell.special and not inline:
            if self.pruned_ok:
                return
            raise DecodeError(f'{self.name}: exotic cell inside the dictionary')
        try:
            label, pos, _kind = rd.read_label(r.cell.bits, r.pos, n)
        except (IndexError, ValueError, rd.DictFormatError) as e:
            raise DecodeError(f'{self.name}: bad label ({e!r})')
        if pos > len(r.cell.bits) or len(label) > n:
            raise DecodeError(f'{self.name}: label runs past the end of the cell')
        r.pos = pos
        m = n - len(label)
        c = Ctx(ctx)
        if m == 0:
            key = int(prefix + label, 2) if (prefix + label) else 0
            if self.y is not None:
                e = _res(self.y, c).dec(r, c)
                out.append([key, {'extra': e, 'value': _res(self.x, c).dec(r, c)}])
            else:
                out.append([key, _res(self.x, c).dec(r, c)])
        else:
            left, right = r.ref(), r.ref()
            for bit, ch in (('0', left), ('1', right)):
                sub = Rd(ch)
                self._edge(sub, m - 1, prefix + label + bit, out, ctx, False)
                if not (ch.special and self.pruned_ok) and not sub.done():
                    raise DecodeError(f'{self.name}: {sub.rest_bits} bits / {sub.rest_refs} refs left over in a node')
            if self.y is not None:
                _res(self.y, c).dec(r, c)            # fork extra: must parse, value not returned

    def dec(self, r, ctx):
        out = []
        if self.root == 'E':
            if r.take(1) == '1':
                rc = r.ref()
                sub = Rd(rc)
                self._edge(sub, self.n, '', out, ctx, False)
                if not (rc.special and self.pruned_ok) and not sub.done():
                    raise DecodeError(f'{self.name}: {sub.rest_bits} bits / {sub.rest_refs} refs left over in the root')
            if self.y is not None:
                return {'extra': _res(self.y, ctx).dec(r, ctx), 'items': out}
            return out
        self._edge(r, self.n, '', out, ctx, True)
        return out

    # -- generation
    def make(self, ch, budget, ctx):
        if budget <= 0:
            cnt = 0 if self.root == 'E' else 1
        else:
            cnt = ch.choice(self.counts)
            if self.root != 'E':
                cnt = max(cnt, 1)
        cnt = min(cnt, 1 << min(self.n, 8))
        keys = []
        while len(keys) < cnt:
            k = gen_uint(ch, self.n) if self.n else 0
            while k in keys:
                k = (k + 1) % (1 << self.n)
            keys.append(k)
        items = []
        for k in sorted(keys):
            c = Ctx(ctx, Trk(prefill=2 + rd.klen(self.n) + self.n))
            if self.y is not None:
                e = _res(self.y, c).gen(ch, budget - 1, c)
                items.append([k, {'extra': e, 'value': _res(self.x, c).gen(ch, budget - 1, c)}])
            else:
                items.append([k, _res(self.x, c).gen(ch, budget - 1, c)])
        if self.y is not None and self.root == 'E':
            c = Ctx(ctx, Trk())
            return {'extra': _res(self.y, c).gen(ch, budget - 1, c), 'items': items}
        return items


def HashmapE(n, v, **kw):
    """hme_empty$0 / hme_root$1 root:^(Hashmap n X)"""
    return _Dict(n, v, None, 'E', **kw)


def Hashmap(n, v, **kw):
    """Hashmap n X with the root edge inline (never empty)"""
    return _Dict(n, v, None, 'inline', **kw)


def HashmapAugE(n, x, y, fork_extra=None, **kw):
    """ahme_empty$0 extra:Y / ahme_root$1 root:^(HashmapAug n X Y) extra:Y"""
    return _Dict(n, x, y, 'E', fork_extra=fork_extra, **kw)


def HashmapAug(n, x, y, fork_extra=None, **kw):
    """HashmapAug n X Y with the root edge inline (never empty)"""
    return _Dict(n, x, y, 'inline', fork_extra=fork_extra, **kw)


# ----------------------------------------------------------------------------------------------------------------
# addresses (block.tlb)

Anycast = Record('anycast_info', '', [('depth', Range(ULe(30), 1, 30)), ('rewrite_pfx', lambda c: Bits(c['depth']))])
addr_none = Record('addr_none', '00', [])
addr_extern = Record('addr_extern', '01', [('len', U(9)), ('external_address', lambda c: Bits(c['len']))])
addr_std = Record('addr_std', '10', [('anycast', Maybe(Anycast)), ('workchain_id', I(8)), ('address', Bytes(32))])
addr_var = Record('addr_var', '11', [('anycast', Maybe(Anycast)), ('addr_len', U(9)), ('workchain_id', I(32)),
                                     ('address', lambda c: Bits(c['addr_len']))])
MsgAddressExt = Union('MsgAddressExt', [addr_none, addr_extern])
MsgAddressInt = Union('MsgAddressInt', [addr_std, addr_var])
MsgAddress = Union('MsgAddress', [MsgAddressInt, MsgAddressExt])


def BinTree(x):
    """bt_leaf$0 leaf:X / bt_fork$1 left:^(BinTree X) right:^(BinTree X)"""
    box = []
    t = Union('BinTree', [Record('bt_leaf', '0', [('leaf', x)]),
                          Record('bt_fork', '1', [('left', Ref(lambda c: box[0])), ('right', Ref(lambda c: box[0]))])])
    box.append(t)
    return t


# ----------------------------------------------------------------------------------------------------------------
# generic functions

def encode(t, v, b=None, ctx=None):
    b = b if b is not None else Bld()
    _res(t, ctx or Ctx()).enc(v, b, ctx if ctx is not None else Ctx())
    return b


def to_cell(t, v):
    return encode(t, v).cell()


def measure(t, v):
    """(bits, refs) that v occupies in the current cell, without the 1023-bit / 4-ref limit"""
    b = encode(t, v, Bld(bounded=False))
    return b.nbits, len(b.refs)


def decode(t, r, ctx=None):
    ctx = ctx if ctx is not None else Ctx()
    return _res(t, ctx).dec(r, ctx)


def from_cell(t, cell, exact=True):
    r = Rd(cell)
    v = decode(t, r)
    if exact and not r.done():
        raise DecodeError(f'{r.rest_bits} bits / {r.rest_refs} refs left over after {_res(t, Ctx()).name}')
    return v


def generate(t, ch, budget=3, fit=True, tries=8):
    """a random value of t. fit=True: regenerate with a smaller budget until the value can be laid out in one cell"""
    last = None
    for i in range(tries):
        ctx = Ctx(None, Trk())
        v = _res(t, ctx).gen(ch, max(budget - i, 0), ctx)
        if not fit:
            return v
        try:
            to_cell(t, v)
            return v
        except ModelError as e:
            if e.kind == 'domain':
                raise
            last = e
    raise ModelError(last.kind if last else 'domain', f'generate: no fitting value in {tries} tries ({last})')


def strip_either(v):
    """logical value: Either placement removed"""
    if isinstance(v, dict):
        if set(v) == {'either', 'v'}:
            return strip_either(v['v'])
        return {k: strip_either(x) for k, x in v.items()}
    if isinstance(v, list):
        return [strip_either(x) for x in v]
    return v


def placements(v):
    """all variants of v with each Either node set to left / right (only meaningful for Either X ^X)"""
    if isinstance(v, dict):
        if set(v) == {'either', 'v'}:
            for x in placements(v['v']):
                yield {'either': 'left', 'v': x}
                yield {'either': 'right', 'v': x}
            return
        keys = list(v)
        if set(keys) >= {'bits', 'refs'} and len(keys) <= 3:
            yield v                                    # opaque cell: no Either inside
            return

        def rec(i):
            if i == len(keys):
                yield {}
                return
            for x in placements(v[keys[i]]):
                for rest in rec(i + 1):
                    d = {keys[i]: x}
                    d.update(rest)
                    yield d
        for d in rec(0):
            yield {k: d[k] for k in keys}
        return
    if isinstance(v, list):
        def recl(i):
            if i == len(v):
                yield []
                return
            for x in placements(v[i]):
                for rest in recl(i + 1):
                    yield [x] + rest
        yield from recl(0)
        return
    yield v


def diff(a, b, path=''):
    """None when the two plain values are equal, else the path of the first difference"""
    if isinstance(a, dict) and isinstance(b, dict):
        for k in list(a) + [k for k in b if k not in a]:
            p = f'{path}.{k}' if path else str(k)
            if k not in a or k not in b:
                return p
            d = diff(a[k], b[k], p)
            if d is not None:
                return d
        return None
    if isinstance(a, (list, tuple)) and isinstance(b, (list, tuple)):
        if len(a) != len(b):
            return f'{path}[len]'
        for i, (x, y) in enumerate(zip(a, b)):
            d = diff(x, y, f'{path}[{i}]')
            if d is not None:
                return d
        return None
    if isinstance(a, bool) != isinstance(b, bool) and not (a in (0, 1) and b in (0, 1)):
        return path or '.'
    if type(a) is not type(b) and not (isinstance(a, int) and isinstance(b, int)):
        return path or '.'
    return None if a == b else (path or '.')


# ----------------------------------------------------------------------------------------------------------------
# self test: hand-assembled encodings (derived from block.tlb by hand, NOT by running the encoder)

def self_check():
    def rt(t, v, bits, nrefs=0):
        c = to_cell(t, v)
        assert c.bits == bits, f'{_res(t, Ctx()).name}: encoded\n {c.bits}\nexpected\n {bits}'
        assert len(c.refs) == nrefs, f'{_res(t, Ctx()).name}: {len(c.refs)} refs, expected {nrefs}'
        back = from_cell(t, c)
        assert diff(back, v) is None, f'{_res(t, Ctx()).name}: decode differs at {diff(back, v)}: {back} vs {v}'
        return c

    assert tag_bits('#72') == '01110010' and tag_bits('$_') == '' and tag_bits('#b') == '1011'
    assert tag_bits('#4a_') == '010010'      # 0100 1010 -> drop the trailing zeros and the completion bit
    assert tag_bits('#9bc7a987') == format(0x9bc7a987, '032b') and tag_bits('$0111') == '0111' and tag_bits('#c_') == '1'
    # nanograms$_ amount:(VarUInteger 16): len:(#< 16) is 4 bits; 10^9 = 0x3B9ACA00 needs 4 bytes
    one_ton = '0100' + '00111011' + '10011010' + '11001010' + '00000000'
    rt(Grams, 0, '0000')
    rt(Grams, 10 ** 9, one_ton)
    rt(Grams, (1 << 120) - 1, '1111' + '1' * 120)
    # VarUInteger 32: len:(#< 32) is 5 bits; VarUInteger 7: 3 bits; VarInteger: two's complement of len bytes
    rt(VarU(32), 256, '00010' + '00000001' + '00000000')
    rt(VarU(7), 255, '001' + '11111111')
    rt(VarI(16), -129, '0010' + '11111111' + '01111111')
    rt(VarI(16), 128, '0010' + '00000000' + '10000000')
    rt(ULe(30), 30, '11110')                 # #<= 30 : 5 bits
    rt(ULt(16), 15, '1111')                  # #< 16  : 4 bits
    rt(ULe(96), 96, '1100000')               # #<= 96 : 7 bits
    rt(I(8), -1, '11111111')
    rt(U(64), 1 << 63, '1' + '0' * 63)
    # addresses
    rt(MsgAddressExt, {'_': 'addr_none'}, '00')
    rt(MsgAddressExt, {'_': 'addr_extern', 'len': 3, 'external_address': '101'}, '01' + '000000011' + '101')
    a_src = {'_': 'addr_std', 'anycast': None, 'workchain_id': 0, 'address': '00' * 31 + '01'}
    a_dst = {'_': 'addr_std', 'anycast': {'_': 'anycast_info', 'depth': 3, 'rewrite_pfx': '101'}, 'workchain_id': -1,
             'address': 'ff' * 32}
    s_src = '10' + '0' + '00000000' + '0' * 255 + '1'
    s_dst = '10' + '1' + '00011' + '101' + '11111111' + '1' * 256
    rt(MsgAddressInt, a_src, s_src)
    rt(MsgAddress, a_dst, s_dst)
    rt(MsgAddressInt, {'_': 'addr_var', 'anycast': None, 'addr_len': 5, 'workchain_id': -2, 'address': '10001'},
       '11' + '0' + '000000101' + '1' * 31 + '0' + '10001')
    # HashmapE 32 (VarUInteger 32) with keys 1 -> 5 and 0x80000000 -> 256:
    #  root edge: the keys differ in the first bit, empty label, max length 32 -> hml_short$0 + unary 0 = '00'; fork
    #  left  (31 bits left, '0'*30+'1'): not uniform, 5 = bitlen(31) < 31 -> hml_long$10 n=11111 s=label; value len=1
    #  right (31 bits left, all zero):   uniform, 31 > 1, 5 < 2*31-1     -> hml_same$11 v=0 n=11111;      value len=2
    d = [[1, 5], [0x80000000, 256]]
    t_ecc = HashmapE(32, VarU(32))
    c = rt(t_ecc, d, '1', 1)
    root = c.refs[0]
    assert root.bits == '00' and len(root.refs) == 2
    assert root.refs[0].bits == '10' + '11111' + '0' * 30 + '1' + '00001' + '00000101'
    assert root.refs[1].bits == '11' + '0' + '11111' + '00010' + '00000001' + '00000000'
    rt(t_ecc, [], '0')
    # the same dictionary with its root inline (Hashmap 32 ...): '00' and the two references in the current cell
    c = rt(Hashmap(32, VarU(32)), d, '00', 2)
    assert c.refs[0].bits == root.refs[0].bits
    # single entry, inline root: label = the whole key. key 5 of 4 bits '0101': bitlen(4)=3 < 4 -> hml_long$10 n=100
    rt(Hashmap(4, U(8)), [[5, 255]], '10' + '100' + '0101' + '11111111')
    # HashmapAugE 2 uint4 uint3 (ahmn_leaf: extra then value; ahmn_fork: refs then extra; ahme_root: ref then extra)
    #  keys 0 ('00') and 1 ('01'): root label '0' (max 2: bitlen 2 = 2 >= 1 -> hml_short '0' '10' '0'), fork, extra
    #  leaves: no key bits left -> hml_short of length 0 = '00', then extra, then value
    t_aug = HashmapAugE(2, U(4), U(3), fork_extra=lambda ex: sum(ex) % 8)
    va = {'extra': 7, 'items': [[0, {'extra': 1, 'value': 9}], [1, {'extra': 2, 'value': 10}]]}
    c = rt(t_aug, va, '1' + '111', 1)
    assert c.refs[0].bits == '0' + '10' + '0' + '011' and len(c.refs[0].refs) == 2
    assert c.refs[0].refs[0].bits == '00' + '001' + '1001' and c.refs[0].refs[1].bits == '00' + '010' + '1010'
    rt(t_aug, {'extra': 0, 'items': []}, '0' + '000')
    # conditional fields and a parameterised type
    def prev(n):
        return Record('prev_blk_info', '', [('p', U(8))]) if n == 0 else \
            Record('prev_blks_info', '', [('p1', Ref(U(8))), ('p2', Ref(U(8)))])
    t_c = Record('demo', '#b', [('flags', Range(U(2), 0, 3)), ('merge', U(1)),
                                ('a', Cond(lambda c: c['flags'] & 1, U(8))),
                                (None, Ref(Record('', '', [('g', U(4)), ('h', Cond(lambda c: c['flags'] & 2, Bool))]))),
                                ('prev', lambda c: Ref(prev(c['merge'])))])
    c = rt(t_c, {'_': 'demo', 'flags': 1, 'merge': 0, 'a': 200, 'g': 15, 'h': None, 'prev': {'_': 'prev_blk_info', 'p': 1}},
           '1011' + '01' + '0' + '11001000', 2)
    assert c.refs[0].bits == '1111' and c.refs[1].bits == '00000001'
    c = rt(t_c, {'_': 'demo', 'flags': 2, 'merge': 1, 'a': None, 'g': 0, 'h': True,
                 'prev': {'_': 'prev_blks_info', 'p1': 1, 'p2': 2}}, '1011' + '10' + '1', 2)
    assert c.refs[0].bits == '0000' + '1' and [x.bits for x in c.refs[1].refs] == ['00000001', '00000010']
    # BinTree
    bt = BinTree(U(2))
    c = rt(bt, {'_': 'bt_fork', 'left': {'_': 'bt_leaf', 'leaf': 3}, 'right': {'_': 'bt_leaf', 'leaf': 0}}, '1', 2)
    assert [x.bits for x in c.refs] == ['011', '000']
    # Either / Any / ^Cell
    t_e = Record('e', '', [('x', Maybe(RefCell)), ('body', EitherRef(AnyRest))])
    leaf = {'bits': '1', 'refs': [], 'special': False}
    body = {'bits': '1011', 'refs': [leaf], 'special': False}
    c = rt(t_e, {'_': 'e', 'x': leaf, 'body': {'either': 'left', 'v': body}}, '1' + '0' + '1011', 2)
    c = rt(t_e, {'_': 'e', 'x': None, 'body': {'either': 'right', 'v': body}}, '0' + '1', 1)
    assert c.refs[0].bits == '1011' and c.refs[0].refs[0].bits == '1'
    assert len(list(placements({'a': {'either': 'left', 'v': 1}, 'b': [{'either': 'right', 'v': body}]}))) == 4
    assert strip_either({'a': {'either': 'left', 'v': {'either': 'right', 'v': 5}}}) == {'a': 5}
    # overflow is reported, not hidden
    for bad, kind in (((Bits(1023), '1' * 1023, Bits(1), '1'), 'bits-overflow'),):
        b = Bld()
        encode(bad[0], bad[1], b)
        try:
            encode(bad[2], bad[3], b)
            raise AssertionError('overflow accepted')
        except ModelError as e:
            assert e.kind == kind
    try:
        to_cell(Record('r', '', [(str(i), RefCell) for i in range(5)]), dict({'_': 'r'}, **{str(i): leaf for i in range(5)}))
        raise AssertionError('5 refs accepted')
    except ModelError as e:
        assert e.kind == 'refs-overflow'
    for t, v in ((U(8), 256), (U(8), -1), (I(8), 128), (Grams, 1 << 120), (VarU(32), 1 << 248), (ULe(30), 31),
                 (Bits(3), '10'), (Bytes(2), 'abc'), (Bool, 2), (MsgAddressExt, {'_': 'addr_std'}),
                 (addr_extern, {'_': 'addr_extern', 'len': 2, 'external_address': '1'})):
        try:
            to_cell(t, v)
        except ModelError as e:
            assert e.kind == 'domain', (t, v, e)
            continue
        raise AssertionError(f'{t!r} accepted {v!r}')
    for t, bits in ((ULe(30), '11111'), (Range(U(2), 0, 1), '10'), (Const(U(3), 0), '001'), (MsgAddressExt, '10'),
                    (U(8), '1111'), (Anycast, '00000')):
        try:
            from_cell(t, RCell(bits))
        except DecodeError:
            continue
        raise AssertionError(f'{t!r} decoded {bits}')
    # generator: values of every combinator encode and decode back, under three choosers
    kinds = [t_c, t_e, bt, t_aug, t_ecc, MsgAddress, Hashmap(8, Maybe(Grams)), HashmapAug(16, Ref(I(9)), Grams),
             Record('mix', '#_', [('a', VarI(32)), ('b', ULt(5)), ('c', Bytes(3)), ('d', Either(U(3), Ref(Bits(7))))])]
    for t in kinds:
        for chs in (FixedChooser('min'), FixedChooser('max'), HashChooser('s1'), HashChooser('s2')):
            v = generate(t, chs, budget=2)
            back = from_cell(t, to_cell(t, v))
            assert diff(back, v) is None, (t, v, back)
    return True


self_check()
