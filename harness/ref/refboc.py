"""
Reference implementation of the TON serialized_boc format (crypto/tl/boc.tlb): an encoder that exposes every
encoder freedom, and a strict decoder. Imports nothing from the library under test.

  serialized_boc#b5ee9c72 has_idx:(## 1) has_crc32c:(## 1) has_cache_bits:(## 1) flags:(## 2) { flags = 0 }
    size:(## 3) { size <= 4 } off_bytes:(## 8) { off_bytes <= 8 } cells:(##(size * 8)) roots:(##(size * 8)) { roots >= 1 }
    absent:(##(size * 8)) { roots + absent <= cells } tot_cells_size:(##(off_bytes * 8))
    root_list:(roots * ##(size * 8)) index:has_idx?(cells * ##(off_bytes * 8))
    cell_data:(tot_cells_size * [ uint8 ]) crc32c:has_crc32c?uint32
  serialized_boc_idx#68ff65f3 size:(## 8) off_bytes:(## 8) cells roots { roots = 1 } absent tot_cells_size
    index:(cells * ##(off_bytes * 8)) cell_data                         -- no root list: the root is cell 0
  serialized_boc_idx_crc32c#acc3a728 … same … crc32c:uint32
"""
from .refcell import RCell, bits_to_padded_bytes, bytes_to_bits, topo
from .refcrc import crc32c

MAGIC = {'generic': bytes.fromhex('b5ee9c72'), 'idx': bytes.fromhex('68ff65f3'), 'idx_crc': bytes.fromhex('acc3a728')}


class RefBocError(Exception):
    pass


def min_bytes(n):
    return max(1, (n.bit_length() + 7) // 8)


def cell_bytes(c: RCell, index_of, size, with_hashes=False, ref_override=None, bogus=False, donor=None):
    m = c.mask()
    d1 = len(c.refs) + 8 * c.special + 16 * bool(with_hashes) + 32 * m
    out = bytearray([d1, c.d2()])
    if with_hashes:
        sig = c.sig_levels()
        src = donor if donor is not None and donor.sig_levels() == sig else c     # stored values taken from ANOTHER cell (same mask)
        for i in sig:
            out += bytes([c.H(i)[0] ^ 0x80]) + c.H(i)[1:] if bogus else src.H(i)
        for i in sig:
            out += ((c.D(i) + 5) % 1024 if bogus and bogus != 'hash-only' else src.D(i)).to_bytes(2, 'big')
    out += bits_to_padded_bytes(c.bits)
    for j, r in enumerate(c.refs):
        v = index_of[r.repr_hash()]
        if ref_override and j in ref_override:
            v = ref_override[j] % (256 ** size)
        out += v.to_bytes(size, 'big')
    return bytes(out)


def linear_extension(roots, prio):
    """a valid BoC order (every cell before all cells it references) of the distinct cells reachable from
    roots, chosen by the integer list `prio` (Kahn's algorithm, tie broken by prio[k] % len(ready))."""
    cells = topo(roots)
    by_hash = {c.repr_hash(): c for c in cells}
    npar = {h: 0 for h in by_hash}
    for c in cells:
        for h in {r.repr_hash() for r in c.refs}:
            npar[h] += 1
    ready = sorted(h for h, n in npar.items() if n == 0)
    order = []
    k = 0
    while ready:
        j = (prio[k % len(prio)] if prio else 0) % len(ready)
        k += 1
        h = ready.pop(j)
        order.append(by_hash[h])
        for hh in sorted({r.repr_hash() for r in by_hash[h].refs}):
            npar[hh] -= 1
            if npar[hh] == 0:
                ready.append(hh)
    assert len(order) == len(cells)
    return order


def encode(roots, magic='generic', size=None, off_bytes=None, has_idx=False, has_cache_bits=False, has_crc=False,
           with_hashes=(), order=None, cache_bits=(), ref_override=None, bogus_hashes=(), stored_from=None, declared_cells=None):
    """roots: list of RCell. order: list of distinct cells (parents first) or None for the default.
    with_hashes / cache_bits: sets of positions in `order`.
    ref_override: {(cell position, ref number): index value} — deliberately corrupt reference indexes (negative tests).
    bogus_hashes: positions (subset of with_hashes) whose STORED hashes/depths are wrong (first bit flipped / depth + 5): a
    reader may reject such a bag or ignore the stored values, but must never report them as the cell's hash.
    declared_cells: the `cells` count written into the header (negative tests: fewer than are stored; the index, when present,
    gets that many entries) - references to positions >= that count are dangling by the format although the bytes are there."""
    if order is None:
        order = topo(roots)
    index_of = {c.repr_hash(): i for i, c in enumerate(order)}
    n = len(order)
    msize = min_bytes(n)
    size = msize if size is None else size
    assert msize <= size <= 4
    ro = {}
    for (ci, rj), v in (ref_override or {}).items():
        ro.setdefault(ci, {})[rj] = v
    # stored_from: {position: donor cell} - the hashes / depths STORED for that position are the donor's (a forger copies the
    # stored values of the honest bag onto his altered cells); only meaningful for positions in with_hashes
    # bogus_hashes may be a dict {position: 'hash-only'}: the stored hash is wrong while the stored depths are the true ones
    blobs = [cell_bytes(c, index_of, size, i in with_hashes, ro.get(i),
                        (bogus_hashes.get(i, False) if isinstance(bogus_hashes, dict) else i in bogus_hashes), (stored_from or {}).get(i))
             for i, c in enumerate(order)]
    payload = b''.join(blobs)
    moff = min_bytes(len(payload) * (2 if has_cache_bits else 1))
    off_bytes = moff if off_bytes is None else off_bytes
    assert moff <= off_bytes <= 8
    root_idx = [index_of[r.repr_hash()] for r in roots]
    lean = magic != 'generic'
    if lean:
        assert len(roots) == 1 and root_idx == [0], 'lean magics have no root list: the root must be cell 0'
        has_idx = True
        has_cache_bits = False
        has_crc = magic == 'idx_crc'
        out = bytearray(MAGIC[magic]) + bytes([size, off_bytes])
    else:
        flags = (128 if has_idx else 0) | (64 if has_crc else 0) | (32 if has_cache_bits else 0) | size
        out = bytearray(MAGIC[magic]) + bytes([flags, off_bytes])
    out += (n if declared_cells is None else declared_cells).to_bytes(size, 'big') + len(roots).to_bytes(size, 'big') + (0).to_bytes(size, 'big')
    out += len(payload).to_bytes(off_bytes, 'big')
    if not lean:
        for r in root_idx:
            out += r.to_bytes(size, 'big')
    if has_idx:
        end = 0
        for i, b in enumerate(blobs):
            end += len(b)
            if declared_cells is not None and i >= declared_cells:
                break
            v = end * 2 + (1 if i in cache_bits else 0) if has_cache_bits else end
            out += v.to_bytes(off_bytes, 'big')
    out += payload
    if has_crc:
        out += crc32c(bytes(out)).to_bytes(4, 'little')
    return bytes(out)


def decode_strict(data: bytes):
    """Strict decoder. Returns dict(header…, cells=[RCell], roots=[RCell], root_idx=[…]). Raises RefBocError."""
    def need(cond, msg):
        if not cond:
            raise RefBocError(msg)
    need(len(data) >= 6, 'shorter than a header')
    magic = data[:4]
    kinds = {v: k for k, v in MAGIC.items()}
    need(magic in kinds, 'unknown magic')
    kind = kinds[magic]
    h = {'magic': kind}
    if kind == 'generic':
        fb = data[4]
        h['has_idx'] = bool(fb & 128)
        h['has_crc'] = bool(fb & 64)
        h['has_cache_bits'] = bool(fb & 32)
        h['flags'] = (fb >> 3) & 3
        size = fb & 7
        need(h['flags'] == 0, 'flags must be 0')
        need(not h['has_cache_bits'] or h['has_idx'], 'cache bits require an index')
    else:
        h['has_idx'] = True
        h['has_crc'] = kind == 'idx_crc'
        h['has_cache_bits'] = False
        h['flags'] = 0
        size = data[4]
    off_bytes = data[5]
    need(1 <= size <= 4, f'size {size} out of range')
    need(1 <= off_bytes <= 8, f'off_bytes {off_bytes} out of range')
    h['size'], h['off_bytes'] = size, off_bytes
    p = 6

    def take(nb, what):
        nonlocal p
        need(p + nb <= len(data), f'truncated in {what}')
        v = int.from_bytes(data[p:p + nb], 'big')
        p += nb
        return v
    cells = take(size, 'cells')
    roots = take(size, 'roots')
    absent = take(size, 'absent')
    tot = take(off_bytes, 'tot_cells_size')
    need(cells >= 1, 'no cells')
    need(roots >= 1, 'roots >= 1')
    need(absent == 0, 'absent cells are not supported by this reference')
    need(roots + absent <= cells or kind == 'generic', 'roots + absent <= cells')
    h.update(cells=cells, roots=roots, absent=absent, tot_cells_size=tot)
    need(cells <= len(data), 'cell count exceeds input length')
    need(roots <= len(data), 'root count exceeds input length')
    if kind == 'generic':
        root_idx = [take(size, 'root_list') for _ in range(roots)]
    else:
        need(roots == 1, 'lean format has exactly one root')
        root_idx = [0]
    for r in root_idx:
        need(r < cells, 'root index out of range')
    index = None
    if h['has_idx']:
        index = [take(off_bytes, 'index') for _ in range(cells)]
    need(p + tot <= len(data), 'truncated cell data')
    cd = data[p:p + tot]
    p += tot
    if h['has_crc']:
        need(p + 4 <= len(data), 'truncated crc')
        need(data[p:p + 4] == crc32c(data[:p]).to_bytes(4, 'little'), 'crc32c mismatch')
        p += 4
    need(p == len(data), 'trailing bytes')
    # cells
    raw = []
    q = 0
    ends = []
    for ci in range(cells):
        need(q + 2 <= len(cd), 'truncated cell descriptors')
        d1, d2 = cd[q], cd[q + 1]
        nrefs = d1 & 7
        special = bool(d1 & 8)
        wh = bool(d1 & 16)
        mask = d1 >> 5
        need(nrefs <= 4, 'more than 4 refs (absent cell?)')
        q += 2
        stored = None
        if wh:
            hc = bin(mask).count('1') + 1
            need(q + hc * 34 <= len(cd), 'truncated stored hashes')
            stored = (cd[q:q + 32 * hc], cd[q + 32 * hc:q + 34 * hc])
            q += hc * 34
        nbytes = (d2 + 1) // 2
        need(q + nbytes + nrefs * size <= len(cd), 'truncated cell body')
        body = cd[q:q + nbytes]
        q += nbytes
        bits = bytes_to_bits(body)
        if d2 & 1:
            # boc.cpp get_bits: `if (!(last & 0x7f)) error "overlong encoding"` - a last byte of 0x00 or 0x80 is not a valid
            # completion (a bit string that ends on a byte boundary is written with an even d2)
            need(nbytes >= 1 and body[-1] & 0x7f != 0, 'missing completion tag / overlong encoding')
            bits = bits[:bits.rindex('1')]
        refs = []
        for _ in range(nrefs):
            r = int.from_bytes(cd[q:q + size], 'big')
            q += size
            need(r < cells, 'dangling reference')
            need(r > ci, 'reference does not point to a later cell')
            refs.append(r)
        raw.append((bits, refs, special, mask, stored))
        ends.append(q)
    need(q == len(cd), 'cell data longer than the cells it contains')
    if index is not None:
        for ci in range(cells):
            v = index[ci] >> 1 if h['has_cache_bits'] else index[ci]
            need(v == ends[ci], f'index entry {ci} is {v}, cumulative end offset is {ends[ci]}')
    objs = [None] * cells
    for ci in reversed(range(cells)):
        bits, refs, special, mask, stored = raw[ci]
        try:
            c = RCell(bits, [objs[r] for r in refs], special)
        except Exception as e:
            raise RefBocError(f'invalid cell {ci}: {e}')
        need(c.mask() == mask, f'cell {ci}: level mask in d1 is {mask}, actual {c.mask()}')
        if stored is not None:
            sig = c.sig_levels()
            hs = b''.join(c.H(i) for i in sig)
            ds = b''.join(c.D(i).to_bytes(2, 'big') for i in sig)
            need(stored == (hs, ds), f'cell {ci}: stored hashes/depths are wrong')
        objs[ci] = c
    hashes = [c.repr_hash() for c in objs]
    need(len(set(hashes)) == cells, 'a cell appears more than once')
    # every cell reachable from a root
    reach = set()
    stack = list(root_idx)
    while stack:
        i = stack.pop()
        if i in reach:
            continue
        reach.add(i)
        stack.extend(raw[i][1])
    need(len(reach) == cells, 'unreachable cells present')
    h['cells_list'] = objs
    h['root_idx'] = root_idx
    h['root_cells'] = [objs[i] for i in root_idx]
    h['min_size'] = min_bytes(cells)
    h['min_off_bytes'] = min_bytes(tot * (2 if h['has_cache_bits'] else 1))
    return h
