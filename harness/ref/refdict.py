"""
Reference implementation of TON Hashmap / HashmapAug (block.tlb, crypto/vm/dict.cpp label rules).
Imports nothing from the library under test. Keys are bit strings ('0'/'1'); a value is (bits, [RCell refs]).

  hm_edge#_ {n:#} {X:Type} {l:#} {m:#} label:(HmLabel ~l n) {n = (~m) + l} node:(HashmapNode m X) = Hashmap n X;
  hmn_leaf#_ value:X = HashmapNode 0 X;   hmn_fork#_ left:^(Hashmap n X) right:^(Hashmap n X) = HashmapNode (n + 1) X;
  hml_short$0 len:(Unary ~n) {n <= m} s:(n * Bit);  hml_long$10 n:(#<= m) s:(n * Bit);  hml_same$11 v:Bit n:(#<= m);
  ahm_edge / ahmn_leaf#_ extra:Y value:X / ahmn_fork#_ left:^ right:^ extra:Y
Canonical label choice (dict.cpp append_dict_label / append_dict_label_same), k = bitlen(max_len):
  uniform label with len > 1 and k < 2*len - 1 -> same;  else k < len -> long;  else short.
"""
from .refcell import RCell, pruned_branch_of


def klen(max_len):
    return max_len.bit_length()


def canonical_kind(label, max_len):
    n = len(label)
    k = klen(max_len)
    uniform = n > 0 and label == label[0] * n
    if uniform and n > 1 and k < 2 * n - 1:
        return 'same'
    if k < n:
        return 'long'
    return 'short'


def valid_kinds(label, max_len):
    kinds = ['short', 'long']
    if label == (label[:1] or '0') * len(label):
        kinds.append('same')
    return kinds


def label_bits(label, max_len, kind=None):
    n = len(label)
    k = klen(max_len)
    assert n <= max_len
    if kind is None:
        kind = canonical_kind(label, max_len)
    if kind == 'short':
        return '0' + '1' * n + '0' + label
    if kind == 'long':
        return '10' + (format(n, '0%db' % k) if k else '') + label
    if kind == 'same':
        assert label == (label[:1] or '0') * n
        return '11' + (label[0] if n else '0') + (format(n, '0%db' % k) if k else '')
    raise ValueError(kind)


def common_prefix(keys):
    a, b = min(keys), max(keys)
    i = 0
    while i < len(a) and a[i] == b[i]:
        i += 1
    return a[:i]


def build(mapping, n, kind_of=None, extra_of=None, prune=None, info=None):
    """mapping: {key bitstring of length n: (value bits, [RCell refs])} (non-empty) -> RCell of the root edge.
    kind_of(path, label, max_len) -> label kind or None for canonical.
    extra_of(keys_below, is_leaf, path) -> (bits, refs) for HashmapAug, or None for plain Hashmap.
    prune(path) -> new_level or 0: replace the edge cell at this path by its pruned branch (skipped when the level of the
    cell is already >= new_level; never applied to the root).
    info (optional dict) receives 'keys': full keys whose leaf is not below a pruned edge, 'extras': [(path, bits)] of the
    non-pruned nodes, 'pruned': number of pruned edges."""
    cell, keys, extras, npr = _build(mapping, n, kind_of, extra_of, prune, '')
    if info is not None:
        info['keys'] = keys
        info['extras'] = extras
        info['pruned'] = npr
    return cell


def _build(mapping, n, kind_of, extra_of, prune, path):
    assert mapping
    ks = list(mapping)
    label = common_prefix(ks)
    kind = kind_of(path, label, n) if kind_of else None
    bits = label_bits(label, n, kind)
    m = n - len(label)
    refs = []
    keys = []
    extras = []
    npr = 0
    if m == 0:
        assert len(mapping) == 1
        vb, vr = mapping[ks[0]]
        if extra_of:
            eb, er = extra_of([path + label], True, path)
            bits += eb
            refs += list(er)
            extras.append((path, eb))
        bits += vb
        refs += list(vr)
        keys.append(path + label)
    else:
        for bit in '01':
            sub = {k[len(label) + 1:]: v for k, v in mapping.items() if k[len(label)] == bit}
            assert sub
            c, kk, ee, pp = _build(sub, m - 1, kind_of, extra_of, prune, path + label + bit)
            refs.append(c)
            keys += kk
            extras += ee
            npr += pp
        if extra_of:
            eb, er = extra_of([path + k for k in ks], False, path)
            bits += eb
            refs += list(er)
            extras.append((path, eb))
    c = RCell(bits, refs, False)
    if prune and path != '':
        lvl = prune(path)
        if lvl and c.level() < lvl:
            return pruned_branch_of(c, lvl), [], [], npr + 1
    return c, keys, extras, npr


class DictFormatError(Exception):
    pass


def read_label(bits, pos, max_len):
    k = klen(max_len)
    if bits[pos] == '0':
        pos += 1
        n = 0
        while bits[pos] == '1':
            n += 1
            pos += 1
        pos += 1
        if n > max_len:
            raise DictFormatError('short label longer than remaining key')
        return bits[pos:pos + n], pos + n, 'short'
    if bits[pos + 1] == '0':
        pos += 2
        n = int(bits[pos:pos + k], 2) if k else 0
        pos += k
        if n > max_len:
            raise DictFormatError('long label longer than remaining key')
        return bits[pos:pos + n], pos + n, 'long'
    v = bits[pos + 2]
    pos += 3
    n = int(bits[pos:pos + k], 2) if k else 0
    pos += k
    if n > max_len:
        raise DictFormatError('same label longer than remaining key')
    return v * n, pos, 'same'


def decode(cell: RCell, n, _prefix='', out=None, kinds=None):
    """spec decoder of a plain Hashmap n X: returns {key: (remaining value bits, refs)}; pruned cells are skipped"""
    if out is None:
        out = {}
    if cell.special:
        return out
    label, pos, kind = read_label(cell.bits, 0, n)
    if kinds is not None:
        kinds.append(kind)
    m = n - len(label)
    if m == 0:
        out[_prefix + label] = (cell.bits[pos:], list(cell.refs))
    else:
        if len(cell.refs) < 2:
            raise DictFormatError('fork without two references')
        decode(cell.refs[0], m - 1, _prefix + label + '0', out, kinds)
        decode(cell.refs[1], m - 1, _prefix + label + '1', out, kinds)
    return out
