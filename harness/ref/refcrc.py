"""Bitwise CRC-16/XMODEM and CRC-32C (Castagnoli). No tables, no library code."""


def crc16_xmodem(data: bytes) -> int:
    crc = 0
    for b in data:
        crc ^= b << 8
        for _ in range(8):
            crc = ((crc << 1) ^ 0x1021) & 0xFFFF if crc & 0x8000 else (crc << 1) & 0xFFFF
    return crc


def crc32c(data: bytes) -> int:
    crc = 0xFFFFFFFF
    for b in data:
        crc ^= b
        for _ in range(8):
            crc = (crc >> 1) ^ 0x82F63B78 if crc & 1 else crc >> 1
    return crc ^ 0xFFFFFFFF


assert crc16_xmodem(b'123456789') == 0x31C3
assert crc32c(b'123456789') == 0xE3069283


# Table-driven versions for LONG inputs only (the bitwise loops above cost 8 steps per byte). The tables are generated here from
# the bitwise definitions - not copied from anywhere - and the fast functions are cross-checked against the bitwise ones.
_T16 = [crc16_xmodem(bytes([i])) for i in range(256)]
_T32 = []
for _i in range(256):
    _c = _i
    for _ in range(8):
        _c = (_c >> 1) ^ 0x82F63B78 if _c & 1 else _c >> 1
    _T32.append(_c)


def crc16_xmodem_fast(data: bytes) -> int:
    crc = 0
    for b in data:
        crc = ((crc << 8) & 0xFFFF) ^ _T16[(crc >> 8) ^ b]
    return crc


def crc32c_fast(data: bytes) -> int:
    crc = 0xFFFFFFFF
    for b in data:
        crc = _T32[(crc ^ b) & 0xFF] ^ (crc >> 8)
    return crc ^ 0xFFFFFFFF


for _d in (b'', b'\x00', b'123456789', bytes(range(256)) * 3, b'\xff' * 1000):
    assert crc16_xmodem_fast(_d) == crc16_xmodem(_d) and crc32c_fast(_d) == crc32c(_d)
