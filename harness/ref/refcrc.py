"""Bitwise CRC-16/XMODEM and CRC-32C (Castagnoli). No tables, no library code."""


def crc16_xmodem(data: bytes) -> int:
    crc = 0
    for b in data:
        crc ^= b << 8
        for _ in range(8):
            crc = ((crc << 1) ^ 0x1021) & 0xFFFF if crc & 0x8000 else (crc << 1) & 0xFFFF
    return crc


def crc32c(data: bytes) -> int:
    crc = 0xFFFFFFFF
    for b in data:
        crc ^= b
        for _ in range(8):
            crc = (crc >> 1) ^ 0x82F63B78 if crc & 1 else crc >> 1
    return crc ^ 0xFFFFFFFF


assert crc16_xmodem(b'123456789') == 0x31C3
assert crc32c(b'123456789') == 0xE3069283
