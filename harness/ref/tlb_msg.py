"""
TL-B tables (for harness/ref/reftlb.py) of the message-related types. Imports nothing from the library under test.

Where each layout comes from
  * block.tlb (pytoniq_core/tlb/schemas/block.tlb = ton/crypto/block/block.tlb), transcribed constructor by constructor:
      MsgAddress* / Anycast (in reftlb), Grams, ExtraCurrencyCollection, CurrencyCollection, CommonMsgInfo
      (int_msg_info$0, ext_in_msg_info$10, ext_out_msg_info$11), CommonMsgInfoRelaxed, TickTock, StateInit,
      StateInitWithLibs, SimpleLib, Message X / MessageRelaxed X, HASH_UPDATE (update_hashes#72).
    StateInit: this block.tlb declares  library:(Maybe ^Cell)  for StateInit and keeps  library:(HashmapE 256 SimpleLib)
    for StateInitWithLibs ("used to validate sent and received messages"); older revisions of block.tlb had the
    HashmapE form in StateInit itself. The two are bit-compatible (one bit + one reference); the library's StateInit
    class follows the Maybe ^Cell form and hands the dictionary root out as a cell. Both are modelled:
    StateInit (Maybe ^Cell, what block.tlb says today) and StateInitWithLibs (typed dictionary).
  * wallet data (not in block.tlb):
      WalletV3Data   wallet-v3 (ton-blockchain/ton crypto/smartcont/wallet3-code.fc, load_data: seqno:uint32
                     subwallet_id:uint32 public_key:uint256); same as the docstring of tlb/custom/wallet.py
      WalletV4Data   wallet-v4r2 (ton-blockchain/wallet-contract, wallet-v4-code.fc: seqno:uint32 subwallet_id:uint32
                     public_key:uint256 plugins:dict); plugins is a HashmapE 264 (wc:int8 addr_hash:uint256 -> empty);
                     the library's docstring declares it as plugins:(Maybe ^Cell) - bit-compatible - and exposes the
                     root cell, so it is modelled as Maybe ^Cell
      HighloadWalletData  highload-wallet-v2 (ton-blockchain/ton crypto/smartcont/highload-wallet-v2-code.fc:
                     stored_subwallet:uint32 last_cleaned:uint64 public_key:uint256 old_queries:dict(64));
                     the value type is taken from the docstring / serializer of tlb/custom/wallet.py:
                     old_queries:(HashmapE 64 WalletMessage), wallet_message$_ send_mode:uint8 message:^MessageAny
  * NFT item data (TEP-62 reference nft-item.fc storage; docstring of tlb/custom/nft.py):
      nft_item_data#_ index:uint64 collection_address:MsgAddress owner_address:MsgAddress content:^Cell
    ("Address" of the docstring = MsgAddress: Builder.store_address / Slice.load_address handle addr_none,
    addr_extern and addr_std)

Anonymous constructors (`_ ... = StateInit`) are given the type's name as their constructor name.
"""
from .reftlb import (Record, Union, U, I, Bool, Bytes, Maybe, Either, Ref, RefCell, AnyRest, HashmapE, VarU, Grams,
                     MsgAddressInt, MsgAddressExt, MsgAddress, addr_std, to_cell, from_cell, diff, self_check as _core_check)

# extra_currencies$_ dict:(HashmapE 32 (VarUInteger 32)) = ExtraCurrencyCollection;
ExtraCurrencyCollection = Record('extra_currencies', '$_', [('dict', HashmapE(32, VarU(32)))])

# currencies$_ grams:Grams other:ExtraCurrencyCollection = CurrencyCollection;
CurrencyCollection = Record('currencies', '$_', [('grams', Grams), ('other', ExtraCurrencyCollection)])


def common_msg_info(addr_int=MsgAddressInt, addr_ext=MsgAddressExt):
    """CommonMsgInfo over the given address types (pass a restricted union to generate only what an API can express)"""
    return Union('CommonMsgInfo', [
        # int_msg_info$0 ihr_disabled:Bool bounce:Bool bounced:Bool src:MsgAddressInt dest:MsgAddressInt
        #   value:CurrencyCollection ihr_fee:Grams fwd_fee:Grams created_lt:uint64 created_at:uint32
        Record('int_msg_info', '$0', [('ihr_disabled', Bool), ('bounce', Bool), ('bounced', Bool),
                                      ('src', addr_int), ('dest', addr_int), ('value', CurrencyCollection),
                                      ('ihr_fee', Grams), ('fwd_fee', Grams), ('created_lt', U(64)), ('created_at', U(32))]),
        # ext_in_msg_info$10 src:MsgAddressExt dest:MsgAddressInt import_fee:Grams
        Record('ext_in_msg_info', '$10', [('src', addr_ext), ('dest', addr_int), ('import_fee', Grams)]),
        # ext_out_msg_info$11 src:MsgAddressInt dest:MsgAddressExt created_lt:uint64 created_at:uint32
        Record('ext_out_msg_info', '$11', [('src', addr_int), ('dest', addr_ext), ('created_lt', U(64)), ('created_at', U(32))]),
    ])


CommonMsgInfo = common_msg_info()

# int_msg_info$0 ... src:MsgAddress dest:MsgAddressInt ... / ext_out_msg_info$11 src:MsgAddress dest:MsgAddressExt ...
CommonMsgInfoRelaxed = Union('CommonMsgInfoRelaxed', [
    Record('int_msg_info', '$0', [('ihr_disabled', Bool), ('bounce', Bool), ('bounced', Bool),
                                  ('src', MsgAddress), ('dest', MsgAddressInt), ('value', CurrencyCollection),
                                  ('ihr_fee', Grams), ('fwd_fee', Grams), ('created_lt', U(64)), ('created_at', U(32))]),
    Record('ext_out_msg_info', '$11', [('src', MsgAddress), ('dest', MsgAddressExt), ('created_lt', U(64)), ('created_at', U(32))]),
])

# tick_tock$_ tick:Bool tock:Bool = TickTock;
TickTock = Record('tick_tock', '$_', [('tick', Bool), ('tock', Bool)])

# _ split_depth:(Maybe (## 5)) special:(Maybe TickTock) code:(Maybe ^Cell) data:(Maybe ^Cell) library:(Maybe ^Cell) = StateInit;
StateInit = Record('StateInit', '', [('split_depth', Maybe(U(5))), ('special', Maybe(TickTock)),
                                     ('code', Maybe(RefCell)), ('data', Maybe(RefCell)), ('library', Maybe(RefCell))])

# simple_lib$_ public:Bool root:^Cell = SimpleLib;
SimpleLib = Record('simple_lib', '$_', [('public', Bool), ('root', RefCell)])

# _ split_depth:... code:(Maybe ^Cell) data:(Maybe ^Cell) library:(HashmapE 256 SimpleLib) = StateInitWithLibs;
StateInitWithLibs = Record('StateInitWithLibs', '', [('split_depth', Maybe(U(5))), ('special', Maybe(TickTock)),
                                                     ('code', Maybe(RefCell)), ('data', Maybe(RefCell)),
                                                     ('library', HashmapE(256, SimpleLib))])


def message(x=AnyRest, info=CommonMsgInfo, state_init=StateInit, name='message'):
    """message$_ {X:Type} info:CommonMsgInfo init:(Maybe (Either StateInit ^StateInit)) body:(Either X ^X) = Message X;"""
    return Record(name, '$_', [('info', info),
                               ('init', Maybe(Either(state_init, Ref(state_init)))),
                               ('body', Either(x, Ref(x)))])


MessageAny = message()                                              # _ (Message Any) = MessageAny;
MessageRelaxedAny = message(info=CommonMsgInfoRelaxed)              # MessageRelaxed Any

# update_hashes#72 {X:Type} old_hash:bits256 new_hash:bits256 = HASH_UPDATE X;
HashUpdate = Record('update_hashes', '#72', [('old_hash', Bytes(32)), ('new_hash', Bytes(32))])

# ---- contract data layouts (sources: module docstring) -----------------------------------------------------------
WalletV3Data = Record('wallet_v3_data', '#_', [('seqno', U(32)), ('wallet_id', U(32)), ('public_key', Bytes(32))])
WalletV4Data = Record('wallet_v4_data', '#_', [('seqno', U(32)), ('wallet_id', U(32)), ('public_key', Bytes(32)),
                                               ('plugins', Maybe(RefCell))])
WalletMessage = Record('wallet_message', '$_', [('send_mode', U(8)), ('message', Ref(MessageAny))])
HighloadWalletData = Record('highload_wallet_data', '#_', [('wallet_id', U(32)), ('last_cleaned', U(64)),
                                                           ('public_key', Bytes(32)),
                                                           ('old_queries', HashmapE(64, WalletMessage, counts=(0, 1, 1, 2)))])
NftItemData = Record('nft_item_data', '#_', [('index', U(64)), ('collection_address', MsgAddress),
                                             ('owner_address', MsgAddress), ('content', RefCell)])

# address types restricted to what pytoniq_core's Address / ExternalAddress / None can express (no addr_var)
MsgAddressIntStd = Union('MsgAddressInt', [addr_std])
MsgAddressStd = Union('MsgAddress', [addr_std, MsgAddressExt])


def self_check():
    """hand-assembled encodings of the message types (from block.tlb by hand)"""
    def rt(t, v, bits, nrefs=0):
        c = to_cell(t, v)
        assert c.bits == bits, f'{t.name}: encoded\n {c.bits}\nexpected\n {bits}'
        assert len(c.refs) == nrefs, f'{t.name}: {len(c.refs)} refs'
        back = from_cell(t, c)
        assert diff(back, v) is None, f'{t.name}: decode differs at {diff(back, v)}'
        return c

    src = {'_': 'addr_std', 'anycast': None, 'workchain_id': 0, 'address': '00' * 31 + '01'}
    dst = {'_': 'addr_std', 'anycast': {'_': 'anycast_info', 'depth': 3, 'rewrite_pfx': '101'}, 'workchain_id': -1,
           'address': 'ff' * 32}
    s_src = '10' + '0' + '00000000' + '0' * 255 + '1'
    s_dst = '10' + '1' + '00011' + '101' + '11111111' + '1' * 256
    one_ton = '0100' + '00111011' + '10011010' + '11001010' + '00000000'           # 10^9 = 0x3B9ACA00
    info = {'_': 'int_msg_info', 'ihr_disabled': True, 'bounce': True, 'bounced': False, 'src': src, 'dest': dst,
            'value': {'_': 'currencies', 'grams': 10 ** 9, 'other': {'_': 'extra_currencies', 'dict': []}},
            'ihr_fee': 0, 'fwd_fee': 255, 'created_lt': 1 << 63, 'created_at': 1}
    s_info = ('0' + '1' + '1' + '0' + s_src + s_dst + one_ton + '0' + '0000' + '0001' + '11111111'
              + '1' + '0' * 63 + '0' * 31 + '1')
    rt(CommonMsgInfo, info, s_info)
    info2 = dict(info, value={'_': 'currencies', 'grams': 0, 'other': {'_': 'extra_currencies', 'dict': [[7, 1]]}})
    c = rt(CommonMsgInfo, info2, s_info.replace(one_ton + '0', '0000' + '1', 1), 1)
    # single key 7 of 32 bits: label = whole key, bitlen(32) = 6 < 32 -> hml_long$10 n=100000; VarUInteger 32 of 1
    assert c.refs[0].bits == '10' + '100000' + '0' * 29 + '111' + '00001' + '00000001'
    ext_in = {'_': 'ext_in_msg_info', 'src': {'_': 'addr_none'}, 'dest': dict(src, address='00' * 32), 'import_fee': 0}
    s_ext_in = '10' + '00' + '10' + '0' + '00000000' + '0' * 256 + '0000'
    rt(CommonMsgInfo, ext_in, s_ext_in)
    ext_out = {'_': 'ext_out_msg_info', 'src': src, 'dest': {'_': 'addr_extern', 'len': 2, 'external_address': '10'},
               'created_lt': 5, 'created_at': (1 << 32) - 1}
    rt(CommonMsgInfo, ext_out, '11' + s_src + '01' + '000000010' + '10' + '0' * 61 + '101' + '1' * 32)
    leaf = {'bits': '1', 'refs': [], 'special': False}
    si = {'_': 'StateInit', 'split_depth': 31, 'special': {'_': 'tick_tock', 'tick': True, 'tock': False},
          'code': leaf, 'data': None, 'library': {'bits': '', 'refs': [leaf], 'special': False}}
    s_si = '1' + '11111' + '1' + '10' + '1' + '0' + '1'
    rt(StateInit, si, s_si, 2)
    rt(StateInit, {'_': 'StateInit', 'split_depth': None, 'special': None, 'code': None, 'data': None, 'library': None}, '00000')
    body = {'bits': '1011', 'refs': [leaf], 'special': False}
    m = {'_': 'message', 'info': ext_in, 'init': None, 'body': {'either': 'left', 'v': body}}
    rt(MessageAny, m, s_ext_in + '0' + '0' + '1011', 1)
    m = {'_': 'message', 'info': ext_in, 'init': {'either': 'left', 'v': si}, 'body': {'either': 'right', 'v': body}}
    c = rt(MessageAny, m, s_ext_in + '1' + '0' + s_si + '1', 3)
    assert c.refs[2].bits == '1011'
    m = {'_': 'message', 'info': ext_in, 'init': {'either': 'right', 'v': si}, 'body': {'either': 'left', 'v': body}}
    c = rt(MessageAny, m, s_ext_in + '1' + '1' + '0' + '1011', 2)
    assert c.refs[0].bits == s_si and len(c.refs[0].refs) == 2 and c.refs[1].bits == '1'
    rt(HashUpdate, {'_': 'update_hashes', 'old_hash': '00' * 32, 'new_hash': 'ff' * 32}, '01110010' + '0' * 256 + '1' * 256)
    rt(WalletV3Data, {'_': 'wallet_v3_data', 'seqno': 1, 'wallet_id': 698983191, 'public_key': '80' + '00' * 31},
       '0' * 31 + '1' + format(698983191, '032b') + '1' + '0' * 255)
    rt(WalletV4Data, {'_': 'wallet_v4_data', 'seqno': 0, 'wallet_id': 0, 'public_key': '00' * 32, 'plugins': leaf},
       '0' * 320 + '1', 1)
    c = rt(HighloadWalletData, {'_': 'highload_wallet_data', 'wallet_id': 1, 'last_cleaned': 1 << 63, 'public_key': 'ff' * 32,
                                'old_queries': [[3, {'_': 'wallet_message', 'send_mode': 128, 'message': m}]]},
           '0' * 31 + '1' + '1' + '0' * 63 + '1' * 256 + '1', 1)
    # one key of 64 bits: bitlen(64) = 7 < 64 -> hml_long$10 n=1000000 s=key; then send_mode, then the message reference
    assert c.refs[0].bits == '10' + '1000000' + '0' * 62 + '11' + '10000000' and len(c.refs[0].refs) == 1
    rt(NftItemData, {'_': 'nft_item_data', 'index': 2, 'collection_address': {'_': 'addr_none'}, 'owner_address': src,
                     'content': leaf}, '0' * 62 + '10' + '00' + s_src, 1)
    rt(StateInitWithLibs, dict(si, _='StateInitWithLibs', library=[[1, {'_': 'simple_lib', 'public': True, 'root': leaf}]]),
       s_si, 2)
    return True


self_check()
