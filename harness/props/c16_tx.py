"""C16 (tx half) - transaction, account and message-descriptor parsers read exactly what block.tlb specifies.

Case (plain data, value language of harness/ref/reftlb.py):
    {'type': <covered type name>, 'v': <value of that type>, 'tail': {'bits': '0101..', 'nrefs': k}}

Check. The value is encoded by the reference model (harness/ref/tlb_tx.py tables, transcribed from block.tlb and from the
class docstrings where these quote a newer schema) into one cell; a sentinel tail (the given bits + k references to small
distinct cells, cut down to what still fits) is appended AFTER the value in the same cell. The library class's
`deserialize(cell.begin_parse())` then must
  (1) not raise                                          <Type>[/<ctor>]/raises/<exc>      (constructor-not-parsed when the
                                                         parser returns None / says the schema-listed tag is unknown)
  (2) return an object from which every schema field is readable with the encoded value: the object is converted to a plain
      value GUIDED by the expected value (for a union the fields of the encoded constructor are read), attribute name =
      schema field name (for **kwargs classes the docstring schema is the declaration; `account_active$1 _:StateInit` is
      read from `state_init`, the name the class declares), and reftlb.diff(strip_either(expected), got) must be None.
                                                         <Type>/[<ctor>.]<field path>/value-differs | missing-attribute |
                                                         unsigned-read-signed (got = expected - 2^k < 0)
  (3) leave exactly the tail in the slice                <Type>[/<ctor>]/consumed-too-much | consumed-too-little
  (4) do all of this whatever other threads do with the library at the same time: two-threads-tx-parsers (enumerated) takes, for
      every covered type x constructor (+ Transaction x each of the 7 descriptions, + mixed bags of the composite types), 3
      different values built by that constructor, encodes them (+ tail) into cells one after the other, and lets 4 threads parse
      these cells in tight loops at the same time (core.hammer, switch interval 1 us; nothing but the parser calls and the reading
      of the result overlaps). Oracle: the fields and the remaining slice the same call yields alone.
                                                         two-threads/<Type>[/<ctor>]
A failure is attributed to the SMALLEST covered sub-value that also fails when encoded and parsed on its own (so that one
defect of, say, TrComputePhase has one signature whether it is met inside a Transaction, an InMsg or alone).

Covered types (each also checked stand-alone): Transaction, TransactionDescr (7), TrStoragePhase, TrCreditPhase,
TrComputePhase (2), TrActionPhase, TrBouncePhase (3), AccStatusChange (3), ComputeSkipReason (4), SplitMergeInfo,
StorageUsedShort, StorageUsed, StorageInfo, Account (2), AccountStorage, AccountState (3), AccountStatus (4), ShardAccount,
AccountBlock, IntermediateAddress (3), MsgMetadata, MsgEnvelope (2), InMsg (9), OutMsg (10), ImportFees, and the helper
types they embed: StateInit, CurrencyCollection, HashUpdate, MessageAny (no tail: its body is the rest of the cell).

Representation accepted as "the encoded value" (content, not form)
  * bits256 fields as bytes or as a hex string; Bool as bool or 0/1; an empty HashmapE as None or {}.
  * constructors WITHOUT fields (AccStatusChange, ComputeSkipReason, AccountStatus, account_uninit, tr_phase_bounce_negfunds)
    carry their whole value in the constructor: the object's label must be the one the class declares for that constructor
    (or the constructor name). account_none is `None` (what Account.deserialize declares).
  * Transaction.out_msgs is declared as a list: the values in ascending key order are compared, the keys are not.
  * AccountBlock.transactions is the raw pair (dict key -> Transaction, list of extras in post-order of the Patricia tree,
    leaves and forks): compared on content (transactions by key; the extras with the post-order the schema implies).

Not asserted (deliberately)
  * `type_` label strings of constructors that have fields (e.g. msg_export_deq_short being labelled 'msg_export_deq'),
    and any attribute the schema does not have (cell, account_addr_hex, value_coins ...).
  * `Message Any` tails (the body legitimately takes the rest of its cell); Either placement inside messages.
  * addr_var addresses: Slice.load_address has no branch for them ("todo" in boc/slice.py) and there is no API object;
    generation is restricted to addr_std / addr_extern / addr_none exactly as in C15. (Reported as an observation.)
  * behaviour on invalid encodings; exotic cells; that a referenced cell is consumed completely by the sub-parser
    (it is, whenever the referenced type is checked stand-alone with a tail).
  * values that do not fit one cell (e.g. trans_merge_install with every phase present and maximal amounts): no such
    value exists on chain; the generator retries with smaller amounts, the check passes vacuously (class 'unrepresentable').

env VERIF_IGNORE_SIG='sig1,sig2' (development aid): failures with these signatures are dropped, the remaining clauses of the
same case are still evaluated. Signatures listed in known_findings.json are reported only when a case has no other failure.
"""
import os
import re

from hypothesis import strategies as st
from harness.core import Sub, Fail, call, exc_sig, load_known
from harness.ref import reftlb as R
from harness.ref import tlb_msg as M
from harness.ref import tlb_tx as TX

RULE = ('tx half: case = (covered type, value, sentinel tail). Values come from reftlb.generate over the tlb_tx tables '
        '(addresses restricted to addr_std/addr_extern/addr_none; integers biased to 0, 1, max, max-1 and top-bit-set; '
        'Grams / VarUInteger of every byte length). tx-enum walks every covered type x every constructor x every '
        'combination of its optional (Maybe) fields, Transaction x each of the 7 descriptions x in_msg present/absent, plus '
        'all-min / all-max values and hash-chosen values of every type; tx-random draws type, value and tail from Hypothesis. '
        'The tail is 0, 1, 8, a random number or the maximal number of bits that still fit and 0..max references. '
        'two-threads-tx-parsers: per covered type x constructor 3 hash-chosen values of that constructor (optional fields present in '
        'some, absent in others), prepared as cells, parsed by 4 threads in tight loops at the same time; each parse compared with '
        'the same parse made alone. '
        'non-trivial = uses a non-first constructor alternative, an optional field or non-empty dictionary, or an integer '
        'whose top bit is set; distinct = distinct case')

MISSING = '<missing attribute>'

INFO_STD = M.common_msg_info(M.MsgAddressIntStd, R.MsgAddressExt)      # what the library's address API can express
MSG_STD = M.message(info=INFO_STD)
X = TX.X                                                               # the schema
S = TX.tables(M.MsgAddressIntStd, MSG_STD)                             # the same family over the restricted addresses

# covered type -> (library module under pytoniq_core.tlb, class name, gets a tail)
TYPES = {
    'Transaction': ('transaction', 'Transaction', True), 'TransactionDescr': ('transaction', 'TransactionDescr', True),
    'TrStoragePhase': ('transaction', 'TrStoragePhase', True), 'TrCreditPhase': ('transaction', 'TrCreditPhase', True),
    'TrComputePhase': ('transaction', 'TrComputePhase', True), 'TrActionPhase': ('transaction', 'TrActionPhase', True),
    'TrBouncePhase': ('transaction', 'TrBouncePhase', True), 'AccStatusChange': ('transaction', 'AccStatusChange', True),
    'ComputeSkipReason': ('transaction', 'ComputeSkipReason', True), 'SplitMergeInfo': ('transaction', 'SplitMergeInfo', True),
    'IntermediateAddress': ('transaction', 'IntermediateAddress', True), 'MsgMetadata': ('transaction', 'MsgMetadata', True),
    'MsgEnvelope': ('transaction', 'MsgEnvelope', True), 'InMsg': ('transaction', 'InMsg', True),
    'OutMsg': ('transaction', 'OutMsg', True), 'ImportFees': ('transaction', 'ImportFees', True),
    'MessageAny': ('transaction', 'MessageAny', False),
    'StorageUsedShort': ('account', 'StorageUsedShort', True), 'StorageUsed': ('account', 'StorageUsed', True),
    'StorageInfo': ('account', 'StorageInfo', True), 'Account': ('account', 'Account', True),
    'AccountStorage': ('account', 'AccountStorage', True), 'AccountState': ('account', 'AccountState', True),
    'AccountStatus': ('account', 'AccountStatus', True), 'ShardAccount': ('account', 'ShardAccount', True),
    'AccountBlock': ('account', 'AccountBlock', True), 'StateInit': ('account', 'StateInit', True),
    'HashUpdate': ('utils', 'HashUpdate', True), 'CurrencyCollection': ('block', 'CurrencyCollection', True),
}
TYPE_OF_ID = {}
for _ns in (X, S):
    for _n in TYPES:
        TYPE_OF_ID[id(getattr(_ns, _n))] = _n
ADDR_UNIONS = ('MsgAddressInt', 'MsgAddressExt', 'MsgAddress')

# labels by which the library objects name the constructors that have no fields (the class's declared Literal / the label its
# parser assigns) - the constructor name itself is accepted as well
LABELS = {
    'acst_unchanged': ('unchanged',), 'acst_frozen': ('frozen',), 'acst_deleted': ('deleted',),
    'cskip_no_state': ('no_state',), 'cskip_bad_state': ('bad_state',), 'cskip_no_gas': ('no_gas',),
    'cskip_suspended': ('suspended',),
    'acc_state_uninit': ('uninitialized', 'uninit'), 'acc_state_frozen': ('frozen',), 'acc_state_active': ('active',),
    'acc_state_nonexist': ('nonexist',),
    'account_uninit': ('uninit', 'uninitialized'), 'tr_phase_bounce_negfunds': ('negfunds',),
}
RENAME = {}        # (constructor, schema field) -> attribute, where a class's own __init__ declares another name (none here)


def _rt(t):
    """resolve a field type given as a callable (recursion knots of the tables ignore their context)"""
    n = 0
    while not isinstance(t, R.T):
        t = t(R.Ctx())
        n += 1
        if n > 8:
            raise TypeError('not a TL-B type')
    return t


def _is_union(t):
    return isinstance(t, R.Union) and t.name not in ADDR_UNIONS


def _flat_fields(rec):
    out = []
    for fn, ft in rec.fields:
        if fn is None:
            inner = _rt(ft)
            while isinstance(inner, R.Ref):
                inner = _rt(inner.t)
            out.extend(_flat_fields(inner))
        else:
            out.append((fn, ft))
    return out


def _multi(tname):
    t = getattr(X, tname)
    return isinstance(t, R.Union) and len(t.alts) > 1


# --------------------------------------------------------------------------------------------------
# traversal of (type, value) pairs

def kids(t, v):
    """structural children of a (type, value) pair: (path suffix, child type, child value). Addresses, messages and opaque
    cells are leaves."""
    t = _rt(t)
    if isinstance(t, R.Union):
        if t.name in ADDR_UNIONS:
            return
        yield from kids(t.by_name[v['_']], v)
    elif isinstance(t, R.Record):
        if t.name == 'message':
            return
        for fn, ft in t.fields:
            if fn is None:
                yield '', _rt(ft), v
            else:
                yield '.' + fn, _rt(ft), v[fn]
    elif isinstance(t, R.Maybe):
        if v is not None:
            yield '', _rt(t.t), v
    elif isinstance(t, R.Either):
        yield '', _rt(t.l), (v['v'] if isinstance(v, dict) and set(v) == {'either', 'v'} else v)
    elif isinstance(t, R.Ref):
        yield '', _rt(t.t), v
    elif isinstance(t, R._Dict):
        if t.y is not None:
            items = v['items'] if t.root == 'E' else v
            for i, (_, x) in enumerate(items):
                yield f'.items[{i}][1]', _rt(t.x), x['value']
                yield f'.leaf_extras[{i}]', _rt(t.y), x['extra']
        else:
            for i, (_, x) in enumerate(v):
                yield f'[{i}][1]', _rt(t.x), x


def _join(path, suf):
    p = path + suf
    return p[1:] if p.startswith('.') else p


def typed_children(t, v, path=''):
    """nearest descendants that are values of a covered type: (path, type name, value)"""
    for suf, ct, cv in kids(t, v):
        p = _join(path, suf)
        name = TYPE_OF_ID.get(id(ct))
        if name is not None:
            yield p, name, cv
        else:
            yield from typed_children(ct, cv, p)


def features(t, v, out, owner=''):
    """constructors, present optional fields, top-bit-set integers, non-first alternatives occurring in a value"""
    t = _rt(t)
    if isinstance(t, R.Union):
        if t.name in ADDR_UNIONS:
            out['ctors'].add(v['_'])
            if v.get('anycast'):
                out['opts'].add(v['_'] + '.anycast')
            if v['_'] != t.alts[0].name:
                out['nonfirst'] = True
            return
        alt = t.by_name[v['_']]
        if alt is not t.alts[0]:
            out['nonfirst'] = True
        features(alt, v, out)
    elif isinstance(t, R.Record):
        name = t.name or owner
        if t.name:
            out['ctors'].add(t.name)
        if t.name == 'message':
            features(_rt(t.fields[0][1]), v['info'], out)
            if v['init'] is not None:
                out['opts'].add('message.init')
            return
        for fn, ft in t.fields:
            ft = _rt(ft)
            if fn is None:
                features(ft, v, out, name)
                continue
            if isinstance(ft, R.Maybe) and v[fn] is not None:
                out['opts'].add(f'{name}.{fn}')
            features(ft, v[fn], out, name)
    elif isinstance(t, R.Maybe):
        if v is not None:
            features(t.t, v, out, owner)
    elif isinstance(t, R.Either):
        features(t.l, v['v'] if isinstance(v, dict) and set(v) == {'either', 'v'} else v, out, owner)
    elif isinstance(t, R.Ref):
        features(t.t, v, out, owner)
    elif isinstance(t, R._Dict):
        items = v['items'] if (t.y is not None and t.root == 'E') else v
        if items:
            out['dict'] = max(out.get('dict', 0), len(items))
        for _, x in items:
            if t.y is not None:
                features(t.y, x['extra'], out, owner)
                features(t.x, x['value'], out, owner)
            else:
                features(t.x, x, out, owner)
    elif isinstance(t, R.VarU):
        if isinstance(v, int) and (v < 0 or (v > 0 and v.bit_length() % 8 == 0)):
            out['topbit'] = True
    elif isinstance(t, R.I):
        if v < 0:
            out['topbit'] = True
    elif isinstance(t, R.U):
        if t.n >= 2 and v >= (1 << (t.n - 1)):
            out['topbit'] = True
    elif isinstance(t, (R.Range, R.Const)):
        features(t.t, v, out, owner)


def _features(case):
    out = {'ctors': set(), 'opts': set(), 'nonfirst': False, 'topbit': False}
    features(getattr(X, case['type']), case['v'], out)
    return out


def classify(case):
    f = _features(case)
    out = ['type=' + case['type']]
    out += ['ctor=' + c for c in sorted(f['ctors'])]
    out += ['opt+' + o for o in sorted(f['opts'])]
    if f['topbit']:
        out.append('int=top-bit-set')
    if f.get('dict'):
        out.append('dict-entries=' + ('1' if f['dict'] == 1 else '2+'))
    tail = case.get('tail') or {}
    nb = len(tail.get('bits', ''))
    out.append('tail-bits=' + ('0' if nb == 0 else '1-8' if nb <= 8 else '9-64' if nb <= 64 else '65+'))
    out.append(f'tail-refs={tail.get("nrefs", 0)}')
    try:
        R.to_cell(getattr(X, case['type']), case['v'])
    except R.ModelError:
        out.append('unrepresentable')
    return out


def nontrivial(case):
    f = _features(case)
    return bool(f['nonfirst'] or f['opts'] or f['topbit'] or f.get('dict'))


# --------------------------------------------------------------------------------------------------
# library objects -> plain values (guided by the expected value)

def _ubits(x, n):
    if isinstance(x, int) and not isinstance(x, bool) and isinstance(n, int) and n >= 0 and 0 <= x < (1 << n):
        return format(x, f'0{n}b') if n else ''
    return f'<{x!r} in {n!r} bits>'


def v_cell(c):
    if c is None or c is MISSING:
        return c
    if not hasattr(c, 'bits') or not hasattr(c, 'refs'):
        return f'<{type(c).__name__}>'
    return R.cell_to_plain(R.rcell_of(c))


def v_hex(b):
    if isinstance(b, (bytes, bytearray)):
        return bytes(b).hex()
    if isinstance(b, str) and re.fullmatch(r'[0-9a-fA-F]*', b):
        return b.lower()                                   # a hex string instead of bytes: same content
    return f'<{b!r}>'


def v_int(x):
    return x if isinstance(x, int) else f'<{type(x).__name__}: {x!r:.40}>'


def v_addr(a):
    from pytoniq_core.boc.address import Address, ExternalAddress
    if a is None:
        return {'_': 'addr_none'}
    if isinstance(a, ExternalAddress):
        if a.external_address is None:
            return {'_': 'addr_none'}
        return {'_': 'addr_extern', 'len': a.len, 'external_address': _ubits(a.external_address, a.len)}
    if isinstance(a, Address):
        ac = a.anycast
        return {'_': 'addr_std',
                'anycast': None if ac is None else {'_': 'anycast_info', 'depth': ac.depth,
                                                    'rewrite_pfx': _ubits(ac.rewrite_pfx, ac.depth)},
                'workchain_id': a.wc, 'address': v_hex(a.hash_part)}
    return {'_': f'<{type(a).__name__}>'}


def v_msg(m, exp):
    if m is None or m is MISSING:
        return m
    info = getattr(m, 'info', MISSING)
    body = getattr(m, 'body', MISSING)
    e_info = exp.get('info') if isinstance(exp, dict) else None
    e_init = exp.get('init') if isinstance(exp, dict) else None
    return {'_': 'message',
            'info': MISSING if info is MISSING else to_value(info, X.MessageAny.fields[0][1], e_info),
            'init': to_value(getattr(m, 'init', MISSING), R.Maybe(M.StateInit), e_init),
            'body': v_cell(body)}


def _rec_value(o, rec, exp):
    name = rec.name
    if name == 'account_none':
        return {'_': name} if o is None else {'_': f'<{type(o).__name__} object>'}
    if o is None:
        return None
    out = {'_': name} if name else {}
    fields = _flat_fields(rec)
    if not fields:
        lab = getattr(o, 'type_', MISSING)
        if lab != name and lab not in LABELS.get(name, ()):
            out['_'] = f'<label {lab!r}>'
        return out
    for fn, ft in fields:
        val = getattr(o, RENAME.get((name, fn), fn), MISSING)
        out[fn] = MISSING if val is MISSING else to_value(val, ft, exp.get(fn) if isinstance(exp, dict) else None)
    return out


def _post_order(keys, n, leaf, fork):
    """items of a Patricia tree over n-bit integer keys in post-order (left subtree, right subtree, fork)"""
    def rec(ks):
        if len(ks) == 1:
            return [leaf(ks[0])]
        bits = [format(k, f'0{n}b') for k in ks]
        p = 0
        while all(b[p] == bits[0][p] for b in bits):
            p += 1
        left = [k for k, b in zip(ks, bits) if b[p] == '0']
        right = [k for k, b in zip(ks, bits) if b[p] == '1']
        return rec(left) + rec(right) + [fork(ks)]
    return rec(sorted(keys)) if keys else []


def aug_view(items, n, fork_extra):
    """expected content of a parsed inline HashmapAug: values by key + all extras (leaves and forks) in post-order"""
    ex = {k: x['extra'] for k, x in items}
    return {'items': [[k, x['value']] for k, x in items],
            'extras': _post_order(list(ex), n, lambda k: ex[k], lambda ks: fork_extra([ex[k] for k in sorted(ks)]))}


def _dict_value(o, t, exp):
    if t.y is not None:
        # the raw (dict, extras) pair of parse_hashmap_aug
        if not (isinstance(o, (tuple, list)) and len(o) == 2 and isinstance(o[0], dict) and isinstance(o[1], list)):
            return f'<{type(o).__name__}>'
        em = {k: x for k, x in exp['items']} if isinstance(exp, dict) and 'items' in exp else {}
        try:
            ks = sorted(o[0])
        except TypeError:
            return '<unsortable keys>'
        return {'items': [[k, to_value(o[0][k], t.x, em.get(k))] for k in ks],
                'extras': [to_value(e, t.y, None) for e in o[1]]}
    if o is None:
        o = {}                                        # an empty dictionary handed back as None: accepted
    exp_items = exp if isinstance(exp, list) else []
    if isinstance(o, list):
        # declared as a list (Transaction.out_msgs): values in key order, keys not kept - content only
        if len(o) != len(exp_items):
            return [[f'<value {i}>', to_value(x, t.x, None)] for i, x in enumerate(o)]
        return [[exp_items[i][0], to_value(x, t.x, exp_items[i][1])] for i, x in enumerate(o)]
    if isinstance(o, dict):
        em = {k: x for k, x in exp_items}
        try:
            ks = sorted(o)
        except TypeError:
            return '<unsortable keys>'
        return [[k, to_value(o[k], t.x, em.get(k))] for k in ks]
    return f'<{type(o).__name__}>'


def to_value(o, t, exp):
    """the plain value read from a library object `o` for the schema type `t`; `exp` (the encoded value) only selects
    WHICH constructor's fields are read from a union object"""
    t = _rt(t)
    if o is MISSING:
        return MISSING
    if isinstance(t, R.Union):
        if t.name in ADDR_UNIONS:
            return v_addr(o)
        if not isinstance(exp, dict) or exp.get('_') not in t.by_name:
            return f'<{type(o).__name__} object where nothing was encoded>'
        return _rec_value(o, t.by_name[exp['_']], exp)
    if isinstance(t, R.Record):
        if t.name == 'message':
            return v_msg(o, exp)
        return _rec_value(o, t, exp)
    if isinstance(t, R.Maybe):
        if o is None:
            return None
        if exp is None:
            return f'<present: {type(o).__name__}>'
        return to_value(o, t.t, exp)
    if isinstance(t, R.Either):
        return to_value(o, t.l, exp)
    if isinstance(t, R.Ref):
        return to_value(o, t.t, exp)
    if isinstance(t, R._Dict):
        return _dict_value(o, t, exp)
    if isinstance(t, (R.U, R.I, R.VarU, R.Range, R.Const)):
        return v_int(o)
    if isinstance(t, type(R.Bool)):
        return o if isinstance(o, (bool, int)) else f'<{o!r}>'
    if isinstance(t, R.Bytes):
        return v_hex(o)
    if isinstance(t, type(R.RefCell)):
        return v_cell(o)
    return f'<no conversion for {t.name}>'


# --------------------------------------------------------------------------------------------------
# the check

SENT = [R.RCell('1010' + format(i, '02b')) for i in range(4)]          # the sentinel references: small, distinct
DEFAULT_TAIL = {'bits': '10', 'nrefs': 1}


def _all_diffs(a, b, path, out, limit=40):
    """paths of all leaf differences between expected a and got b (same leaf semantics as reftlb.diff)"""
    if len(out) >= limit:
        return
    if isinstance(a, dict) and isinstance(b, dict):
        for k in list(a) + [k for k in b if k not in a]:
            p = f'{path}.{k}' if path else str(k)
            if k not in a or k not in b:
                out.append(p)
            else:
                _all_diffs(a[k], b[k], p, out, limit)
        return
    if isinstance(a, (list, tuple)) and isinstance(b, (list, tuple)):
        if len(a) != len(b):
            out.append(f'{path}[len]')
            return
        for i, (x, y) in enumerate(zip(a, b)):
            _all_diffs(x, y, f'{path}[{i}]', out, limit)
        return
    if R.diff(a, b, path) is not None:
        out.append(path or '.')


def _at(v, path):
    cur = v
    for tok in re.findall(r'[^.\[\]]+', path):
        try:
            cur = cur[int(tok)] if isinstance(cur, list) else cur[tok]
        except (KeyError, IndexError, ValueError, TypeError):
            return '<absent>'
    return cur


ADDR_FIELDS = ('src', 'dest', 'addr', 'initiator_addr')


def _sigpath(p):
    """field path as a root-cause bucket: no indices, nothing below an opaque cell, addresses cut at the address"""
    p = re.sub(r'\[[^\]]*\]', '', p).rstrip('.')
    p = re.sub(r'\.(bits|refs|special)(\..*)?$', '', p)
    toks = p.split('.')
    for i, t in enumerate(toks):
        if t in ADDR_FIELDS:
            toks = toks[:i + 1] + (['anycast'] if toks[i + 1:i + 2] == ['anycast'] else [])
            break
    if toks and toks[-1] == '_':
        toks[-1] = 'constructor'
    return '.'.join(t for t in toks if t) or 'value'


def _short(v, n=240):
    s = repr(v)
    return s if len(s) <= n else s[:n] + '…'


def _kind(exp, got):
    if got == MISSING:
        return 'missing-attribute'
    if (isinstance(exp, int) and isinstance(got, int) and not isinstance(exp, bool) and not isinstance(got, bool)
            and got < 0 <= exp and (exp - got) & (exp - got - 1) == 0):
        return 'unsigned-read-signed'
    return 'value-differs'


def _lib_class(tname):
    import importlib
    mod, cls, _ = TYPES[tname]
    return getattr(importlib.import_module('pytoniq_core.tlb.' + mod), cls)


def _not_parsed(e):
    s = str(e).lower()
    return isinstance(e, NotImplementedError) or 'unknown prefix' in s or 'unexpected tag' in s or 'error tag' in s


def _failures(tname, v, tail, memo, path='$'):
    """all failures of the value `v` of the covered type `tname`, each attributed to the smallest failing covered
    sub-value. memo: path -> failures of the sub-value at that path checked on its own (per case)."""
    if path in memo:
        return memo[path]
    memo[path] = []                                   # (re-entrancy guard; values are finite trees anyway)
    from harness.gen.dag import lib_from_rcell
    t = getattr(X, tname)
    try:
        b = R.encode(t, v)
    except R.ModelError as e:
        if e.kind == 'domain':
            raise ValueError(f'case outside the value domain of {tname}: {e}')
        return []                                     # does not fit a cell: nothing is promised
    tb, nr = '', 0
    if TYPES[tname][2]:
        room_b, room_r = b.room()
        tb = (tail.get('bits') or '')[:room_b]
        nr = min(int(tail.get('nrefs') or 0), room_r)
        b.put(tb)
        for i in range(nr):
            b.ref(SENT[i])
    cell = b.cell()
    ctor = v.get('_') if isinstance(v, dict) else None
    where = f'{tname}/{ctor}' if _multi(tname) else tname
    pre = f'{tname}/{ctor}.' if _multi(tname) else f'{tname}/'
    lc = lib_from_rcell(cell)
    if path == '$':
        # malformed inputs first (the same value cut short; its bits inverted): whatever the parser does with them - raise or
        # return - it must not carry anything over into the parse of the well-formed value that follows
        from harness.ref.refcell import RCell as _RC
        for bad in (_RC(cell.bits[:len(cell.bits) // 2], cell.refs[:1]), _RC(cell.bits[:max(0, len(cell.bits) - 1)], []),
                    _RC(''.join('1' if c == '0' else '0' for c in cell.bits), cell.refs)):
            call(lambda: _lib_class(tname).deserialize(lib_from_rcell(bad).begin_parse()))
    cs = lc.begin_parse()
    ok, obj = call(_lib_class(tname).deserialize, cs)
    if ok:
        from harness.core import describe
        describe(obj, lc, cs)                         # the caller logs what it got, the cell and the slice: nothing changes by that
    own = []                                          # failures attributed to this level unless a child explains them
    diff_fails = []

    def children_fail():
        """failures of the covered sub-values, parsed on their own, that can explain a failure of this level (a raise,
        shifted fields, a wrong tail): everything except the two kinds that cannot disturb the surrounding parser"""
        out = []
        for p, cn, cv in typed_children(t, v):
            out.extend(f for f in _failures(cn, cv, DEFAULT_TAIL, memo, f'{path}.{p}')
                       if not f.signature.endswith(('/missing-attribute', '/unsigned-read-signed')))
        return out

    if not ok:
        sub = children_fail()
        if sub:
            memo[path] = sub
            return sub
        if _not_parsed(obj):
            own.append(Fail(f'{where}/constructor-not-parsed', f'{tname}.deserialize raised {obj!r} on a {ctor} value'))
        else:
            own.append(Fail(f'{where}/raises/{exc_sig(obj)}', f'{tname}.deserialize raised {obj!r} on {_short(v)}'))
        memo[path] = own
        return own
    if obj is None and ctor != 'account_none':
        own.append(Fail(f'{where}/constructor-not-parsed', f'{tname}.deserialize returned None for a {ctor} value'))
        memo[path] = own
        return own
    exp = R.strip_either(v)
    if tname == 'AccountBlock':
        dt = X.AccountBlock.fields[1][1]
        exp = dict(exp, transactions=aug_view(exp['transactions'], dt.n, dt.fork_extra))
    got = to_value(obj, t, exp)
    paths = []
    _all_diffs(exp, got, '', paths)
    assert (R.diff(exp, got) is None) == (not paths)
    kids_typed = list(typed_children(t, v)) if paths else []      # (paths of an AccountBlock's transactions are view paths)
    shifted = False
    for p in paths:
        e_at, g_at = _at(exp, p), _at(got, p)
        kind = _kind(e_at, g_at)
        sub = None
        for cp, cn, cv in kids_typed:
            if p == cp or p.startswith(cp + '.') or p.startswith(cp + '['):
                sub = _failures(cn, cv, DEFAULT_TAIL, memo, f'{path}.{cp}')
                break
        if sub:
            diff_fails.extend(sub)
            continue
        if kind == 'value-differs':
            # possibly a shifted read: an inline sub-value before it that consumes the wrong amount explains it; in
            # any case later differences and the tail may be consequences - stop here
            sib = children_fail()
            diff_fails.extend(sib or [Fail(f'{pre}{_sigpath(p)}/{kind}',
                                           f'{tname} {p}: parsed {_short(g_at)}, encoded {_short(e_at)}')])
            shifted = True
            break
        diff_fails.append(Fail(f'{pre}{_sigpath(p)}/{kind}', f'{tname} {p}: parsed {_short(g_at)}, encoded {_short(e_at)}'))
    # (3) the tail
    tail_fail = None
    if not shifted and TYPES[tname][2]:
        ok2, rem = call(lambda: (cs.bits.to01(), [R.rcell_of(r).repr_hash() for r in cs.refs[cs.ref_offset:]]))
        if not ok2:
            tail_fail = Fail(f'{where}/slice-unreadable/{exc_sig(rem)}', repr(rem))
        else:
            rbits, rrefs = rem
            want = [SENT[i].repr_hash() for i in range(nr)]
            det = (f'{tname}: after parsing {len(rbits)} bits / {len(rrefs)} refs are left, the sentinel tail has '
                   f'{len(tb)} bits / {nr} refs (value: {b.nbits - len(tb)} bits / {len(b.refs) - nr} refs)')
            if len(rbits) < len(tb) or len(rrefs) < nr:
                tail_fail = Fail(f'{where}/consumed-too-much', det)
            elif len(rbits) > len(tb) or len(rrefs) > nr:
                tail_fail = Fail(f'{where}/consumed-too-little', det)
            elif rbits != tb or rrefs != want:
                tail_fail = Fail(f'{where}/tail-differs', det)
    if tail_fail is not None:
        own = children_fail() or [tail_fail]
    if not diff_fails and not own and path == '$':
        # a second parse of the SAME cell object: same result, and parsing left the cell itself untouched (no parser state carried
        # between calls, no parser that eats the cells it walks)
        from harness.core import scramble
        scramble(obj)                       # the first result is the caller's: every flag / number / byte string in it edited
        okb, objb = call(_lib_class(tname).deserialize, lc.begin_parse())
        if not okb:
            own.append(Fail(f'{where}/second-parse-of-the-same-cell/raises/{exc_sig(objb)}', repr(objb)))
        elif R.diff(to_value(objb, t, exp), got) is not None:
            own.append(Fail(f'{where}/second-parse-of-the-same-cell/differs', f'{tname}: at {R.diff(to_value(objb, t, exp), got)}'))
        elif R.rcell_of(lc).repr_hash() != cell.repr_hash() or lc.bits.to01() != cell.bits:
            own.append(Fail(f'{where}/parsing-changed-the-cell', tname))
        if not own:
            # the same value behind a PREFIX that the caller has already consumed (3 bits and one reference): a parser that
            # addresses the slice absolutely instead of reading on from where it stands gets it wrong
            try:
                b2 = R.Bld()
                b2.put('101')
                b2.ref(SENT[0])
                R.encode(t, v, b2)
                pc = lib_from_rcell(b2.cell())
            except (R.ModelError, IndexError):
                pc = None
            if pc is not None:
                ps = pc.begin_parse()
                ps.load_bits(3)
                ps.load_ref()
                okp, objp = call(_lib_class(tname).deserialize, ps)
                if not okp:
                    own.append(Fail(f'{where}/behind-a-consumed-prefix/raises/{exc_sig(objp)}', repr(objp)))
                elif R.diff(to_value(objp, t, exp), got) is not None:
                    own.append(Fail(f'{where}/behind-a-consumed-prefix/differs', f'{tname}: at {R.diff(to_value(objp, t, exp), got)}'))
                elif TYPES[tname][2] and (ps.remaining_bits or ps.remaining_refs):
                    own.append(Fail(f'{where}/behind-a-consumed-prefix/leftover', f'{ps.remaining_bits} bits / {ps.remaining_refs} refs'))
    out = diff_fails + [f for f in own if f.signature not in {x.signature for x in diff_fails}]
    memo[path] = out
    return out


def _select(fails):
    ignore = {x.strip() for x in os.environ.get('VERIF_IGNORE_SIG', '').split(',') if x.strip()}
    fails = [f for f in fails if f.signature not in ignore]
    seen, out = set(), []
    for f in fails:
        if f.signature not in seen:
            seen.add(f.signature)
            out.append(f)
    if not out:
        return None
    known = load_known('C16')
    for f in out:
        if f.signature not in known:
            return f
    return out[0]


def check_case(case):
    return _select(_failures(case['type'], case['v'], case.get('tail') or {}, {}))


# --------------------------------------------------------------------------------------------------
# generation

class SmallChooser:
    """wraps a chooser so that amounts and opaque cells come out small (used when a value did not fit one cell)"""

    def __init__(self, base):
        self.base = base

    def int(self, lo, hi):
        return min(self.base.int(lo, hi), lo + 3)

    def choice(self, seq):
        return self.base.choice(seq)

    def bool(self):
        return self.base.bool()

    def bits(self, n):
        return self.base.bits(n)


def gen_fit(t, ch, budget):
    last = None
    for attempt in range(3):
        try:
            return R.generate(t, ch if attempt == 0 else SmallChooser(ch), budget=max(budget - attempt, 0), tries=3)
        except R.ModelError as e:
            if e.kind == 'domain':
                raise
            last = e
    raise last


def gen_tail(ch, tname, v):
    if not TYPES[tname][2]:
        return {'bits': '', 'nrefs': 0}
    rb, rr = R.encode(getattr(X, tname), v).room()
    nb = ch.choice([0, 1, min(8, rb), rb, ch.int(0, rb), ch.int(0, min(rb, 64))])
    return {'bits': ch.bits(nb), 'nrefs': ch.choice([0, rr, ch.int(0, rr)])}


def _ctor_nodes(v, out):
    if isinstance(v, dict):
        if '_' in v:
            out.setdefault(v['_'], []).append(v)
        for x in v.values():
            _ctor_nodes(x, out)
    elif isinstance(v, list):
        for x in v:
            _ctor_nodes(x, out)


def _scalar(x):
    return x is None or isinstance(x, (int, str, bool))


def twin(tname, v, ch, only=None, lead=None):
    """Designed coincidence: two sub-values built by the same constructor somewhere inside `v` (two transactions, two envelopes,
    two currency collections ...) are made to AGREE in their leading scalar fields - the first `lead` of them, or a drawn number up
    to all - while the rest stays different. Independent generation never produces such pairs; a parser that identifies,
    memoises or merges sub-values by some of their fields does the wrong thing exactly there. Returns the edited deep copy, or
    None when there is no such pair / the edited value does not satisfy the schema."""
    import copy
    w = copy.deepcopy(v)
    groups = {}
    _ctor_nodes(w, groups)
    cands = sorted(k for k, g in groups.items() if len(g) >= 2 and (only is None or k == only))
    done = 0
    for name in cands:
        g = groups[name]
        if only is None and not ch.bool():
            continue
        a = g[0]
        for b in g[1:]:
            keys = [k for k in a if k != '_' and k in b and _scalar(a[k]) and _scalar(b[k])]
            if not keys:
                continue
            j = min(lead, len(keys)) if lead else ch.int(1, len(keys))
            for k in keys[:j]:
                b[k] = a[k]
            done += 1
    if not done:
        return None
    try:
        R.encode(getattr(X, tname), w)
    except R.ModelError:
        return None
    return w


def mk_case(ch, tname, t, budget, twins=False):
    v = gen_fit(t, ch, budget)
    if twins:
        v = twin(tname, v, ch) or v
    return {'type': tname, 'v': v, 'tail': gen_tail(ch, tname, v)}


# weights of the random sub-check: the composite types carry most of the others inside
WEIGHTED = (['Transaction'] * 8 + ['TransactionDescr'] * 6 + ['InMsg'] * 7 + ['OutMsg'] * 9 + ['MsgEnvelope'] * 4
            + ['Account'] * 4 + ['ShardAccount'] * 3 + ['AccountBlock'] * 3 + ['TrComputePhase'] * 2 + ['TrActionPhase'] * 2
            + ['TrBouncePhase'] * 2 + ['TrStoragePhase', 'TrCreditPhase', 'TrCreditPhase', 'AccStatusChange', 'ComputeSkipReason',
                                      'SplitMergeInfo', 'IntermediateAddress', 'IntermediateAddress', 'MsgMetadata',
                                      'ImportFees', 'StorageUsedShort', 'StorageUsed', 'StorageInfo', 'AccountStorage',
                                      'AccountState', 'AccountState', 'AccountStatus', 'StateInit', 'HashUpdate',
                                      'CurrencyCollection', 'MessageAny'])


@st.composite
def st_case(draw):
    ch = R.HypChooser(draw)
    tname = ch.choice(WEIGHTED)
    return mk_case(ch, tname, getattr(S, tname), ch.choice([1, 2, 2, 3]), twins=ch.choice([False, False, True]))


def strat(tier):
    return st_case()


class ForcedMaybe(R.Maybe):
    """generation only: a Maybe whose presence is decided by the enumeration, not by the chooser"""

    def __init__(self, t, present):
        super().__init__(t)
        self.present = present

    def gen(self, ch, budget, ctx):
        if ctx.trk is not None:
            ctx.trk.put('1' if self.present else '0')
        if not self.present:
            return None
        t = self.t
        while not isinstance(t, R.T):
            t = t(ctx)
        return t.gen(ch, budget, ctx)


def _maybe_fields(rec):
    return [fn for fn, ft in _flat_fields(rec) if isinstance(_rt(ft), R.Maybe)]


def derive(rec, present, override=None):
    """the Record `rec` with its direct Maybe fields forced present/absent ({field: bool}) and field types overridden"""
    override = override or {}
    fields = []
    for fn, ft in rec.fields:
        if fn is None:
            inner, depth = _rt(ft), 0
            while isinstance(inner, R.Ref):
                inner, depth = _rt(inner.t), depth + 1
            d = derive(inner, present, override)
            for _ in range(depth):
                d = R.Ref(d)
            fields.append((None, d))
            continue
        rt = _rt(ft)
        if fn in override:
            fields.append((fn, override[fn]))
        elif isinstance(rt, R.Maybe) and fn in present:
            fields.append((fn, ForcedMaybe(rt.t, present[fn])))
        else:
            fields.append((fn, ft))
    return R.Record(rec.name, rec.tag, fields, rec.check)


def _alts(t):
    return t.alts if isinstance(t, R.Union) else [t]


def enum_cases(tier):
    reps = 3 if tier == 'quick' else 30
    for tname in TYPES:
        t = getattr(S, tname)
        for alt in _alts(t):
            mf = _maybe_fields(alt)
            for mask in range(1 << len(mf)):
                present = {f: bool(mask >> i & 1) for i, f in enumerate(mf)}
                d = derive(alt, present)
                for rep in range(reps):
                    ch = R.HashChooser(f'c16tx-enum/{tname}/{alt.name}/{mask}/{rep}')
                    try:
                        yield mk_case(ch, tname, d, 2 + rep % 2)
                    except R.ModelError:
                        try:                           # all optional parts present + large amounts: retry small
                            yield mk_case(SmallChooser(R.HashChooser(f'c16tx-enum-small/{tname}/{alt.name}/{mask}/{rep}')),
                                          tname, d, 1)
                        except R.ModelError:
                            pass
    # a transaction around each of the seven descriptions, with and without an inbound message
    trec = S.Transaction
    for alt in S.TransactionDescr.alts:
        for in_msg in (False, True):
            for rep in range(reps):
                ch = R.HashChooser(f'c16tx-enum/tx-descr/{alt.name}/{in_msg}/{rep}')
                d = derive(trec, {'in_msg': in_msg}, {'description': R.Ref(alt)})
                try:
                    yield mk_case(ch, 'Transaction', d, 3)
                except R.ModelError:
                    pass
    # chains of nested transactions (prepare_transaction:^Transaction inside split_install / merge_install), 4..14 deep
    for kind in ('trans_split_install', 'trans_merge_install'):
        alt = S.TransactionDescr.by_name[kind] if hasattr(S.TransactionDescr, 'by_name') else next(a for a in S.TransactionDescr.alts if a.name == kind)
        for depth in (4, 9, 14):
            try:
                inner = mk_case(SmallChooser(R.HashChooser(f'c16tx-chain/{kind}/leaf')), 'Transaction',
                                derive(trec, {'in_msg': False}, {'description': R.Ref(S.TransactionDescr.alts[1])}), 1)['v']
                for lvl in range(depth):
                    outer = mk_case(SmallChooser(R.HashChooser(f'c16tx-chain/{kind}/{lvl}')), 'Transaction',
                                    derive(trec, {'in_msg': False}, {'description': R.Ref(alt)}), 1)['v']
                    outer['description']['prepare_transaction'] = inner
                    inner = outer
                yield {'type': 'Transaction', 'v': inner, 'tail': {'bits': '101', 'nrefs': 0}}
            except (R.ModelError, KeyError):
                pass
    # descriptors around each envelope kind / each nested InMsg
    for env in S.MsgEnvelope.alts:
        for inm in S.InMsg.alts:
            ch = R.HashChooser(f'c16tx-enum/out-tr/{env.name}/{inm.name}')
            d = derive(S.OutMsg.by_name['msg_export_tr'], {}, {'out_msg': R.Ref(env), 'imported': R.Ref(inm)})
            try:
                yield mk_case(ch, 'OutMsg', d, 3)
            except R.ModelError:
                pass
    # designed coincidences: the two transactions of an immediately re-imported message (and every other pair of sub-values built
    # by one constructor) agree in their first 1, 2, 3 ... scalar fields / in all of them, and differ in the rest
    for inm in S.InMsg.alts:
        for lead in (1, 2, 3, 5, None):
            ch = R.HashChooser(f'c16tx-enum/out-imm-twins/{inm.name}/{lead}')
            d = derive(S.OutMsg.by_name['msg_export_imm'], {}, {'reimport': R.Ref(inm)})
            try:
                c = mk_case(ch, 'OutMsg', d, 3)
            except R.ModelError:
                continue
            for only in ('transaction', None):
                w = twin('OutMsg', c['v'], R.HashChooser(f'twin/{inm.name}/{lead}/{only}'), only=only, lead=lead or 99)
                if w is not None:
                    yield {'type': 'OutMsg', 'v': w, 'tail': gen_tail(ch, 'OutMsg', w)}
    for tname in ('Transaction', 'InMsg', 'OutMsg', 'AccountBlock', 'ShardAccount', 'Account', 'MsgEnvelope'):
        for i in range(6 if tier == 'quick' else 60):
            ch = R.HashChooser(f'c16tx-enum/twins/{tname}/{i}')
            try:
                c = mk_case(ch, tname, getattr(S, tname), 3)
            except R.ModelError:
                continue
            w = twin(tname, c['v'], ch, lead=(1, 2, 99)[i % 3])
            if w is not None:
                yield {'type': tname, 'v': w, 'tail': gen_tail(ch, tname, w)}
    # low-entropy hashes: a frozen account (and a shard account around it) whose state hash is one byte repeated, for every byte value,
    # with small non-zero counters and balances of every byte length: bit patterns that a reader which PROBES for a newer layout (or
    # for another constructor) behind an ambiguous prefix can mistake for well-formed fields; random hashes line up once in 2^8..2^16
    for blen in range(1, 16):
        for pc in (1, 7, 200):
            for v8 in range(256):
                if tier == 'quick' and (v8 & 7 or (blen + pc) % 2):      # quick: the patterns whose low bits look like tags / empty Maybes
                    continue
                val = {'_': 'account',
                       'addr': {'_': 'addr_std', 'anycast': None, 'workchain_id': 0, 'address': '%064x' % (blen * 257 + pc)},
                       'storage_stat': {'_': 'storage_info', 'used': {'_': 'storage_used', 'cells': 21, 'bits': 5000, 'public_cells': pc},
                                        'last_paid': 1700000000 + v8, 'due_payment': None},
                       'storage': {'_': 'account_storage', 'last_trans_lt': 47000000 + pc,
                                   'balance': {'_': 'currencies', 'grams': (1 << (8 * blen - 1)) + 200, 'other': {'_': 'extra_currencies', 'dict': []}},
                                   'state': {'_': 'account_frozen', 'state_hash': ('%02x' % v8) * 32}}}
                try:
                    R.encode(X.Account, val)
                except R.ModelError:
                    continue
                yield {'type': 'Account', 'v': val, 'tail': {'bits': '', 'nrefs': 0}}
    # extremes and hash-chosen values of every type
    for tname in TYPES:
        t = getattr(S, tname)
        for mode in ('min', 'max'):
            for budget in (1, 3):
                try:
                    v = R.generate(t, R.FixedChooser(mode), budget=budget, tries=2)
                except R.ModelError:
                    continue
                for tail in ({'bits': '', 'nrefs': 0}, {'bits': '1' * 1023, 'nrefs': 4}, {'bits': '0', 'nrefs': 1}):
                    yield {'type': tname, 'v': v, 'tail': tail if TYPES[tname][2] else {'bits': '', 'nrefs': 0}}
        for i in range(4 if tier == 'quick' else 30):
            try:
                yield mk_case(R.HashChooser(f'c16tx-hash/{tname}/{i}'), tname, t, 1 + i % 3)
            except R.ModelError:
                pass


# --------------------------------------------------------------------------------------------------
# parsers called by several threads at the same time

def _reading(tname, v, tail):
    """('<Type>[/<ctor>]', thunk) - the thunk parses the prepared cell (value + tail) with the type's class and returns, as text,
    every schema field read from the result and what is left in the slice; None when the value does not fit one cell"""
    from harness.gen.dag import lib_from_rcell
    t = getattr(X, tname)
    try:
        b = R.encode(t, v)
    except R.ModelError as e:
        if e.kind == 'domain':
            raise ValueError(f'case outside the value domain of {tname}: {e}')
        return None
    if TYPES[tname][2]:
        room_b, room_r = b.room()
        b.put((tail.get('bits') or '')[:room_b])
        for i in range(min(int(tail.get('nrefs') or 0), room_r)):
            b.ref(SENT[i])
    lc = lib_from_rcell(b.cell())
    cls = _lib_class(tname)
    exp = R.strip_either(v)
    if tname == 'AccountBlock':
        dt = X.AccountBlock.fields[1][1]
        exp = dict(exp, transactions=aug_view(exp['transactions'], dt.n, dt.fork_extra))
    ctor = v.get('_') if isinstance(v, dict) else None

    def thunk():
        cs = lc.begin_parse()
        obj = cls.deserialize(cs)
        return repr((to_value(obj, t, exp), cs.bits.to01(), len(cs.refs) - cs.ref_offset))
    return (f'{tname}/{ctor}' if _multi(tname) else tname), thunk


HAMMER_ROUNDS = {'Transaction': 12, 'AccountBlock': 8, 'InMsg': 12, 'OutMsg': 10, 'MsgEnvelope': 20, 'ShardAccount': 20,
                 'Account': 20, 'TransactionDescr': 20}


def check_hammer(case):
    """several values, most of them of ONE covered type (and one constructor), are encoded into cells one after the other; then
    4 threads parse these cells in tight loops at the same time (core.hammer: nothing but the parser calls overlaps). Every
    call must return what the same call returns alone: the fields of ITS value, ITS tail left over."""
    from harness.core import hammer
    calls = []
    for it in case['items']:
        r = _reading(it['type'], it['v'], it.get('tail') or {})
        if r is not None:
            calls.append(r)
    if len(calls) < 2:
        return None
    return hammer(calls, threads=4, rounds=case.get('rounds') or min(HAMMER_ROUNDS.get(it['type'], 40) for it in case['items']))


def _hammer_items(label, tname, gt, k, budget):
    items = []
    for i in range(k):
        ch = R.HashChooser(f'{label}/{i}')
        try:
            items.append(mk_case(ch, tname, gt, budget))
        except R.ModelError:
            try:
                items.append(mk_case(SmallChooser(R.HashChooser(f'{label}/small/{i}')), tname, gt, 1))
            except R.ModelError:
                pass
    return items


def enum_hammer(tier):
    """every covered type x every constructor alternative: 3 different values built by that constructor (every optional field
    present in some, absent in others) - all threads are inside the SAME parser branch at the same time, with different field
    values; then every description kind inside a Transaction, and mixed bags of the composite types"""
    reps = 1 if tier == 'quick' else 6
    for rep in range(reps):
        for tname in TYPES:
            for alt in _alts(getattr(S, tname)):
                items = _hammer_items(f'c16tx-hammer/{rep}/{tname}/{alt.name}', tname, alt, 3, 2)
                if len(items) >= 2:
                    yield {'items': items}
        for alt in S.TransactionDescr.alts:
            d = derive(S.Transaction, {}, {'description': R.Ref(alt)})
            items = _hammer_items(f'c16tx-hammer/{rep}/tx-descr/{alt.name}', 'Transaction', d, 3, 2)
            if len(items) >= 2:
                yield {'items': items}
        for i in range(6):
            ch = R.HashChooser(f'c16tx-hammer/{rep}/mixed/{i}')
            items = []
            for j in range(4):
                tname = ch.choice(WEIGHTED)
                items += _hammer_items(f'c16tx-hammer/{rep}/mixed/{i}/{j}', tname, getattr(S, tname), 1, 2)
            if len(items) >= 2:
                yield {'items': items}


def classify_hammer(case):
    out = ['hammer:parsers']
    for it in case['items']:
        out.append('type=' + it['type'])
        if isinstance(it['v'], dict) and '_' in it['v']:
            out.append('ctor=' + it['v']['_'])
    out.append('same-type' if len({it['type'] for it in case['items']}) == 1 else 'mixed-types')
    return out


SUBCHECKS = [
    Sub('tx-enum', check_case, enum=enum_cases, classify=classify, nontrivial=nontrivial, shards=(16, 32),
        note='every covered type x constructor x combination of optional fields (values hash-chosen), Transaction x 7 '
             'descriptions x in_msg, msg_export_tr x envelope kind x 9 InMsg kinds, all-min / all-max values with empty, '
             'maximal and small tails'),
    Sub('tx-random', check_case, strategy=strat, classify=classify, nontrivial=nontrivial, n=(2000, 120000), shards=(16, 48)),
    Sub('two-threads-tx-parsers', check_hammer, enum=enum_hammer, classify=classify_hammer, nontrivial=lambda case: True,
        shards=(8, 16), case_cpu_s=120.0,
        note='every covered type x constructor: 3 values of that constructor encoded into cells, then parsed by 4 threads in tight '
             'loops at the same time (core.hammer, switch interval 1 us); Transaction x 7 descriptions; mixed bags of the composite '
             'types. Oracle = the fields and the remaining slice each parse yields alone'),
]
