"""
C09 — dictionary (HashMap) serialise/parse round trip.
Oracle: serialize() then every reader (Slice.load_hashmap, HashMap.parse, HashMap.from_cell, and through
store_dict -> load_dict / preload_dict) returns exactly the pairs; result keys ascending; result independent of insertion
order (same cell hash); empty map => serialize() is None and load_dict => None. Keys >= 2^n or < 0 => set/serialize raises,
never a map in which another key appears.
Histories / uses of the result (all plain data of the case or fixed per case):
 * readers without a value deserializer (values handed out as slices): the caller prints / logs / formats the result (dict, single
   values; describe()/look()) BEFORE reading it - every value slice still has exactly the stored bits and references; a from_cell map
   that was printed serialises to a cell holding the pairs; printing the map object / its values / the cell changes nothing.
 * the same map object serialised again after set / with_*_values / an in-place change of a value object.
 * maps of maps (sub-check maps-of-maps-and-in-place-changes): the value writer serialises another HashMap, the value reader parses
   one (callbacks that re-enter the library during the outer walk); one value object under several keys; value objects changed in
   place (inner.set / del, Address.set_anycast) between serialisations of the same outer object; a fresh outer object agrees.
 * mirrored halves whose values are == yet written differently (Address with / without anycast).
 * keys handed over as numbers that are not ints (sub-check number-keys-that-are-not-ints): Fraction / Decimal / float / bool / int
   subclass / IntEnum member / __index__ object / registered numbers.Integral, through set, set_int_key, a key_serializer, map_= and
   the .map attribute. The library may refuse such an object; what it takes must come back as an EQUAL key, and a value that is
   negative or above 2^n - 1 (by however little: -1/2, 2^n - 1/2, -1/2^n ...) must not end up in the map under any key.
 * maps whose tree is 340..450 forks deep (sub-check deep-trees; keys of 341..1023 bits that peel off one per level, labels of 0..2
   bits between the forks): the whole check above, the library being entered from a fresh thread, i.e. from a shallow call stack.
   (The library recurses two frames per level and reaches ~490 levels under the default recursion limit; deeper trees - TON allows
   1022 - are not asked for: an interpreter limit, not changed by the harness.)
Not asserted: the particular cell layout (C10); exception types; what repr()/str() print; key widths above 1023 bits (no such
dictionary exists in TON); trees deeper than 450 forks.
"""
from hypothesis import strategies as st
from harness.core import Sub, Fail, call, exc_sig, describe, look

RULE = ('case = key width n, list of (key, value) in insertion order, key form (int / bytes / bit string / Address for n=267 / '
        'hashed string for n=256), value kind (uint32 / coins / cell-in-ref). exhaustive sub-check: all key subsets for n <= 3 '
        '(thorough: n = 4, 65 535 maps). non-trivial = >= 2 keys sharing a non-empty prefix, or a single-entry map, or an '
        'invalid-key case; distinct = distinct case. every map case also reads the values as slices (no value deserializer) after the '
        'result was printed (repr/str/format of the dict and of single values), re-serialises a printed from_cell map and a printed '
        'map object. maps-of-maps: outer width, inner width, 1-4 inner maps (or addresses) shared among <= 8 outer keys, 0-4 in-place '
        'changes of the value objects between serialisations; value callbacks call HashMap.serialize / load_dict themselves. '
        'number-keys: grid of width x kind of number (Fraction, Decimal, float, bool, int subclass, IntEnum, __index__ object, registered '
        'Integral) x value p/q (just below 0 / just above 2^n - 1 at distances 1/2, 1/3, 2/3, 1/2^n; far outside; between two keys; the '
        'integers -1, 2^n, 0, 1, 2^n - 1 ...) x route (set, set_int_key, key_serializer, map_=, .map[...]) into an empty map or one that holds '
        'the end keys. deep-trees: spine of 340 / 400 / 450 forks (left, right, zigzag, random turns), off-spine leaves with uniform or mixed '
        'tails, 0-2 label bits between forks, key form int / bits / key_serializer, run from a fresh thread')
ASSUMPTIONS = ['python dict as the model of a finite map']


def _mk(n, vkind):
    from pytoniq_core.boc.hashmap.hashmap import HashMap
    hm = HashMap(n)
    if vkind == 'uint':
        hm.with_uint_values(32)
        des = lambda s: s.load_uint(32)
    elif vkind == 'int':
        hm.with_int_values(33)
        des = lambda s: s.load_int(33)
    elif vkind == 'coins':
        hm.with_coins_values()
        des = lambda s: s.load_coins()
    elif vkind == 'addr':
        hm.with_address_values()
        des = lambda s: (lambda a: None if a is None else (a.wc, a.hash_part.hex()))(s.load_address())
    else:  # cell in ref
        hm.value_serializer = lambda src, dest: dest.store_ref(src)
        des = lambda s: s.load_ref().hash
    return hm, des


def _val(vkind, v):
    from pytoniq_core.boc.builder import Builder
    from pytoniq_core.boc.address import Address
    if vkind in ('uint', 'coins'):
        return v & 0xFFFFFFFF, v & 0xFFFFFFFF
    if vkind == 'int':
        return (v & 0xFFFFFFFF) - (1 << 31), (v & 0xFFFFFFFF) - (1 << 31)
    if vkind == 'addr':
        if v % 7 == 3:
            return None, None                         # addr_none$00: a value like any other (two bits), not "no value"
        h = (v & 0xFFFFFFFF).to_bytes(32, 'big')
        return Address((v % 5 - 2, h)), (v % 5 - 2, h.hex())
    c = Builder().store_uint(v & 0xFFFFFFFF, 32).end_cell()
    return c, c.hash


def _keyform(form, n, k):
    """returns (key object passed to set(), kwargs)"""
    from pytoniq_core.boc.address import Address
    if form == 'int':
        return k, {}
    if form == 'bits':
        return format(k, '0%db' % n), {}
    if form == 'bytes':  # only when n % 8 == 0
        return k.to_bytes(n // 8, 'big'), {}
    # forms whose text is longer than the key although the VALUE fits the width (the only way to give a 15-bit key as bytes);
    # the library takes their integer value - it may also refuse them, but it must never store another key (see check)
    if form == 'bytes-ceil':
        return k.to_bytes((n + 7) // 8, 'big'), {}
    if form == 'bytes-long':
        return k.to_bytes((n + 7) // 8 + 1 + k % 3, 'big'), {}
    if form == 'bits-long':
        return '0' * (1 + k % 9) + format(k, '0%db' % n), {}
    if form == 'bits-short':   # int(key, 2) semantics: leading zeros may be left out
        return format(k, 'b'), {}
    if form == 'keyser':   # HashMap(n, key_serializer=f): the caller's key object goes through f, which returns the int
        return ('key', k), {}
    if form == 'hashed':   # n == 256: the key is sha256 of the text (hash_key=True)
        return 'name-%d' % k, {'hash_key': True}
    if form == 'address':  # n == 267, k encodes (wc, hash)
        return Address(((k >> 256) % 256 - 128, (k % (1 << 256)).to_bytes(32, 'big'))), {}
    raise ValueError(form)


LOOSE_FORMS = ('bytes-ceil', 'bytes-long', 'bits-long', 'bits-short')


def _intkey(form, n, k):
    if form == 'hashed':
        import hashlib
        return int.from_bytes(hashlib.sha256(('name-%d' % k).encode()).digest(), 'big')
    if form == 'address':
        wc = (k >> 256) % 256 - 128
        return (0b100 << 264) | ((wc & 0xFF) << 256) | (k % (1 << 256))
    return k


def _vshape(vkind, cmpv):
    """(bits, references) of one stored value"""
    if vkind == 'uint':
        return 32, 0
    if vkind == 'int':
        return 33, 0
    if vkind == 'coins':
        return 4 + 8 * ((cmpv.bit_length() + 7) // 8), 0
    if vkind == 'addr':
        return (2 if cmpv is None else 267), 0
    return 0, 1


def _overflows(n, model, vkind):
    from harness.ref import refdict
    def vbits(v):
        if vkind == 'uint':
            return 32
        if vkind == 'int':
            return 33
        if vkind == 'coins':
            return 4 + 8 * ((v.bit_length() + 7) // 8)
        if vkind == 'addr':
            return 2 if v is None else 267
        return 0
    mapping = {format(k, '0%db' % n): ('0' * vbits(v), []) for k, v in model.items()}
    from harness.ref.refcell import RefCellError
    try:
        root = refdict.build(mapping, n)
    except RefCellError:
        return True
    stack = [root]
    while stack:
        c = stack.pop()
        if len(c.bits) > 1023:
            return True
        stack.extend(c.refs)
    return False


def _after_prefix(cell):
    """slice positioned at an optional dictionary that follows other fields (a reference and 3 bits already consumed)"""
    from pytoniq_core.boc.builder import Builder
    other = Builder().store_uint(0xABC, 12).end_cell()
    s = Builder().store_ref(other).store_uint(5, 3).store_dict(cell).store_ref(other).end_cell().begin_parse()
    s.load_ref()
    s.load_uint(3)
    return s


def _inline_after_prefix(cell):
    from pytoniq_core.boc.builder import Builder
    o1 = Builder().store_uint(0xABC, 12).end_cell()
    o2 = Builder().store_uint(0xDEF, 12).store_ref(o1).end_cell()
    s = Builder().store_ref(o1).store_uint(21, 5).store_ref(o2).store_cell(cell).end_cell().begin_parse()
    s.load_ref()
    s.load_uint(5)
    s.load_ref()
    return s


def check(case):
    from pytoniq_core.boc.hashmap.hashmap import HashMap
    from pytoniq_core.boc.builder import Builder
    n, vkind, form = case['n'], case['v'], case['form']
    pairs = case['pairs']
    hm, des = _mk(n, vkind)
    if form == 'keyser':
        hm.key_serializer = lambda key: key[1]
    model = {}
    for k, v in pairs:
        key, kw = _keyform(form, n, k)
        val, cmpv = _val(vkind, v)
        ok, r = call(hm.set, key, val, **kw)
        if not ok and form in LOOSE_FORMS and not (form == 'bytes-ceil' and n % 8 == 0):
            ok, r = call(hm.set, k, val)           # refusing an over-long spelling is fine; the key is then given as an int
        if not ok:
            return Fail(f'set-raises-on-valid-key/{form}', f'{exc_sig(r)}: {r!r} n={n} key={k}')
        model[_intkey(form, n, k)] = cmpv
    ok, cell = call(hm.serialize)
    if model and _overflows(n, model, vkind):
        # some cell of the canonical tree would need more than 1023 bits: TON raises, so must the library
        if ok:
            return Fail('oversize-map-serialised', f'n={n}: a tree cell needs > 1023 bits but serialize() returned {cell!r}')
        return None
    if not ok:
        return Fail(f'serialize-raises/{type(cell).__name__}', f'{exc_sig(cell)}: {cell!r} n={n} keys={sorted(model)[:8]}')
    if not model:
        if cell is not None:
            return Fail('empty-map-not-None', repr(cell))
        ok, r = call(lambda: Builder().store_dict(None).end_cell().begin_parse().load_dict(n))
        if not ok or r is not None:
            return Fail('empty-map/load_dict-not-None', repr(r))
        ok, r = call(lambda: Builder().store_dict(None).end_cell().begin_parse().preload_dict(n))
        if not ok or r is not None:
            return Fail('empty-map/preload_dict-not-None', repr(r))
        return None
    if cell is None:
        return Fail('nonempty-map-serialises-to-None', '')
    exp_items = sorted(model.items())
    readers = {
        'load_hashmap': lambda: cell.begin_parse().load_hashmap(n, value_deserializer=des),
        'HashMap.parse': lambda: HashMap.parse(cell.begin_parse(), n, None, des),
        'from_cell': lambda: {k: des(v) for k, v in HashMap.from_cell(cell, n).map.items()},
        'load_dict': lambda: Builder().store_dict(cell).end_cell().begin_parse().load_dict(n, value_deserializer=des),
        'preload_dict': lambda: Builder().store_dict(cell).end_cell().begin_parse().preload_dict(n, value_deserializer=des),
        'load_dict@offset': lambda: _after_prefix(cell).load_dict(n, value_deserializer=des),
        'preload_dict@offset': lambda: _after_prefix(cell).preload_dict(n, value_deserializer=des),
    }
    kd = lambda bits: ('k', int(bits, 2), len(bits))
    undo = lambda d: {k[1]: v for k, v in d.items()} if all(isinstance(k, tuple) and len(k) == 3 and k[0] == 'k' and k[2] == n for k in d) else d
    readers['load_hashmap+key_deserializer'] = lambda: undo(cell.begin_parse().load_hashmap(n, kd, des))
    readers['load_dict+key_deserializer'] = lambda: undo(Builder().store_dict(cell).end_cell().begin_parse().load_dict(n, kd, des))
    if len(cell.bits) + 5 <= 1023 and len(cell.refs) + 2 <= 4:
        # the root edge stored inline (`Hashmap n X`, as in validators#11) after fields the caller has already read
        readers['load_hashmap@inline-after-consumed-refs'] = lambda: _inline_after_prefix(cell).load_hashmap(n, value_deserializer=des)
        readers['HashMap.parse@inline-after-consumed-refs'] = lambda: HashMap.parse(_inline_after_prefix(cell), n, None, des)
    for name, rd in readers.items():
        ok, got = call(rd)
        if not ok:
            return Fail(f'reader-raises/{name}', f'{exc_sig(got)}: {got!r} n={n} keys={[k for k, _ in exp_items][:8]}')
        if not isinstance(got, dict):
            return Fail(f'reader-not-dict/{name}', repr(got))
        items = list(got.items())
        if sorted(items) != exp_items:
            return Fail(f'roundtrip-pairs-differ/{name}', f'n={n} expected {exp_items[:6]} got {sorted(items)[:6]}')
        if [k for k, _ in items] != [k for k, _ in exp_items]:
            return Fail(f'keys-not-ascending/{name}', f'{[k for k, _ in items][:10]}')
    # readers WITHOUT a value deserializer hand the values out as slices; the caller prints / logs / formats what it got (the whole
    # dict, single values) BEFORE reading it - formatting a result is not an operation on it: every value is still exactly the stored
    # one (so many bits and references, reads back as the stored value, nothing behind it)
    raw = {
        'load_hashmap': lambda: cell.begin_parse().load_hashmap(n),
        'HashMap.parse': lambda: HashMap.parse(cell.begin_parse(), n),
        'from_cell': lambda: HashMap.from_cell(cell, n).map,
        'load_dict': lambda: Builder().store_dict(cell).end_cell().begin_parse().load_dict(n),
        'preload_dict@offset': lambda: _after_prefix(cell).preload_dict(n),
    }
    for i, (name, rd) in enumerate(raw.items()):
        ok, got = call(rd)
        if not ok or not isinstance(got, dict):
            return Fail(f'reader-raises/{name}/no-value-deserializer', f'{exc_sig(got) if not ok else ""}: {got!r} n={n}'[:400])
        how = (i + len(pairs)) % 3
        if how == 0:
            describe(got, *list(got.values())[:4])
        elif how == 1:
            look(got)
        else:
            for v_ in list(got.values())[:6]:
                look(v_)
        if [k for k in got] != [k for k, _ in exp_items]:
            return Fail(f'roundtrip-pairs-differ/{name}/no-value-deserializer', f'n={n} keys {list(got)[:8]}, expected {[k for k, _ in exp_items][:8]}')
        for k, cmpv in exp_items:
            sl = got[k]
            shape = _vshape(vkind, cmpv)
            ok, r = call(lambda: (sl.remaining_bits, sl.remaining_refs))
            if not ok or r != shape:
                return Fail('value-slice-differs-after-it-was-printed/size', f'{name}: n={n} key {k}: value slice has (bits, refs) = {r!r}, stored {shape}')
            ok, r = call(des, sl)
            if not ok or r != cmpv:
                return Fail('value-slice-differs-after-it-was-printed/content', f'{name}: n={n} key {k}: reads as {r!r}, stored {cmpv!r}'[:400])
            if sl.remaining_bits or sl.remaining_refs:
                return Fail('value-slice-differs-after-it-was-printed/leftover', f'{name}: n={n} key {k}: {sl.remaining_bits} bits / {sl.remaining_refs} refs behind the value')
    # ... the same for a map object made by from_cell, printed, and serialised again: parsing THAT gives the pairs
    ok, hmf = call(HashMap.from_cell, cell, n)
    if ok:
        (describe if len(pairs) % 2 else look)(hmf.map)
        describe(hmf)
        ok, cf = call(hmf.serialize)
        ok2, got = call(lambda: cf.begin_parse().load_hashmap(n, value_deserializer=des)) if ok and cf is not None else (False, cf)
        if not ok2 or list(got.items()) != exp_items:
            return Fail('from_cell-map-printed-then-serialised-differs', f'n={n}: {exc_sig(got) if isinstance(got, BaseException) else ""} '
                        f'{sorted(got.items())[:4] if ok2 else got!r}, expected {exp_items[:4]}'[:500])
    # ... and on the writing side: the caller prints the map object, its dict, its values and the cell it got; the same object then
    # serialises to the same cell, and the printed cell still parses to the pairs
    describe(hm, hm.map, cell, *list(hm.map.values())[:3])
    ok, again = call(hm.serialize)
    if not ok or again is None or again.hash != cell.hash:
        return Fail('serialize-differs-after-the-map-was-printed', f'n={n}: {again!r}'[:300])
    ok, got = call(lambda: cell.begin_parse().load_hashmap(n, value_deserializer=des))
    if not ok or list(got.items()) != exp_items:
        return Fail('roundtrip-pairs-differ/after-the-cell-was-printed', f'n={n}: {sorted(got.items())[:4] if ok else got!r}'[:400])
    # the module-level writer HashMap.serialize rests on, called directly with the caller's dict in ITS insertion order
    if form in ('int', 'bits', 'bytes'):
        from pytoniq_core.boc.hashmap.utils import serialize_dict
        direct = {}
        for k, v in pairs:
            direct.pop(_intkey(form, n, k), None)
            direct[_intkey(form, n, k)] = _val(vkind, v)[0]
        ok, c_direct = call(lambda: serialize_dict(direct, n, hm.value_serializer).end_cell())
        if not ok:
            return Fail(f'serialize_dict-raises/{type(c_direct).__name__}', f'{exc_sig(c_direct)}: {c_direct!r} n={n}')
        if c_direct.hash != cell.hash:
            ok, got = call(lambda: c_direct.begin_parse().load_hashmap(n, value_deserializer=des))
            return Fail('serialize_dict/differs-from-HashMap.serialize', f'n={n} insertion order {[k for k in direct][:8]}: parses back as '
                        f'{sorted(got.items())[:6] if ok else got!r}, expected {exp_items[:6]}')
    # store_dict writes the optional-reference framing and leaves nothing else
    s = Builder().store_dict(cell).end_cell().begin_parse()
    s.load_dict(n)
    if s.remaining_bits or s.remaining_refs:
        return Fail('load_dict/leftover', f'{s.remaining_bits} bits {s.remaining_refs} refs')
    # insertion-order independence: reversed and rotated orders give the same cell hash
    for variant in (list(reversed(pairs)), pairs[len(pairs) // 2:] + pairs[:len(pairs) // 2]):
        hm2, _ = _mk(n, vkind)
        if form == 'keyser':
            hm2.key_serializer = lambda key: key[1]
        last = {}
        for k, v in variant:
            last[k] = v
        # same final map: insert in the variant order but with the final values
        final = {k: v for k, v in pairs}
        for k, _ in variant:
            key, kw = _keyform(form, n, k)
            hm2.set(key, _val(vkind, final[k])[0], **kw)
        ok, c2 = call(hm2.serialize)
        if not ok or c2 is None or c2.hash != cell.hash:
            return Fail('insertion-order-dependence', f'n={n}')
    # the same map object keeps being used: overwrite one value (or add one key) after the first serialisation; the second
    # serialisation must hold the NEW map, and serialising did not disturb the map itself
    k0, v0 = pairs[0]
    newv = (v0 + 1) % (1 << 32)
    key, kw = _keyform(form, n, k0)
    val, cmpv = _val(vkind, newv)
    ok, r = call(hm.set, key, val, **kw)
    if not ok:
        return Fail('set-after-serialize-raises', f'{exc_sig(r)}: {r!r}')
    model2 = dict(model)
    model2[_intkey(form, n, k0)] = cmpv
    ok, c3 = call(hm.serialize)
    if not ok or c3 is None:
        return Fail('serialize-after-update-raises', repr(c3))
    ok, got = call(lambda: c3.begin_parse().load_hashmap(n, value_deserializer=des))
    if not ok or sorted(got.items()) != sorted(model2.items()):
        return Fail('stale-or-wrong-after-update', f'n={n}: serialised, overwrote key {k0}, serialised again: got '
                    f'{sorted(got.items())[:5] if ok else got!r}, expected {sorted(model2.items())[:5]}')
    # ... the value WRITER replaced on the same object between two serialisations (with_*_values), and a value changed in place
    if vkind == 'uint' and n + 60 <= 1023:
        hm.with_uint_values(40)
        ok, c4 = call(hm.serialize)
        ok2, got = call(lambda: c4.begin_parse().load_hashmap(n, value_deserializer=lambda s: s.load_uint(40))) if ok and c4 is not None else (False, c4)
        if not ok2 or sorted(got.items()) != sorted(model2.items()):
            return Fail('stale-or-wrong-after-update/value-writer-replaced', f'n={n}: serialised with 32-bit values, with_uint_values(40), serialised '
                        f'again: {sorted(got.items())[:4] if ok2 else got!r}')
        # a value replaced by one python's hash() cannot tell from it (-1 / -2; v and v + 2^61 - 1): the new value is written
        hmh = HashMap(n).with_int_values(65)
        keys_h = sorted(model2)[:3]
        for i, kk in enumerate(keys_h):
            hmh.set(kk, -1 if i == 0 else 12345 + i)
        ok, ch1 = call(hmh.serialize)
        if ok and ch1 is not None:
            exp_h = {kk: (-2 if i == 0 else 12345 + i + ((1 << 61) - 1)) for i, kk in enumerate(keys_h)}
            for kk, vv in exp_h.items():
                hmh.set(kk, vv)
            ok, ch2 = call(hmh.serialize)
            ok2, got = call(lambda: ch2.begin_parse().load_hashmap(n, value_deserializer=lambda s_: s_.load_int(65))) if ok and ch2 is not None else (False, ch2)
            if not ok2 or got != exp_h:
                return Fail('stale-or-wrong-after-update/value-replaced-by-a-hash-equal-one', f'n={n}: {got if ok2 else got!r}, expected {exp_h}')
        boxes = {k: [v] for k, v in model2.items()}
        hm3 = HashMap(n, value_serializer=lambda src, dest: dest.store_uint(src[0], 32))
        for k in boxes:
            hm3.set(k, boxes[k])
        ok, c5 = call(hm3.serialize)
        if ok and c5 is not None:
            kx = sorted(boxes)[len(boxes) // 2]
            boxes[kx][0] = (boxes[kx][0] + 7) & 0xFFFFFFFF               # the caller's value object changes, the map holds the same object
            exp5 = {k: b[0] for k, b in boxes.items()}
            ok, c6 = call(hm3.serialize)
            ok2, got = call(lambda: c6.begin_parse().load_hashmap(n, value_deserializer=des)) if ok and c6 is not None else (False, c6)
            if not ok2 or sorted(got.items()) != sorted(exp5.items()):
                return Fail('stale-or-wrong-after-update/value-changed-in-place', f'n={n}: key {kx}: {sorted(got.items())[:4] if ok2 else got!r}')
    return None


def check_mirror(case):
    """two halves of a fork that mirror each other - the same sub-keys on both sides, values that compare equal with == yet are
    written differently (the same account with and without anycast: Address.__eq__ ignores anycast, store_address writes it)"""
    from pytoniq_core.boc.hashmap.hashmap import HashMap
    from pytoniq_core.boc.address import Address
    n, sub = case['n'], case['sub']
    msb = 1 << (n - 1)
    hm = HashMap(n).with_address_values()
    exp = {}
    for j, k in enumerate(sub):
        for side in (0, 1):
            a = Address((case['wc'], bytes.fromhex(case['acc'])))
            anyc = None
            if (side == case['anycast_side']) ^ (j % 2 == 1 and case['alternate']):
                anyc = (case['depth'], case['pfx'] % (1 << case['depth']))
                a.set_anycast(*anyc)
            key = (k % msb) | (msb if side else 0)
            hm.set(key, a)
            exp[key] = (case['wc'], case['acc'], anyc)
    ok, cell = call(hm.serialize)
    if not ok:
        return Fail(f'mirror/serialize-raises/{type(cell).__name__}', f'{exc_sig(cell)}: {cell!r}')

    def de(s):
        a = s.load_address()
        return (a.wc, a.hash_part.hex(), None if a.anycast is None else (a.anycast.depth, a.anycast.rewrite_pfx))
    ok, got = call(lambda: cell.begin_parse().load_hashmap(n, value_deserializer=de))
    if not ok or got != exp:
        bad = [k for k in exp if not ok or got.get(k) != exp[k]][:3]
        return Fail('mirror/equal-but-differently-written-values-mixed-up', f'n={n} keys {bad}: got {[got.get(k) for k in bad] if ok else got!r}, '
                    f'expected {[exp[k] for k in bad]}')
    return None


def strat_mirror(tier):
    return st.fixed_dictionaries({'n': st.sampled_from([1, 2, 3, 8, 16, 64, 256]), 'sub': st.lists(st.integers(0, 2 ** 64), min_size=1, max_size=3, unique=True),
                                  'wc': st.sampled_from([0, -1, 5]), 'acc': st.binary(min_size=32, max_size=32).map(bytes.hex),
                                  'anycast_side': st.integers(0, 1), 'alternate': st.booleans(), 'depth': st.integers(1, 30),
                                  'pfx': st.integers(0, 2 ** 30)})


def check_nested(case):
    """a map whose values are maps (value writer = store_dict(inner.serialize()), value reader = load_dict(...): the callbacks call
    the library again, while the outer walk is under way), or addresses; several keys may hold the SAME value object. History: between
    two serialisations of the same outer object the value objects are changed in place (inner.set / del, Address.set_anycast)."""
    from pytoniq_core.boc.hashmap.hashmap import HashMap
    from pytoniq_core.boc.builder import Builder
    from pytoniq_core.boc.address import Address
    n, n2, vk = case['n'], case['n2'], case['vk']
    u32 = lambda s: s.load_uint(32)
    if vk == 'map':
        objs = []
        for prs in case['inner']:
            h = HashMap(n2).with_uint_values(32)
            for k, v in prs:
                h.set(k % (1 << n2), v)
            objs.append(h)
        outer = HashMap(n, value_serializer=lambda src, dest: dest.store_dict(src.serialize()))
        des = lambda s: s.load_dict(n2, value_deserializer=u32) or {}
        snap = lambda o: dict(sorted(o.map.items()))
    else:
        objs = [Address((i % 3 - 1, bytes([i + 1]) * 32)) for i in range(len(case['inner']))]
        outer = HashMap(n).with_address_values()

        def des(s):
            a = s.load_address()
            return (a.wc, a.hash_part.hex(), None if a.anycast is None else (a.anycast.depth, a.anycast.rewrite_pfx))
        anyc = {}
        snap = lambda o: (o.wc, o.hash_part.hex(), anyc.get(id(o)))      # objs are alive for the whole case
    held = {}
    for k, i in case['outer']:
        outer.set(k % (1 << n), objs[i % len(objs)])
        held[k % (1 << n)] = objs[i % len(objs)]
    steps = [None] + list(case['ops'])
    for t, op in enumerate(steps):
        if op is not None:
            i, k, v = op
            o = objs[i % len(objs)]
            if vk == 'map':
                k %= (1 << n2)
                if v % 4 == 0 and k in o.map:
                    del o.map[k]
                elif v % 4 == 1 and o.map:
                    del o.map[sorted(o.map)[k % len(o.map)]]
                else:
                    o.set(k, v)
            else:
                depth = 1 + k % 30
                anyc[id(o)] = (depth, v % (1 << depth))
                o.set_anycast(*anyc[id(o)])
        exp = {k: snap(o) for k, o in sorted(held.items())}
        ok, cell = call(outer.serialize)
        if not ok or cell is None:
            return Fail(f'serialize-raises/values-{vk}/{type(cell).__name__}', f'{exc_sig(cell) if not ok else ""}: {cell!r} n={n} n2={n2} step {t}')
        readers = {
            'load_hashmap': lambda: cell.begin_parse().load_hashmap(n, value_deserializer=des),
            'load_dict': lambda: Builder().store_dict(cell).end_cell().begin_parse().load_dict(n, value_deserializer=des),
            'from_cell': lambda: {k: des(v) for k, v in HashMap.from_cell(cell, n).map.items()},
        }
        for name, rd in readers.items():
            ok, got = call(rd)
            if not ok:
                return Fail(f'reader-raises/{name}/values-{vk}', f'{exc_sig(got)}: {got!r} n={n} n2={n2}')
            if got != exp or list(got) != list(exp) or any(isinstance(g, dict) and list(g) != sorted(g) for g in got.values()):
                bad = [k for k in exp if got.get(k) != exp[k]][:2]
                sig = 'roundtrip-pairs-differ' if t == 0 else 'stale-or-wrong-after-update/value-changed-in-place'
                return Fail(f'{sig}/values-{vk}', f'{name}: n={n} n2={n2} after {t} in-place change(s): keys {bad}: got {[got.get(k) for k in bad]}, '
                            f'the map holds {[exp[k] for k in bad]}'[:600])
        # a fresh outer object over the same value objects writes the same cell
        fresh = HashMap(n, value_serializer=outer.value_serializer, map_=dict(outer.map))
        ok, c2 = call(fresh.serialize)
        if not ok or c2 is None or c2.hash != cell.hash:
            return Fail(f'same-map-two-objects-two-cells/values-{vk}', f'n={n} n2={n2} after {t} in-place change(s)')
    return None


@st.composite
def st_nested(draw):
    n = draw(st.one_of(st.sampled_from([1, 2, 3, 8, 16, 64, 256]), st.integers(1, 500)))
    n2 = draw(st.one_of(st.sampled_from([1, 2, 8, 32, 256]), st.integers(1, 400)))
    ninner = draw(st.integers(1, 4))
    base = draw(st.integers(0, (1 << n) - 1))
    okey = st.one_of(st.integers(0, (1 << n) - 1), st.integers(0, 7).map(lambda lo: (base & ~7 | lo) % (1 << n)),
                     st.sampled_from([0, (1 << n) - 1, 1 << (n - 1)]))
    ikey = st.one_of(st.integers(0, (1 << n2) - 1), st.integers(0, 7))
    return {'n': n, 'n2': n2, 'vk': draw(st.sampled_from(['map', 'map', 'addr'])),
            'outer': draw(st.lists(st.tuples(okey, st.integers(0, 3)).map(list), min_size=1, max_size=8)),
            'inner': [draw(st.lists(st.tuples(ikey, st.integers(0, 2 ** 32 - 1)).map(list), min_size=0, max_size=6)) for _ in range(ninner)],
            'ops': draw(st.lists(st.tuples(st.integers(0, 3), ikey, st.integers(0, 2 ** 32 - 1)).map(list), min_size=0, max_size=4))}


def classify_nested(case):
    yield 'values=' + case['vk']
    yield 'in-place-changes=%d' % len(case['ops'])
    if any(not p for p in case['inner']) and case['vk'] == 'map':
        yield 'an-empty-inner-map'
    idx = [i % len(case['inner']) for _, i in case['outer']]
    if len(set(idx)) < len({k % (1 << case['n']) for k, _ in case['outer']}):
        yield 'one-object-under-several-keys'



def check_invalid(case):
    """keys that do not fit the width must be rejected, never aliased"""
    from pytoniq_core.boc.hashmap.hashmap import HashMap
    n = case['n']
    hm, des = _mk(n, 'uint')
    for k, v in case['pairs']:
        hm.set(k, v)
    bad = case['bad']
    where = 'negative' if bad < 0 else 'too-large'
    route = case.get('route', 'set')
    if route == 'set':
        ok, r = call(hm.set, bad, 12345)
        if not ok:
            return None
    elif route == 'map_':               # the constructor's map_ argument (what the library's own TL-B writers use)
        d = dict(hm.map)
        d[bad] = 12345
        if case.get('first'):
            d = {bad: 12345, **{k: v for k, v in d.items() if k != bad}}
        ok, hm2 = call(lambda: HashMap(n, map_=d).with_uint_values(32))
        if not ok:
            return None
        hm = hm2
        where += '/via-map_'
    elif route == 'address':            # width 267: an Address object whose parts do not fit addr_std (int8 workchain, 256-bit account)
        from pytoniq_core.boc.address import Address
        wc = [128, 255, 256, -129, 2 ** 31, -2 ** 31][abs(bad) % 6]
        acc = b'\x11' * 32
        if abs(bad) % 7 == 0:
            wc, acc = 0, b'\x22' * 31          # (an over-long account is not generated: such an object is no address at all)
        n = 267
        hm, des = _mk(n, 'uint')
        hm.set(Address((0, b'\x11' * 32)), 1)
        hm.set(Address((-1, b'\x11' * 32)), 2)
        ok, r = call(hm.set, Address((wc, acc)), 12345)
        if not ok:
            return None
        where = f'address-object/wc={wc},len={len(acc)}'
        ok, cell = call(hm.serialize)
        if not ok:
            return None
        ok, got = call(lambda: cell.begin_parse().load_hashmap(n, value_deserializer=des))
        return Fail('invalid-key-accepted/address-object-outside-addr_std', f'{where} stored without error; map parses back as {got if ok else got!r}')
    else:                               # the public .map attribute
        hm.map[bad] = 12345
        where += '/via-map-attribute'
    ok, cell = call(hm.serialize)
    if not ok:
        return None
    ok, got = call(lambda: cell.begin_parse().load_hashmap(n, value_deserializer=des))
    return Fail(f'invalid-key-accepted/{where}', f'n={n} key={bad} stored without error; map parses back as {got if ok else got!r}')


def enum_subsets(tier):
    for n in (1, 2, 3) + ((4,) if tier == 'thorough' else ()):
        for mask in range(1 << (1 << n)):
            keys = [k for k in range(1 << n) if (mask >> k) & 1]
            # insertion order: rotate by mask so that orders vary
            r = mask % max(1, len(keys))
            keys = keys[r:] + keys[:r]
            yield {'n': n, 'v': 'uint', 'form': 'int' if mask % 2 else 'bits', 'pairs': [[k, k * 7 + mask] for k in keys]}


WIDTHS = [1, 2, 3, 4, 5, 6, 7, 8, 15, 16, 32, 64, 256, 267, 1023]


@st.composite
def st_case(draw):
    n = draw(st.one_of(st.sampled_from(WIDTHS), st.integers(1, 1023)))
    vkind = draw(st.sampled_from(['uint', 'coins', 'cell', 'addr', 'int']))
    forms = ['int', 'bits', 'keyser'] + (['bytes'] if n % 8 == 0 else []) + (['address'] if n == 267 else []) + (['hashed', 'hashed'] if n == 256 else [])
    form = draw(st.sampled_from(forms + forms + list(LOOSE_FORMS)))
    # leaf must fit in a cell: label (<= n + ~12 bits) + value; addresses take 267 bits
    vbits = {'uint': 32, 'coins': 36, 'cell': 0, 'addr': 267, 'int': 33}[vkind]
    if n + 12 + vbits > 1023 and draw(st.integers(0, 9)):
        vkind = 'cell'  # mostly keep leaves within a cell; the rest is the 'overflow' class (must raise like TON)
    cnt = draw(st.integers(0, 40 if n > 5 else min(40, 1 << n)))
    if form == 'address':
        keyst = st.integers(0, (1 << 264) - 1)
    elif form == 'hashed':
        keyst = st.integers(0, 50)
    else:
        # clustered keys: share prefixes
        base = draw(st.integers(0, (1 << n) - 1))
        keyst = st.one_of(st.integers(0, (1 << n) - 1),
                          st.integers(0, min(n, 12)).flatmap(lambda sh: st.integers(0, (1 << sh) - 1).map(lambda lo: ((base >> sh) << sh) | lo)),
                          st.sampled_from([0, (1 << n) - 1, 1 << (n - 1), (1 << (n - 1)) - 1]))
    keys = draw(st.lists(keyst, min_size=cnt, max_size=cnt))
    pairs = [[k, draw(st.integers(0, 2 ** 32 - 1))] for k in keys]
    return {'n': n, 'v': vkind, 'form': form, 'pairs': pairs}


@st.composite
def st_invalid(draw):
    n = draw(st.one_of(st.sampled_from(WIDTHS), st.integers(1, 600)))
    pairs = [[draw(st.integers(0, (1 << n) - 1)), draw(st.integers(0, 2 ** 32 - 1))] for _ in range(draw(st.integers(0, 5)))]
    bad = draw(st.one_of(st.integers(1 << n, (1 << n) + 5), st.integers(1 << n, 1 << (n + 3)), st.integers(-5, -1),
                         st.integers(-(1 << n), -1), st.integers(-(1 << (n + 1)), -(1 << n))))
    return {'n': n, 'pairs': pairs, 'bad': bad, 'route': draw(st.sampled_from(['set', 'set', 'map_', 'map_', 'item', 'address'])), 'first': draw(st.booleans())}


def _shares_prefix(case):
    n = case['n']
    ks = sorted({k for k, _ in case['pairs']})
    if case.get('form') == 'address':
        return len(ks) >= 2
    for a, b in zip(ks, ks[1:]):
        if n >= 2 and (a >> (n - 1)) == (b >> (n - 1)):
            return True
    return False


def classify(case):
    n = case['n']
    yield 'n=' + (str(n) if n <= 8 else '9-64' if n <= 64 else '65-267' if n <= 267 else '268-1023')
    if 'bad' in case:
        yield 'bad=' + ('negative' if case['bad'] < 0 else 'too-large')
        yield 'bad-route=' + case.get('route', 'set')
        return
    cnt = len({k for k, _ in case['pairs']})
    yield 'entries=' + ('0' if cnt == 0 else '1' if cnt == 1 else '2-8' if cnt <= 8 else '9+')
    yield 'form=' + case['form']
    yield 'v=' + case['v']
    if n > 900:
        yield 'possible-overflow-width'
    if len(case['pairs']) != cnt:
        yield 'overwrites'


def nt(case):
    if 'bad' in case:
        return True
    cnt = len({k for k, _ in case['pairs']})
    return cnt == 1 or _shares_prefix(case)



# -- keys given as numbers that are not ints -------------------------------------------------------------------------------------

NUM_KINDS = ('fraction', 'decimal', 'float', 'bool', 'int-subclass', 'int-enum', 'index-object', 'registered-integral')


def _number(kind, p, q):
    """the caller's key object: the number p/q as a Fraction / Decimal / float (nearest one; +-inf beyond the float range), or the
    integer p as a bool, an int subclass instance, an IntEnum member, an object with __index__, a numbers.Integral by registration"""
    from fractions import Fraction
    if kind == 'fraction':
        return Fraction(p, q)
    if kind == 'decimal':
        from decimal import Decimal
        ip, rem = divmod(abs(p), q)
        return Decimal(('-' if p < 0 else '') + str(ip) + '.' + str(rem * 10 ** 8 // q).zfill(8))      # exact whatever the context
    if kind == 'float':
        try:
            return float(Fraction(p, q))
        except OverflowError:
            return float('inf') if p > 0 else float('-inf')
    if kind == 'bool':
        return bool(p)
    if kind == 'int-subclass':
        return type('Key', (int,), {})(p)
    if kind == 'int-enum':
        import enum
        return enum.IntEnum('Op', {'member': p}).member
    cls = type('Idx', (), {'__init__': lambda self, v: setattr(self, 'v', v), '__index__': lambda self: self.v,
                           '__hash__': lambda self: hash(self.v), '__eq__': lambda self, o: self is o})
    if kind == 'registered-integral':
        import numbers
        cls.__int__ = lambda self: self.v
        numbers.Integral.register(cls)
    return cls(p)


def _exact(kind, x):
    """exact value of the key object as a Fraction, or +-inf"""
    from fractions import Fraction
    if kind == 'float' and x in (float('inf'), float('-inf')):
        return x
    if kind in ('fraction', 'decimal', 'float'):
        return Fraction(x)
    if kind in ('index-object', 'registered-integral'):
        return Fraction(x.v)
    return Fraction(int.__index__(x) if kind != 'bool' else int(x))


def _num_class(n, val):
    if val < 0:
        return 'negative'
    if val > (1 << n) - 1:
        return 'too-large'
    return 'fits' if val.denominator == 1 else 'between-two-keys'


def check_numkeys(case):
    """a key handed over as a number that is not an int (class of use: Fraction / Decimal / float / bool / int subclass / IntEnum /
    __index__ object where an int is meant), through every way a key gets into a map. Whether the library takes such an object at all
    is its choice; but a value that is negative or above 2^n - 1 is never stored (as whichever key), and a key that IS taken comes
    back as an equal key (round trip) - so a value between two keys cannot be taken silently either."""
    from pytoniq_core.boc.hashmap.hashmap import HashMap
    n, kind, route = case['n'], case['kind'], case['route']
    x = _number(kind, case['p'], case['q'])
    val = _exact(kind, x)
    cls = _num_class(n, val)
    hm, des = _mk(n, 'uint')
    model = {}
    for k, v in case['pairs']:
        hm.set(k, v)
        model[k] = v
    if route == 'set':
        ok, r = call(hm.set, x, 12345)
    elif route == 'set_int_key':
        ok, r = call(hm.set_int_key, x, 12345)
    elif route == 'keyser':                 # the caller's key_serializer hands the number on
        hm.key_serializer = lambda key: key[0]
        ok, r = call(hm.set, [x], 12345)
    elif route == 'map_':
        d = {x: 12345, **{k: v for k, v in hm.map.items() if k != x}} if case.get('first') else {**hm.map, x: 12345}
        ok, r = call(lambda: HashMap(n, map_=d).with_uint_values(32))
        if ok:
            hm = r
    else:
        hm.map[x] = 12345
        ok = True
    if not ok:
        return None
    ok, cell = call(hm.serialize)
    if not ok:
        return None
    ok, got = call(lambda: cell.begin_parse().load_hashmap(n, value_deserializer=des))
    what = f'n={n}: {x!r} (= {val}) taken as a key through {route}; the map {model} then parses back as {got if ok else got!r}'[:600]
    if cls == 'fits':
        exp = dict(model)
        exp[int(val)] = 12345
        if not ok or got != exp or list(got) != sorted(exp):
            return Fail(f'number-key-stored-under-another-key/{kind}', what)
        return None
    if cls == 'between-two-keys':
        return Fail(f'number-key-silently-rounded-to-another-key/{kind}', what)
    return Fail(f'invalid-key-accepted/{cls}/as-{kind}', what)


def enum_numkeys(tier):
    widths = [1, 2, 3, 8, 16, 53, 64, 256, 267, 1023] + ([4, 5, 7, 15, 32, 52, 54, 63, 65, 128, 512, 1022] if tier == 'thorough' else [])
    for n in widths:
        top = (1 << n) - 1
        ends = [[k, 100 + i] for i, k in enumerate(sorted({k for k in (0, 1, top - 1, top) if 0 <= k <= top}))]
        # p/q: just outside the key range on either side (at several distances from the nearest key, so that truncation, floor, ceiling
        # and rounding each alias at least one of them), far outside, between two keys, and the integers themselves
        fractional = [(-1, 2), (-1, 3), (-2, 3), (-top, top + 1), (-3, 2), (-1, 1 << 40), (-2 * top - 1, 2), (-(top + 1) * 2 + 1, 2),
                      (2 * top + 1, 2), (3 * top + 1, 3), (3 * top + 2, 3), (top * (top + 1) + 1, top + 1), (2 * top + 3, 2), (4 * top + 3, 2),
                      (1, 2), (2 * top - 1, 2), (1, 3)]
        integral = [(-1, 1), (-top - 1, 1), (-(1 << (n + 8)), 1), (top + 1, 1), (2 * top + 1, 1), (1 << (n + 8), 1), (0, 1), (1, 1), (top, 1), (top >> 1, 1)]
        i = 0
        for kind in NUM_KINDS:
            vals = [(0, 1), (1, 1)] if kind == 'bool' else integral if kind not in ('fraction', 'decimal', 'float') else fractional + integral
            for p, q in vals:
                for route in ('set', 'set_int_key', 'keyser', 'map_', 'item'):
                    i += 1
                    yield {'n': n, 'kind': kind, 'p': p, 'q': q, 'route': route, 'first': i % 2, 'pairs': ends if i % 3 else []}


def classify_numkeys(case):
    yield 'number=' + case['kind']
    yield 'route=' + case['route']
    yield 'value=' + _num_class(case['n'], _exact(case['kind'], _number(case['kind'], case['p'], case['q'])))
    yield 'n=' + (str(case['n']) if case['n'] <= 8 else '9-64' if case['n'] <= 64 else '65-267' if case['n'] <= 267 else '268-1023')


# -- dictionaries that are hundreds of forks deep --------------------------------------------------------------------------------

def _shallow(fn, *a):
    """fn(*a) on a thread of its own: the library is entered from a call stack a few frames deep, however deep the harness's own
    stack is at this point (Hypothesis, replay, a thread pool ...). Exceptions come back with their traceback."""
    import threading
    box = []

    def run():
        try:
            box.append((True, fn(*a)))
        except BaseException as e:
            box.append((False, e))
    t = threading.Thread(target=run, daemon=True)
    t.start()
    t.join()
    if not box[0][0]:
        raise box[0][1]
    return box[0][1]


def _deep_keys(d, n, side, gap, tail, seed):
    """key set (ints below 2^n) whose Patricia tree has a spine of d forks: at each of them one child continues the spine, the other is
    a leaf (sometimes a fork of two leaves); `gap` = longest label between two forks of the spine, `tail` = how the leaves' keys end"""
    import hashlib
    stream, blocks = [], [0]

    def nxt(mod):
        if not stream:
            blocks[0] += 1
            stream.extend(hashlib.sha256(f'{d}/{n}/{side}/{gap}/{tail}/{seed}/{blocks[0]}'.encode()).digest())
        return stream.pop() % mod

    def fill(length, i):
        if tail == 'zeros':
            return '0' * length
        if tail == 'ones':
            return '1' * length
        if tail == 'alternate':
            return ('0' if i % 2 else '1') * length
        return ''.join('01'[nxt(2)] for _ in range(length))
    keys = []
    prefix = ''
    budget = n - d
    for i in range(d):
        li = min(budget, nxt(gap + 1)) if gap else 0
        budget -= li
        prefix += ''.join('01'[nxt(2)] for _ in range(li))
        s = {'left': '0', 'right': '1', 'zigzag': '01'[i % 2]}.get(side) or '01'[nxt(2)]
        off = prefix + ('1' if s == '0' else '0')
        t = fill(n - len(off), i)
        keys.append(off + t)
        if t and nxt(5) == 0:
            keys.append(off + t[:-1] + ('1' if t[-1] == '0' else '0'))
        prefix += s
    keys.append(prefix + fill(n - len(prefix), d))
    return [int(k, 2) for k in keys]


def _deep_case(case):
    keys = _deep_keys(case['deep'], case['n'], case['side'], case['gap'], case['tail'], case['seed'])
    order = keys if case['seed'] % 3 == 0 else keys[::-1] if case['seed'] % 3 == 1 else keys[1::2] + keys[0::2]
    return {'n': case['n'], 'v': case['v'], 'form': case['form'], 'pairs': [[k, (k * 31 + case['seed']) & 0xFFFFFFFF] for k in order]}


def check_deep(case):
    """a map whose tree is hundreds of forks deep (TON allows 1022; the library walks the tree recursively, two Python frames per
    level in the writer and in the parsers, and gets to ~490 levels under the default recursion limit when it is entered from a
    shallow stack - depths up to 450 are asked for here): the whole round-trip check of `check`, entered from a fresh thread"""
    res = _shallow(check, _deep_case(case))
    if res is not None:
        return Fail('deep-tree/' + res.signature, f'{case}: {res.detail}'[:1500])
    return None


def enum_deep(tier):
    pat = lambda d: ((0, 'zeros', d + 1), (0, 'mixed', d + 1), (1, 'ones', 1023), (2, 'mixed', min(960, 2 * d)), (0, 'alternate', d + 17))
    sides = ('left', 'right', 'zigzag', 'random')
    if tier == 'thorough':
        grid = [(d, side, p) for d in (300, 340, 360, 380, 400, 420, 440, 450) for side in sides for p in range(5)]
    else:           # every depth, side and label pattern at least once; one case per shard
        grid = [(340, 'left', 0), (340, 'random', 3), (400, 'right', 1), (400, 'zigzag', 2), (400, 'random', 4), (450, 'left', 2),
                (450, 'zigzag', 0), (450, 'random', 3)]
    for i, (d, side, p) in enumerate(grid):
        gap, tail, n = pat(d)[p]
        yield {'deep': d, 'n': n, 'side': side, 'gap': gap, 'tail': tail, 'seed': i, 'v': ['uint', 'cell', 'coins', 'int'][i % 4],
               'form': ['int', 'bits', 'keyser'][i % 3]}


def classify_deep(case):
    yield 'forks-on-the-longest-path=%d' % case['deep']
    yield 'spine=' + case['side']
    yield 'labels-between-forks<=%d' % case['gap']
    yield 'n=' + ('268-1023' if case['n'] > 267 else '65-267')


SUBCHECKS = [
    Sub('all-key-subsets-small-widths', check, enum=enum_subsets, classify=classify, nontrivial=nt, shards=(8, 32), exhaustive=True,
        note='every non-empty... and the empty key subset for widths 1..3 (quick) and 4 (thorough)'),
    Sub('random-maps', check, strategy=lambda tier: st_case(), classify=classify, nontrivial=nt, n=(1500, 40000), shards=(16, 32)),
    Sub('mirrored-halves-with-equal-values', check_mirror, strategy=strat_mirror, n=(400, 10000), shards=(4, 16),
        classify=lambda c: ['n=%d' % c['n']], nontrivial=lambda c: True,
        note='both halves of the root fork hold the same sub-keys; values are the same account with / without anycast (== ignores anycast)'),
    Sub('maps-of-maps-and-in-place-changes', check_nested, strategy=lambda tier: st_nested(), classify=classify_nested, nontrivial=lambda c: True,
        n=(160, 10000), shards=(8, 16),
        note='value writer / reader callbacks that serialise / parse another map; one value object under several keys; value objects changed '
             'in place (inner.set / del, Address.set_anycast) between serialisations of the same outer object'),
    Sub('invalid-keys', check_invalid, strategy=lambda tier: st_invalid(), classify=classify, nontrivial=nt, n=(1500, 20000), shards=(8, 16)),
    Sub('number-keys-that-are-not-ints', check_numkeys, enum=enum_numkeys, classify=classify_numkeys, nontrivial=lambda c: True, shards=(8, 16),
        note='grid: width x kind of number (Fraction, Decimal, float, bool, int subclass, IntEnum, __index__ object, registered Integral) x '
                              'value (just outside the key range on either side, far outside, between two keys, the integers) x route into the map'),
    Sub('deep-trees', check_deep, enum=enum_deep, classify=classify_deep, nontrivial=lambda c: True, shards=(8, 16), case_cpu_s=60.0,
        note='maps whose tree has a path of 340..450 forks (keys of 341..1023 bits), the library entered from a fresh thread (a shallow stack)'),
]

# the same generated cases, several at a time, checked by threads that run at the same time (core.run_overlapping): per-call state
# kept in a place two calls share shows only there
SUBCHECKS.append(__import__('harness.core', fromlist=['overlapped']).overlapped(next(s for s in SUBCHECKS if s.name == 'random-maps'), k=3, n=(40, 1500)))
