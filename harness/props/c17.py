"""C17 — TVM stack values round-trip and serialising does not consume them.

A case is plain data: {'stack': [value spec, ...]} (bottom of the stack first), value specs being
    {'t':'null'} | {'t':'int','v':'<decimal>'} | {'t':'cell','c':CELL} | {'t':'slice','c':CELL,'cb':n,'cr':r}
    {'t':'builder','c':CELL} | {'t':'tuple','items':[...]} | {'t':'cont','k':KIND, ...fields}
    CELL = {'bits':'0101..','refs':[CELL,...]};  slice = CELL after loading `cb` bits and `cr` references
    cont fields: std: cdata, code{c,cb,cr} | envelope: cdata, next | quit: exit_code | quit_exc | repeat: count, body,
    after | until: body, after | again: body | while_cond / while_body: cond, body, after | pushint: value, next
    cdata = {'nargs': int|None, 'stack': [values]|None, 'save': [[key 0..15, value],...], 'cp': int|None}

Python types handed to `VmStack.serialize` (read off pytoniq_core/tlb/vm_stack.py): None, int, Cell, Slice, Builder,
`VmTuple(list)` for tuples (a plain list is not accepted by VmStackValue.serialize), `VmCont('vmc_<kind>', **fields)`
with `cdata=VmControlData('vm_ctl_data', nargs=, stack=, save=, cp=)`. All four cdata attributes must exist
(`serialize` reads them unconditionally); "absent" is None. `stack` must be a *Cell* holding a serialised VmStack
(`builder.store_cell(value.stack)`), `save` must be the dictionary root *Cell* or None (`Builder.store_dict` takes
Optional[Cell]; a HashMap object is not accepted) — the check builds them with `VmStack.serialize(list)` and
`HashMap(4).set_int_key(k, VmStackValue.serialize(v)).serialize()`.

Oracle, per case (one fresh build of the stack `s`, snapshot, c1 = serialize(s), c2 = serialize(s)):
  (B) schema    : harness/ref/refvmstack.py (independent; reads the cell only via .bits.to01()/.refs) decodes c1 as
                  VmStack, consuming every cell exactly, to the values of the spec in the same order. Integer form:
                  a value decoded from the 64-bit form that is not the spec value, the spec value not fitting int64 ->
                  `int-form/non-int64-in-64-bit-form`; a value with |v| < 2^63 written in the 257-bit form ->
                  `int-form/small-int-in-257-form`; -2^63 is accepted in either form.
  (A) round trip: VmStack.deserialize(c1.begin_parse()) equals what the independent decoder read from c1, value by
                  value (A together with B is "deserialize(serialize(s)) == s"; splitting it attributes a difference
                  to the writer or to the reader). A direct comparison with the spec is kept as a safety net
                  (`roundtrip/unattributed`). Cells are compared structurally (bits and references, recursively),
                  slices/builders by remaining bits + references, ints exactly, null as None, tuples element-wise,
                  continuations field-wise. Charitable reading of the asymmetric continuation API: a missing
                  attribute equals None; cdata.stack may come back as a list of values or as a Cell; cdata.save may
                  come back as None (empty), a dictionary root Cell, or a dict key -> Slice/value (a Slice is
                  decoded by the independent decoder and must hold exactly one VmStackValue).
  (C) unconsumed: every caller-held object deep-equals its pre-call snapshot after the first call (and after the
                  second), the caller's list is unchanged, and c1, c2 are equal (hash and structure). A hash
                  difference is reported only when no mutation was seen (otherwise it is its consequence).

  (I) formatting : what a caller's logging / debugger does with the values it holds is not an operation on them. Between two
                  serialisations every reachable object is formatted BY ITSELF (the list, each value, each tuple item, the
                  code slice / control data / nested continuations of a continuation, the cells below a cell, slice or builder) -
                  round 1 exactly once (core.look: one str + one repr), round 2 repeatedly (core.describe: repr, ascii, str,
                  format, f-string, %-formatting, bool); after each round the values deep-equal the snapshot and serialise to
                  c1. Parse side: c1 is formatted once and parsed, every parsed value and c1 are formatted repeatedly: the values
                  read as from the unformatted cell, serialise to c1 (where clause E applies) and a further parse agrees.
                  `formatting-is-not-an-operation/<printed-once|printed-repeatedly|cell-printed-..|parsed-values-printed>/<class>`
  Further history clauses (each only when everything before held): (D) value changed by the caller between two calls, (E)
  parsed stack serialised again, (F) parsed values used / edited then the cell parsed again, (G) stack behind a consumed
  prefix, (H) a refused serialize leaves the values intact.
  (D') reference replaced: the first reference of the first builder that has one is replaced (through the `refs` setter or in the
                  list) between two serialisations, earlier results alive - bits and reference COUNT are what they were; the
                  new cell denotes the builder as it is now. `after-mutation/stale-or-wrong/reference-replaced-<how>`
  (J) results are values: a fresh build is serialised and parsed, tree of the cell and reading of the parsed values noted; then
                  the caller carries on with ITS objects the way they are meant to be used (reads bits and a reference from
                  every slice it holds, code slices of continuations included; stores bits and a reference into every
                  builder; appends to every tuple), serialises them as they are now, parses that. The earlier cell is bit for
                  bit what it was and parses to the original values, the earlier parsed values read as before, the new cell
                  denotes the values as they are now; all re-checked after the later calls.
                  `result-shares-state-with-the-callers-values/..`, `parsed-values-share-state/..`, `after-use/..`
  (K) temporaries: for the first two container values of the stack: built, serialised alone, result kept, value dropped; values
                  of the same type, shape and sizes but other content (referenced cells complemented, ints moved by one) are
                  built until one lives at the dead one's address (<= 8 tries) and serialised: the cell denotes the new value
                  and parses to it; then the other way round. `temporaries/earlier-value-shows-through/<type>/<class>`

Sub-check `deep-stacks-at-the-recursion-limit` (enumerated, so that no Hypothesis frame / raised recursion limit surrounds the
call): stacks of 900..1023 entries (fills: ints and nulls / eleven kinds of value / short tuples) and smaller stacks called
from 100..950 frames down, entries + caller depth sweeping limit-40..limit+8 (limit = sys.getrecursionlimit() as found); tuples
of length 1, 2, 3 nested up to limit/2 (limit/4) levels. Every library call is made in a fresh thread (empty call stack) below
`pad` frames. Oracle: a RecursionError is accepted where entries + pad (or frames-per-level x nesting + pad) is within 45 of
the limit, otherwise and for any other exception it is a failure; a returned cell decodes (loop-based reader; for nested tuples
a hand-derived level-by-level walk) to ALL entries in order, twice the same cell, caller's list and values untouched (also
after a refusal, after which the lower 60 entries serialise correctly), parsing gives all entries or RecursionError; for the
ints fill the hand-assembled cell of the same stack has the same hash and is parsed at every depth, also where the writer
refuses. Signatures `deep/..`.

Attribution of continuation read-back failures: `VmCont.deserialize` is probed with the 36-bit slice
'1000' + int32(5) (vmc_quit); when that does not give exit_code 5 the reader demonstrably does not skip the
constructor tag, and every read-back difference/exception located in a continuation kind that has inline data after
its tag (std, envelope, quit, repeat, pushint) gets the signature `deserialize/cont-tag-not-skipped`. For an
exception the attribution is confirmed by re-running the read-back with those continuations replaced by
vmc_quit_exc; what still fails then is reported separately.

Not asserted / excluded:
  * vm_stk_nan and the library's private `bytes` branch ('0200' + bytes): not among the statement's supported values.
  * the text any formatting produces; `type_` of VmControlData, object identity of results, the particular VmCellSlice window the writer picks
    (st_bits/st_ref may be anything that denotes the remaining content), the dictionary label forms of the save list.
  * Values that cannot be laid out by the schema (a VmStackValue needing more than 3 references next to the `rest`
    reference, > 4 in a tuple entry/dictionary leaf, or > 1023 bits) are not generated: the generator degrades them
    (`_fit`) before the case is produced, so cases remain plain constructed data.
  * plain Python lists as tuples and bool as int are not generated (VmTuple is the library's tuple type).
  * exotic cells are not generated. Stack depth <= 40 quick, <= 300 thorough in the random sub-checks, 900..1023 in the deep one
    (a VmStackList chain is as deep as the stack and cells are at most 1024 deep; the statement's 2^24-1 is "in principle").
  * that a stack near the recursion limit IS serialised / parsed: the unchanged library raises RecursionError from about
    986 entries (492 / 246 tuple levels) under the default limit; only a wrong result is a failure there. Changing the
    recursion limit, deeply nested continuations.
  * Trusted base: Builder/Cell construction, `Cell.hash`, `HashMap.serialize` for building the save-list input.

env VERIF_IGNORE_SIG='sig1,sig2' (development aid, default empty): failures with these signatures are dropped and
the remaining clauses of the same case are still evaluated. Signatures listed in known_findings.json are reported
only when a case has no other failure, so the search continues behind them as well.
"""
import functools
import json
import os

from hypothesis import strategies as st
from harness.core import Sub, Fail, call, exc_sig, load_known
from harness.ref import refvmstack as rv

RULE = ('case = a stack (list, bottom first) of value specs: null, int (decimal string), cell/slice/builder (bit '
        'string + nested refs; slices with cb bits / cr refs already loaded), tuple (nested <= 4, lengths 0,1,2,3+), '
        'continuation (all ten kinds, control data nargs/stack/save/cp each absent, zero or boundary). depth 0..40 '
        'quick, <= 300 thorough; ints at +-2^63 and +-2^256 +-2. enumerated sub-check: every boundary int, tuple '
        'length 0..8 x nesting 1..4, every continuation kind x control-data variant, depth ladder, one stack holding '
        'all boundary ints. '
        'every case also carries the histories: serialise twice; values / cell / parsed values formatted (str, repr, format, '
        'f-string, bool of EACH reachable object by itself, once and repeatedly) between two uses; parsed values used and edited '
        'then parsed again; a value changed between two calls (tuple appended, builder bit stored / flipped, builder reference '
        'replaced); a refused call; the stack behind a consumed prefix; the caller reading from its slices / storing into its '
        'builders / appending to its tuples AFTER a call, every earlier result re-checked and the new state serialised; a value '
        'dropped and a same-shaped one with other content built at its address while the earlier result is alive. '
        'deep sub-check (enumerated): stacks of 900..1023 entries and tuples nested to the recursion limit, called in a fresh '
        'thread from a chosen depth, totals sweeping the band around sys.getrecursionlimit(). '
        'non-trivial = contains a tuple of length >= 2, a continuation, or an int within 1 of a form boundary '
        '(+-2^63, range ends); distinct = distinct case')
ASSUMPTIONS = ['harness/ref/refvmstack.py: independent VmStack/VmCont/HashmapE decoder over (bits, refs) trees, '
               'self-checked on hand-assembled encodings',
               'Builder.store_bits/store_ref/end_cell, Cell.begin_parse, Slice.load_bits/load_ref, Cell.hash and '
               'HashMap.serialize (used to construct inputs)']

M63 = 1 << 63
INT_MIN, INT_MAX = -(1 << 256), (1 << 256) - 1
INLINE_KINDS = ('std', 'envelope', 'quit', 'repeat', 'pushint')
CONT_FIELDS = {
    'std': (('cdata', 'cdata'), ('code', 'slice')),
    'envelope': (('cdata', 'cdata'), ('next', 'cont')),
    'quit': (('exit_code', 'int'),),
    'quit_exc': (),
    'repeat': (('count', 'int'), ('body', 'cont'), ('after', 'cont')),
    'until': (('body', 'cont'), ('after', 'cont')),
    'again': (('body', 'cont'),),
    'while_cond': (('cond', 'cont'), ('body', 'cont'), ('after', 'cont')),
    'while_body': (('cond', 'cont'), ('body', 'cont'), ('after', 'cont')),
    'pushint': (('value', 'int'), ('next', 'cont')),
}
QUIT_EXC = {'t': 'cont', 'k': 'quit_exc'}


# --------------------------------------------------------------------------------------------------
# spec -> expected normal form (no library code)

def _tree(c):
    return (c['bits'], [_tree(r) for r in c.get('refs', [])])


def _slice_nf(s):
    b, r = _tree(s['c'])
    return ('slice', b[s.get('cb', 0):], r[s.get('cr', 0):])


def expect(v):
    t = v['t']
    if t == 'null':
        return ('null',)
    if t == 'int':
        return ('int', int(v['v']))
    if t == 'cell':
        return ('cell', _tree(v['c']))
    if t == 'slice':
        return _slice_nf(v)
    if t == 'builder':
        b, r = _tree(v['c'])
        return ('builder', b, r)
    if t == 'tuple':
        return ('tuple', [expect(x) for x in v['items']])
    if t == 'cont':
        return expect_cont(v)
    raise ValueError(t)


def expect_cont(c):
    k = c['k']
    f = {}
    for name, typ in CONT_FIELDS[k]:
        if typ == 'int':
            f[name] = int(c[name])
        elif typ == 'cont':
            f[name] = expect_cont(c[name])
        elif typ == 'slice':
            f[name] = _slice_nf(c[name])
        else:
            cd = c[name]
            f[name] = {'nargs': cd.get('nargs'), 'cp': cd.get('cp'),
                       'stack': None if cd.get('stack') is None else [expect(x) for x in cd['stack']],
                       'save': {int(k_): expect(x) for k_, x in cd.get('save') or []}}
    return ('cont', k, f)


# --------------------------------------------------------------------------------------------------
# spec -> library objects

def mk_cell(c):
    return mk_builder(c).end_cell()


def mk_builder(c):
    from pytoniq_core.boc.builder import Builder
    b = Builder()
    if c['bits']:
        b.store_bits(c['bits'])
    for r in c.get('refs', []):
        b.store_ref(mk_cell(r))
    return b


def mk_slice(s):
    sl = mk_cell(s['c']).begin_parse()
    if s.get('cb', 0):
        sl.load_bits(s['cb'])
    for _ in range(s.get('cr', 0)):
        sl.load_ref()
    return sl


def mk_value(v):
    from pytoniq_core.tlb.vm_stack import VmTuple
    t = v['t']
    if t == 'null':
        return None
    if t == 'int':
        return int(v['v'])
    if t == 'cell':
        return mk_cell(v['c'])
    if t == 'slice':
        return mk_slice(v)
    if t == 'builder':
        return mk_builder(v['c'])
    if t == 'tuple':
        return VmTuple([mk_value(x) for x in v['items']])
    if t == 'cont':
        return mk_cont(v)
    raise ValueError(t)


def mk_cont(c):
    from pytoniq_core.tlb.vm_stack import VmCont, VmControlData, VmStack, VmStackValue
    from pytoniq_core.boc.hashmap.hashmap import HashMap
    kw = {}
    for name, typ in CONT_FIELDS[c['k']]:
        if typ == 'int':
            kw[name] = int(c[name])
        elif typ == 'cont':
            kw[name] = mk_cont(c[name])
        elif typ == 'slice':
            kw[name] = mk_slice(c[name])
        else:
            cd = c[name]
            stack = None if cd.get('stack') is None else VmStack.serialize([mk_value(x) for x in cd['stack']])
            save = None
            if cd.get('save'):
                hm = HashMap(4)
                for k_, x in cd['save']:
                    hm.set_int_key(int(k_), VmStackValue.serialize(mk_value(x)))
                save = hm.serialize()
            kw[name] = VmControlData('vm_ctl_data', nargs=cd.get('nargs'), stack=stack, save=save, cp=cd.get('cp'))
    return VmCont('vmc_' + c['k'], **kw)


# --------------------------------------------------------------------------------------------------
# library objects -> normal form

def norm(o):
    from pytoniq_core.tlb.vm_stack import VmTuple, VmCont
    from pytoniq_core.boc.cell import Cell
    from pytoniq_core.boc.slice import Slice
    from pytoniq_core.boc.builder import Builder
    if o is None:
        return ('null',)
    if isinstance(o, bool):
        return ('unknown', 'bool')
    if isinstance(o, int):
        return ('int', o)
    if isinstance(o, Cell):
        return ('cell', rv.to_tree(o))
    if isinstance(o, Slice):
        return ('slice', o.bits.to01(), [rv.to_tree(r) for r in o.refs[o.ref_offset:]])
    if isinstance(o, Builder):
        return ('builder', o.bits.to01(), [rv.to_tree(r) for r in o.refs])
    if isinstance(o, VmTuple):
        if not isinstance(o.list, list):
            return ('unknown', f'VmTuple.list is {type(o.list).__name__}')
        return ('tuple', [norm(x) for x in o.list])
    if isinstance(o, VmCont):
        return norm_cont(o)
    return ('unknown', type(o).__name__)


_MISSING = object()


def norm_cont(o):
    from pytoniq_core.tlb.vm_stack import VmCont
    if not isinstance(o, VmCont):
        return ('unknown', type(o).__name__)
    ty = getattr(o, 'type_', None)
    k = ty[4:] if isinstance(ty, str) and ty.startswith('vmc_') else repr(ty)
    if k not in CONT_FIELDS:
        return ('cont', k, {})
    f = {}
    for name, typ in CONT_FIELDS[k]:
        x = getattr(o, name, _MISSING)
        if x is _MISSING:
            f[name] = ('missing',)
        elif typ == 'int':
            f[name] = x if isinstance(x, int) and not isinstance(x, bool) else ('unknown', type(x).__name__)
        elif typ == 'cont':
            f[name] = norm_cont(x)
        elif typ == 'slice':
            f[name] = norm(x)
        else:
            f[name] = norm_cdata(x)
    return ('cont', k, f)


def norm_cdata(cd):
    from pytoniq_core.boc.cell import Cell
    from pytoniq_core.boc.slice import Slice
    if cd is None or isinstance(cd, (int, str, list, dict)):
        return ('unknown', type(cd).__name__)
    stack = getattr(cd, 'stack', None)
    if isinstance(stack, Cell):
        try:
            stack = [plain(x) for x in rv.decode_stack(rv.to_tree(stack))]
        except (rv.DecodeError, RecursionError) as e:
            stack = ('undecodable-stack-cell', str(e))
    elif isinstance(stack, list):
        stack = [norm(x) for x in stack]
    elif stack is not None:
        stack = ('unknown', type(stack).__name__)
    save = getattr(cd, 'save', None)
    if save is None:
        save = {}
    elif isinstance(save, Cell):
        try:
            out = {}
            rv._edge(rv.Cur(rv.to_tree(save), 'save.root'), 4, '', out, 'save')
            save = {k: plain(x) for k, x in out.items()}
        except (rv.DecodeError, RecursionError) as e:
            save = ('undecodable-save-cell', str(e))
    elif isinstance(save, dict):
        out = {}
        for k, x in save.items():
            if isinstance(x, Slice):
                try:
                    out[k] = plain(rv.value_cell((x.bits.to01(), [rv.to_tree(r) for r in x.refs[x.ref_offset:]]),
                                                 f'save[{k}]'))
                except (rv.DecodeError, RecursionError) as e:
                    out[k] = ('undecodable-save-value', str(e))
            else:
                out[k] = norm(x)
        save = out
    else:
        save = ('unknown', type(save).__name__)
    return {'nargs': getattr(cd, 'nargs', None), 'stack': stack, 'save': save, 'cp': getattr(cd, 'cp', None)}


def plain(nf):
    """drop the integer-form annotation of decoder output"""
    if isinstance(nf, dict):
        return {k: plain(x) for k, x in nf.items()}
    if isinstance(nf, tuple) and nf:
        if nf[0] == 'int':
            return ('int', nf[1])
        if nf[0] == 'tuple':
            return ('tuple', [plain(x) for x in nf[1]])
        if nf[0] == 'cont':
            return ('cont', nf[1], {k: plain(x) for k, x in nf[2].items()})
        return nf
    if isinstance(nf, list):
        return [plain(x) for x in nf]
    return nf


# --------------------------------------------------------------------------------------------------
# comparison of normal forms: every mismatch found (not only the first), so that a known/ignored one does not hide
# the others. Mis = (class, path, detail, inline_cont_on_path, got node, expected node)

class Mis:
    __slots__ = ('cls', 'path', 'detail', 'inline', 'got', 'exp')

    def __init__(self, cls, path, detail, inline, got=None, exp=None):
        self.cls, self.path, self.detail, self.inline, self.got, self.exp = cls, path, detail, inline, got, exp


def _short(x, n=160):
    s = repr(x)
    return s if len(s) <= n else s[:n] + '…'


def cmp_value(g, e, path, inline, out):
    if not isinstance(g, tuple) or not g or g[0] != e[0]:
        gk = g[0] if isinstance(g, tuple) and g else type(g).__name__
        out.append(Mis(f'kind-{e[0]}-read-as-{gk}', path, f'{_short(g)} != {_short(e)}', inline, g, e))
        return
    t = e[0]
    if t == 'null':
        return
    if t == 'int':
        if g[1] != e[1]:
            out.append(Mis('int-value', path, f'{g[1]} != {e[1]}', inline, g, e))
    elif t == 'cell':
        if g[1] != e[1]:
            out.append(Mis('cell-content', path, f'{_short(g[1])} != {_short(e[1])}', inline, g, e))
    elif t in ('slice', 'builder'):
        if g[1] != e[1]:
            out.append(Mis(f'{t}-bits', path, f'{len(g[1])} bits {g[1][:80]} != {len(e[1])} bits {e[1][:80]}',
                           inline, g, e))
        elif list(g[2]) != list(e[2]):
            out.append(Mis(f'{t}-refs', path, f'{len(g[2])} refs != {len(e[2])} refs (or different content)',
                           inline, g, e))
    elif t == 'tuple':
        cmp_list(g[1], e[1], path + '.tuple', inline, 'tuple', out)
    elif t == 'cont':
        cmp_cont(g, e, path, inline, out)
    else:
        raise ValueError(t)


def _lenclass(n):
    return str(n) if n <= 2 else '3+'


def _bag(x):
    """order-insensitive canonical text of a normal form: equal bags = equal up to (nested) reordering of lists"""
    if isinstance(x, tuple) and x:
        if x[0] == 'tuple' and isinstance(x[1], list):
            return 'T(' + ','.join(sorted(_bag(y) for y in x[1])) + ')'
        if x[0] == 'cont' and len(x) == 3 and isinstance(x[2], dict):
            return f'C{x[1]}{{' + ','.join(f'{k}={_bag(x[2][k])}' for k in sorted(x[2])) + '}'
    if isinstance(x, dict):
        parts = []
        for k in sorted(x, key=str):
            v = x[k]
            parts.append(f'{k}=' + ('[' + ','.join(sorted(_bag(y) for y in v)) + ']' if isinstance(v, list) else _bag(v)))
        return '{' + ','.join(parts) + '}'
    return repr(plain(x))


def cmp_list(g, e, path, inline, what, out):
    if not isinstance(g, list):
        out.append(Mis(f'{what}-not-a-list', path, _short(g), inline, g, e))
        return
    if len(g) != len(e):
        out.append(Mis(f'{what}-length', path,
                       f'length {len(g)} != {len(e)} (expected length class {_lenclass(len(e))})', inline, g, e))
        return
    sub = []
    for i in range(len(e)):
        cmp_value(g[i], e[i], f'{path}[{i}]', inline, sub)
    if not sub:
        return
    bg, be = [_bag(x) for x in g], [_bag(x) for x in e]
    if bg != be and sorted(bg) == sorted(be):
        # a permutation of the expected elements (nested lists compared as bags, so that elements which are
        # themselves reordered do not hide it): one root cause, the ordering at this level
        out.append(Mis(f'{what}-order/len={_lenclass(len(e))}', path,
                       f'same elements in a different order, first difference at {sub[0].path}: {sub[0].detail}',
                       inline or any(m.inline for m in sub), g, e))
        return
    out.extend(sub)


def cmp_cont(g, e, path, inline, out):
    k = e[1]
    inline = inline or k in INLINE_KINDS
    path = f'{path}.{k}'
    if g[1] != k:
        out.append(Mis('cont-kind', path, f'{g[1]} != {k}', inline or g[1] in INLINE_KINDS, g, e))
        return
    for name, typ in CONT_FIELDS[k]:
        gv, ev = g[2].get(name, ('missing',)), e[2][name]
        p = f'{path}.{name}'
        if typ == 'int':
            if gv != ev:
                out.append(Mis(f'cont-{k}-{name}', p, f'{_short(gv)} != {ev}', inline, gv, ev))
        elif typ == 'cont':
            if not isinstance(gv, tuple) or gv[0] != 'cont':
                out.append(Mis(f'cont-{k}-{name}', p, f'{_short(gv)} is not a continuation', inline, gv, ev))
            else:
                cmp_cont(gv, ev, p, inline, out)
        elif typ == 'slice':
            cmp_value(gv, ev, p, inline, out)
        else:
            cmp_cdata(gv, ev, p, inline, out)


def cmp_cdata(g, e, path, inline, out):
    if not isinstance(g, dict):
        out.append(Mis('cont-cdata', path, f'{_short(g)} is not control data', inline, g, e))
        return
    for name in ('nargs', 'cp'):
        if g[name] != e[name] or type(g[name]) is not type(e[name]):
            if e[name] == 0 and g[name] is None:
                out.append(Mis(f'cont-{name}-zero-written-absent', f'{path}.{name}',
                               f'{name} = just 0 comes out as absent (Maybe bit 0)', inline, g[name], e[name]))
            else:
                out.append(Mis(f'cont-{name}', f'{path}.{name}', f'{_short(g[name])} != {e[name]}', inline,
                               g[name], e[name]))
    if (g['stack'] is None) != (e['stack'] is None):
        out.append(Mis('cont-stack-presence', f'{path}.stack', f'{_short(g["stack"])} != {_short(e["stack"])}', inline))
    elif e['stack'] is not None:
        cmp_list(g['stack'], e['stack'], f'{path}.stack', inline, 'stack', out)
    if not isinstance(g['save'], dict):
        out.append(Mis('cont-save', f'{path}.save', _short(g['save']), inline))
    elif sorted(g['save']) != sorted(e['save']):
        out.append(Mis('cont-save-keys', f'{path}.save', f'{sorted(g["save"])} != {sorted(e["save"])}', inline))
    else:
        for k in sorted(e['save']):
            cmp_value(g['save'][k], e['save'][k], f'{path}.save[{k}]', inline, out)


def diff(g, e):
    """all mismatches between two stacks in normal form"""
    out = []
    cmp_list(g, e, 'stack', False, 'stack', out)
    return out


# --------------------------------------------------------------------------------------------------
# the check

def _fits64(v):
    return -M63 <= v < M63


def _walk_ints(nf, out):
    """collect ('int', v, form) nodes of decoder output"""
    if isinstance(nf, dict):
        for x in nf.values():
            _walk_ints(x, out)
    elif isinstance(nf, list):
        for x in nf:
            _walk_ints(x, out)
    elif isinstance(nf, tuple) and nf:
        if nf[0] == 'int' and len(nf) == 3:
            out.append(nf)
        elif nf[0] == 'tuple':
            _walk_ints(nf[1], out)
        elif nf[0] == 'cont':
            _walk_ints(nf[2], out)


def _tag_bug_present():
    """True iff VmCont.deserialize misreads '1000' + int32(5) (vmc_quit exit_code 5), i.e. does not skip its tag"""
    from pytoniq_core.tlb.vm_stack import VmCont
    from pytoniq_core.boc.builder import Builder
    sl = Builder().store_bits('1000' + format(5, '032b')).end_cell().begin_parse()
    ok, r = call(VmCont.deserialize, sl)
    return not (ok and getattr(r, 'exit_code', None) == 5 and getattr(r, 'type_', None) == 'vmc_quit')


def _has_inline_cont(v):
    t = v['t']
    if t == 'tuple':
        return any(_has_inline_cont(x) for x in v['items'])
    if t == 'cont':
        return _cont_has_inline(v)
    return False


def _cont_has_inline(c):
    if c['k'] in INLINE_KINDS:
        return True
    return any(_cont_has_inline(c[name]) for name, typ in CONT_FIELDS[c['k']] if typ == 'cont')


def _strip_inline(v):
    t = v['t']
    if t == 'tuple':
        return {'t': 'tuple', 'items': [_strip_inline(x) for x in v['items']]}
    if t == 'cont':
        return _strip_cont(v)
    return v


def _strip_cont(c):
    if c['k'] in INLINE_KINDS:
        return dict(QUIT_EXC)
    out = dict(c)
    for name, typ in CONT_FIELDS[c['k']]:
        if typ == 'cont':
            out[name] = _strip_cont(c[name])
    return out


def _dedupe(fails):
    seen, out = set(), []
    for f in fails:
        if f.signature not in seen:
            seen.add(f.signature)
            out.append(f)
    return out


def _deser_failures(specs, cell, decoded):
    """clause (A): library read-back of `cell` against the independent decoder's reading `decoded` (or None)"""
    from pytoniq_core.tlb.vm_stack import VmStack
    fails = []
    ok, back = call(lambda: VmStack.deserialize(cell.begin_parse()))
    if not ok:
        if any(_has_inline_cont(v) for v in specs) and _tag_bug_present():
            fails.append(Fail('deserialize/cont-tag-not-skipped',
                              f'VmStack.deserialize raised {back!r} on a stack holding a continuation with inline data; '
                              f'VmCont.deserialize reads vmc_quit exit_code 5 wrongly (tag not skipped)'))
            stripped = [_strip_inline(v) for v in specs]
            ok2, res = call(lambda: VmStack.serialize([mk_value(v) for v in stripped]))
            if ok2:
                try:
                    dec2 = rv.decode_stack(rv.to_tree(res))
                except (rv.DecodeError, RecursionError):
                    dec2 = None
                fails.extend(_deser_failures(stripped, res, dec2))
            return fails
        return [Fail(f'deserialize/raises/{exc_sig(back)}', f'VmStack.deserialize raised {back!r}')]
    if not isinstance(back, list):
        return [Fail('deserialize/result-not-a-list', _short(back))]
    got = [norm(x) for x in back]
    want = [expect(v) for v in specs]
    ref = [plain(x) for x in decoded] if decoded is not None else want
    ms = diff(got, ref)
    tag_bug = None
    for m in ms:
        if m.inline:
            if tag_bug is None:
                tag_bug = _tag_bug_present()
            if tag_bug:
                fails.append(Fail('deserialize/cont-tag-not-skipped',
                                  f'{m.path}: {m.detail} — VmCont.deserialize does not skip the constructor tag '
                                  f'(probe: vmc_quit exit_code 5 read back wrongly)'))
                continue
        fails.append(Fail(f'deserialize/{m.cls}', f'{m.path}: {m.detail}'))
    if not ms and decoded is not None:
        m2 = diff(got, want)
        if m2 and not diff(ref, want):
            fails.append(Fail('roundtrip/unattributed', f'{m2[0].path}: {m2[0].detail}'))
    return fails


def _through_vm_stack(exc):
    tb = exc.__traceback__
    while tb is not None:
        if tb.tb_frame.f_code.co_filename.replace(os.sep, '/').endswith('pytoniq_core/tlb/vm_stack.py'):
            return True
        tb = tb.tb_next
    return False


def _all_failures(case):
    from pytoniq_core.tlb.vm_stack import VmStack
    specs = case['stack']
    fails = []
    ok, s = call(lambda: [mk_value(v) for v in specs])
    if not ok:
        if _through_vm_stack(s):
            # control data's stack / save list are serialised by the library while the input is built
            return [Fail(f'serialize/raises/{exc_sig(s)}', f'(nested, at build time) raised {s!r}')]
        return [Fail(f'build/raises/{exc_sig(s)}', f'building the input values raised {s!r}')]
    held = list(s)
    snap = [norm(x) for x in s]
    want = [expect(v) for v in specs]
    for m in diff(snap, want):
        if '.cdata.stack' in m.path or '.cdata.save' in m.path:
            # these parts were serialised by the library while the input was built (VmStack.serialize /
            # VmStackValue.serialize for the control data's stack and save list): same clause as (B)
            fails.append(Fail(f'schema/{m.cls}', f'(nested, at build time) {m.path}: {m.detail}'))
        else:
            # the objects handed to the library do not denote the spec: construction problem, not a C17 verdict
            return [Fail(f'build/{m.cls}', f'{m.path}: {m.detail}')]

    ok, c1 = call(VmStack.serialize, s)
    if not ok:
        return [Fail(f'serialize/raises/{exc_sig(c1)}', f'VmStack.serialize raised {c1!r}')]

    # (B) schema, independent decoder
    decoded = None
    try:
        decoded = rv.decode_stack(rv.to_tree(c1))
    except rv.DecodeError as e:
        fails.append(Fail(f'schema/undecodable/{e.what}', str(e)))
    except RecursionError as e:
        fails.append(Fail('schema/undecodable/recursion', str(e)))
    if decoded is not None:
        for m in diff(decoded, want):
            if (m.cls == 'int-value' and isinstance(m.got, tuple) and len(m.got) == 3 and m.got[2] == 'tiny'
                    and not _fits64(m.exp[1])):
                fails.append(Fail('int-form/non-int64-in-64-bit-form',
                                  f'{m.path}: {m.exp[1]} written as int64 {m.got[1]}'))
            else:
                fails.append(Fail(f'schema/{m.cls}', f'{m.path}: {m.detail}'))
        ints = []
        _walk_ints(decoded, ints)
        for _, v, form in ints:
            if form == 'big' and -M63 < v < M63:
                fails.append(Fail('int-form/small-int-in-257-form', f'{v} (|v| < 2^63) written in the 257-bit form'))
                break

    # (A) read-back
    fails.extend(_deser_failures(specs, c1, decoded))

    # (C) values not consumed, second call gives the same cell
    mutated = False
    if len(s) != len(held) or any(a is not b for a, b in zip(s, held)):
        fails.append(Fail('consumed/stack-list', f'the caller\'s list changed: {len(held)} -> {len(s)} elements'))
        mutated = True
    for m in diff([norm(x) for x in held], snap):
        mutated = True
        fails.append(Fail(_consumed_sig(m), f'after one VmStack.serialize call, {m.path}: {m.detail}'))
    ok, c2 = call(VmStack.serialize, s)
    if not ok:
        if not mutated:
            fails.append(Fail(f'twice/second-call-raises/{exc_sig(c2)}', repr(c2)))
    elif not mutated:
        for m in diff([norm(x) for x in held], snap):
            mutated = True
            fails.append(Fail(_consumed_sig(m) + '/second-call', f'after the second call, {m.path}: {m.detail}'))
        if not mutated and (c1.hash != c2.hash or rv.to_tree(c1) != rv.to_tree(c2)):
            fails.append(Fail('twice/cell-differs', f'{c1.hash.hex()} != {c2.hash.hex()} with unmodified inputs'))
    # (I) formatting is not an operation: the caller prints / logs what it holds between two uses - every value of the stack BY
    # ITSELF (the slice in a tuple, the code slice and the control data of a continuation, the cells below a cell: str(x) of a
    # nested value is not what repr(stack) runs), then the list. Round 1 formats each object exactly once (one str + one repr),
    # round 2 with the whole repertoire (repr, ascii, str, format, f-string, %-formatting, bool). After each round the values
    # deep-equal their snapshot and the stack serialises to the same cell.
    if not fails and not mutated:
        from harness.core import describe, look
        for rnd, fmt in (('printed-once', look), ('printed-repeatedly', describe)):
            for o in _reachable(held):
                fmt(o)
            if fmt is describe:
                describe(s)
            ms = diff([norm(x) for x in held], snap)
            if len(s) != len(held) or any(a is not b for a, b in zip(s, held)):
                fails.append(Fail(f'formatting-is-not-an-operation/{rnd}/stack-list', f'the caller\'s list changed: {len(held)} -> {len(s)} elements'))
            for m in ms:
                fails.append(Fail(f'formatting-is-not-an-operation/{rnd}/{m.cls}', f'the caller formatted its values ({rnd}); now {m.path}: {m.detail}'))
                break
            if fails:
                mutated = True
                break
            ok, c3 = call(VmStack.serialize, s)
            if not ok:
                fails.append(Fail(f'formatting-is-not-an-operation/{rnd}/serialize-raises/{exc_sig(c3)}', repr(c3)))
            elif c3.hash != c1.hash or rv.to_tree(c3) != rv.to_tree(c1):
                fails.append(Fail(f'formatting-is-not-an-operation/{rnd}/cell-differs', f'the caller formatted its values ({rnd}); the stack now '
                                  f'serialises to {c3.hash.hex()} instead of {c1.hash.hex()}'))
            if fails:
                mutated = True
                break
    # (F) parsed values are independent of the cell they were parsed from: reading from a parsed slice / storing into a parsed
    # builder does not change the serialised stack (second parse equals the first reading; the bytes of the cell are unchanged)
    if not fails and not mutated:
        from pytoniq_core.boc.slice import Slice as _Slice
        from pytoniq_core.boc.builder import Builder as _Builder
        from pytoniq_core.boc.cell import Cell as _Cell
        ok, boc_before = call(c1.to_boc)
        ok1, back1 = call(VmStack.deserialize, c1.begin_parse())
        if ok and ok1:
            first_reading = [norm(x) for x in back1]

            def use(x):
                if isinstance(x, _Slice):
                    call(lambda: x.load_bits(min(8, len(x.bits))))
                    call(lambda: x.load_ref())
                elif isinstance(x, _Builder):
                    call(lambda: x.store_bits('101'))
                elif hasattr(x, 'list') and isinstance(getattr(x, 'list'), list):
                    for y in x.list:
                        use(y)
            for x in back1:
                use(x)
            from harness.core import scramble
            scramble(back1)                      # ... and edits every flag / number / list in what it was given (the result is the caller's)
            ok2, back2 = call(VmStack.deserialize, c1.begin_parse())
            if not ok2:
                fails.append(Fail(f'parsed-values-alias-the-cell/second-parse-raises/{exc_sig(back2)}', repr(back2)))
            else:
                for m in diff([norm(x) for x in back2], first_reading):
                    fails.append(Fail(f'parsed-values-alias-the-cell/{m.cls}', f'after reading from the parsed values, a second parse of the '
                                      f'same cell gives {m.path}: {m.detail}'))
                    break
            ok3, boc_after = call(c1.to_boc)
            if ok3 and bytes(boc_after) != bytes(boc_before):
                fails.append(Fail('parsed-values-alias-the-cell/serialisation-of-the-stack-cell-changed', ''))
            else:
                okp, reparsed = call(_Cell.one_from_boc, boc_before)
                if okp and reparsed.hash != c1.hash:
                    fails.append(Fail('parsed-values-alias-the-cell/cell-content-no-longer-matches-its-hash', ''))
    # (G) the stack behind a prefix the caller has already consumed (a VmStack embedded after other fields of a cell)
    if not fails and not mutated and len(c1.bits) + 3 <= 1023:
        from pytoniq_core.boc.builder import Builder as _B2
        with_ref = len(c1.refs) < 4
        okb, pc = call(lambda: (_B2().store_bits('101').store_ref(c1) if with_ref else _B2().store_bits('101')).store_cell(c1).end_cell())
        if okb:
            ps = pc.begin_parse()
            ps.load_bits(3)
            if with_ref:
                ps.load_ref()
            okp, backp = call(VmStack.deserialize, ps)
            if not okp:
                fails.append(Fail(f'behind-a-consumed-prefix/raises/{exc_sig(backp)}', repr(backp)))
            else:
                for m in diff([norm(x) for x in backp], want):
                    fails.append(Fail(f'behind-a-consumed-prefix/{m.cls}', f'{m.path}: {m.detail}'))
                    break
                else:
                    if ps.remaining_bits or ps.remaining_refs:
                        fails.append(Fail('behind-a-consumed-prefix/leftover', f'{ps.remaining_bits} bits / {ps.remaining_refs} refs'))
    # (E) what the parser returns is itself a stack of supported values: serialising it again gives the same cell. Not asserted
    # when a continuation carries a control-data stack or save list: the parser returns those two as a list / a dict while
    # the writer takes cells (a representation asymmetry, like a parsed slice being a Slice).
    if not fails and not mutated and not any(_uses_cdata_containers(v) for v in specs):
        ok, back = call(VmStack.deserialize, c1.begin_parse())
        if ok:
            ok, c4 = call(VmStack.serialize, back)
            if not ok:
                fails.append(Fail(f'reserialize-parsed/raises/{exc_sig(c4)}', f'VmStack.serialize(VmStack.deserialize(cell)) raised {c4!r}'))
            elif c4.hash != c1.hash:
                fails.append(Fail('reserialize-parsed/cell-differs', 'serialising the parsed stack gives another cell'))
    # (I') the same on the parse side: the caller prints the cell it is about to parse (once), parses, prints every value it got
    # (repeatedly) and the cell again; the values read as clause (A) found them from the unprinted cell, a later parse gives the same values,
    # and (where clause E applies) the printed values serialise to the same cell
    if not fails and not mutated:
        from harness.core import describe, look
        if True:
            # clause (A) held, so the unformatted cell reads as what the independent decoder read from it
            reading0 = [plain(x) for x in decoded] if decoded is not None else want
            look(c1)
            okp, backp = call(VmStack.deserialize, c1.begin_parse())
            if not okp:
                fails.append(Fail(f'formatting-is-not-an-operation/cell-printed-once/parse-raises/{exc_sig(backp)}', repr(backp)))
            else:
                for m in diff([norm(x) for x in backp], reading0):
                    fails.append(Fail(f'formatting-is-not-an-operation/cell-printed-once/{m.cls}', f'the stack cell was formatted, then parsed: {m.path}: {m.detail}'))
                    break
            if not fails:
                for o in _reachable(backp):
                    describe(o)
                describe(backp, c1)
                for m in diff([norm(x) for x in backp], reading0):
                    fails.append(Fail(f'formatting-is-not-an-operation/parsed-values-printed/{m.cls}', f'the parsed values were formatted and now read '
                                      f'{m.path}: {m.detail}'))
                    break
            if not fails and not any(_uses_cdata_containers(v) for v in specs):
                ok, c6 = call(VmStack.serialize, backp)
                if not ok:
                    fails.append(Fail(f'formatting-is-not-an-operation/parsed-values-printed/serialize-raises/{exc_sig(c6)}', repr(c6)))
                elif c6.hash != c1.hash:
                    fails.append(Fail('formatting-is-not-an-operation/parsed-values-printed/serialise-to-another-cell', ''))
            if not fails:
                okq, backq = call(VmStack.deserialize, c1.begin_parse())
                if not okq:
                    fails.append(Fail(f'formatting-is-not-an-operation/cell-printed-repeatedly/parse-raises/{exc_sig(backq)}', repr(backq)))
                else:
                    for m in diff([norm(x) for x in backq], reading0):
                        fails.append(Fail(f'formatting-is-not-an-operation/cell-printed-repeatedly/{m.cls}', f'{m.path}: {m.detail}'))
                        break
            if fails:
                mutated = True
    # (H) "the caller's values are left unmodified" - also by a call that is refused half-way: an integer outside the 257-bit
    # range sits in the middle of the stack and in the middle of the innermost tuple; whatever serialize raises, the caller's
    # list and tuples are what they were, and once the entry is repaired the stack serialises to exactly the repaired values
    if not mutated and not fails:
        from pytoniq_core.tlb.vm_stack import VmTuple as _VT
        ok3, s3 = call(lambda: [mk_value(v) for v in specs])
        if ok3:
            specs3 = json.loads(json.dumps(specs))
            BAD = 1 << 256
            p0 = len(s3) // 2
            s3.insert(p0, BAD)
            specs3.insert(p0, {'t': 'int', 'v': '77'})
            holders = [(s3, p0)]
            # innermost tuple along the first-tuple path
            node_l, spec_l = s3, specs3
            tpath = None
            while True:
                nxt = next((i for i, x in enumerate(node_l) if isinstance(x, _VT) and isinstance(x.list, list)), None)
                if nxt is None:
                    break
                tpath = (node_l[nxt], spec_l[nxt])
                node_l, spec_l = node_l[nxt].list, spec_l[nxt]['items']
            if tpath is not None:
                tup, tspec = tpath
                pos = len(tup.list) // 2
                tup.list.insert(pos, BAD)
                tspec['items'].insert(pos, {'t': 'int', 'v': '78'})
                holders.append((tup.list, pos))
            snap3 = [norm(x) for x in s3]
            okr, _r = call(VmStack.serialize, s3)
            if not okr:
                for m in diff([norm(x) for x in s3], snap3):
                    fails.append(Fail('consumed/after-refused-serialize/' + m.cls, f'VmStack.serialize raised on an out-of-range integer and '
                                      f'left the caller\'s values changed: {m.path}: {m.detail}'))
                    break
                else:
                    for (lst, pos), good in zip(holders, (77, 78)):
                        lst[pos] = good
                    okf, c5 = call(VmStack.serialize, s3)
                    if not okf:
                        fails.append(Fail(f'after-refused-serialize/repaired-stack-raises/{exc_sig(c5)}', repr(c5)))
                    else:
                        try:
                            d5 = rv.decode_stack(rv.to_tree(c5))
                        except (rv.DecodeError, RecursionError) as e:
                            d5 = None
                            fails.append(Fail('after-refused-serialize/undecodable', str(e)))
                        if d5 is not None:
                            for m in diff(d5, [expect(v) for v in specs3]):
                                fails.append(Fail('after-refused-serialize/repaired-stack-differs', f'{m.path}: {m.detail}'))
                                break
    # (D) no stale state: after the caller changes a (nested) value, serialising reflects the NEW value
    if not mutated and not fails:
        mut = _find_mutation(specs)
        if mut is not None:
            path, kind = mut
            specs2 = json.loads(json.dumps(specs))
            node, obj = specs2[path[0]], s[path[0]]
            for i in path[1:]:
                node, obj = node['items'][i], obj.list[i]
            if kind == 'append':
                node['items'].append({'t': 'int', 'v': '12345'})
                obj.append(12345)
            elif kind == 'flip':
                bb = node['c']['bits']
                node['c']['bits'] = ('1' if bb[0] == '0' else '0') + bb[1:]
                obj.bits[0] = not obj.bits[0]
            else:
                node['c']['bits'] += '1'
                obj.store_bit(1)
            ok, c3 = call(VmStack.serialize, s)
            if not ok:
                fails.append(Fail(f'after-mutation/serialize-raises/{exc_sig(c3)}', repr(c3)))
            else:
                try:
                    d3 = rv.decode_stack(rv.to_tree(c3))
                except (rv.DecodeError, RecursionError) as e:
                    d3 = None
                    fails.append(Fail('after-mutation/undecodable', str(e)))
                if d3 is not None:
                    for m in diff(d3, [expect(v) for v in specs2]):
                        fails.append(Fail(f'after-mutation/stale-or-wrong/{kind}', f'serialised, then {kind} at {path}, serialised again: '
                                          f'{m.path}: {m.detail}'))
                        break
    # (D') the same with a builder whose first reference is replaced (bits and number of references stay what they were)
    if not mutated and not fails:
        fails.extend(_reference_replaced(specs, c1))
    # (J) results are values: what a call returned stays what it was while the caller carries on with its own objects
    if not mutated and not fails:
        fails.extend(_results_are_values(specs, want))
    # (K) temporaries: a value that has died and a new one that lives where it lived
    if not mutated and not fails:
        fails.extend(_temporaries(specs))
    return _dedupe(fails)


_OTHER = {'bits': '110010', 'refs': [{'bits': '01', 'refs': []}]}


def _reference_replaced(specs, earlier):
    """clause (D'): fresh build, serialised (the result and `earlier`, the cell of clause C, stay alive), then the first reference of
    the first builder that has one (at the top level or inside tuples) is replaced - through the `refs` setter or in the list,
    by position in the stack - and the stack is serialised again: the new cell denotes the builder as it is now"""
    from pytoniq_core.tlb.vm_stack import VmStack
    found = []

    def walk(v, path):
        if found:
            return
        if v['t'] == 'builder' and v['c'].get('refs'):
            found.append(path)
        elif v['t'] == 'tuple':
            for i, x in enumerate(v['items']):
                walk(x, path + [i])

    for i, v in enumerate(specs):
        walk(v, [i])
    if not found:
        return []
    path = found[0]
    ok, s = call(lambda: [mk_value(v) for v in specs])
    if not ok:
        return []
    ok, before = call(VmStack.serialize, s)
    if not ok:
        return []
    specs2 = json.loads(json.dumps(specs))
    node, obj = specs2[path[0]], s[path[0]]
    for i in path[1:]:
        node, obj = node['items'][i], obj.list[i]
    other = _OTHER if _tree(node['c']['refs'][0]) != _tree(_OTHER) else {'bits': '1', 'refs': []}
    node['c']['refs'][0] = other
    how = 'setter' if sum(path) % 2 else 'in-place'
    if how == 'setter':
        obj.refs = [mk_cell(other)] + list(obj.refs[1:])
    else:
        obj.refs[0] = mk_cell(other)
    ok, after = call(VmStack.serialize, s)
    if not ok:
        return [Fail(f'after-mutation/serialize-raises/{exc_sig(after)}', repr(after))]
    try:
        d = rv.decode_stack(rv.to_tree(after))
    except (rv.DecodeError, RecursionError) as e:
        return [Fail('after-mutation/undecodable', str(e))]
    for m in diff(d, [expect(v) for v in specs2]):
        return [Fail(f'after-mutation/stale-or-wrong/reference-replaced-{how}', f'serialised, then the first reference of the builder at {path} '
                     f'replaced ({how}), serialised again (earlier results still alive): {m.path}: {m.detail}')]
    return []


def _flip(bits):
    return bits.translate({48: 49, 49: 48})


def _variant(v):
    """a value of the same type, shape and sizes as v but other content: referenced cells below a cell / slice / builder have their
    bits complemented (an empty one gets a bit), a container without references has its own bits complemented; tuple items and
    the parts of continuations likewise; integers inside them move by one"""
    t = v['t']
    if t in ('cell', 'slice', 'builder'):
        c = v['c']
        if c.get('refs'):
            c2 = {'bits': c['bits'], 'refs': [{'bits': _flip(r['bits']) or '1', 'refs': r.get('refs', [])} for r in c['refs']]}
        else:
            c2 = {'bits': _flip(c['bits']), 'refs': []}
        return dict(v, c=c2)
    if t == 'int':
        x = int(v['v'])
        y = x + 1 if (-M63 < x + 1 < M63) == (-M63 < x < M63) and x + 1 <= INT_MAX else x - 1
        return _I(y)
    if t == 'tuple':
        return {'t': 'tuple', 'items': [_variant(x) for x in v['items']]}
    if t == 'cont':
        return _variant_cont(v)
    return v


def _variant_cont(c):
    out = dict(c)
    for name, typ in CONT_FIELDS[c['k']]:
        if typ == 'cont':
            out[name] = _variant_cont(c[name])
        elif typ == 'slice':
            out[name] = {k: x for k, x in _variant(dict(c[name], t='slice')).items() if k != 't'}
        elif typ == 'int' and name == 'exit_code':
            out[name] = int(c[name]) + 1 if int(c[name]) < 2 ** 31 - 1 else int(c[name]) - 1
    return out


def _temporaries(specs):
    """clause (K). For the first container values of the stack (cell, slice, builder, tuple, continuation): the value is built,
    serialised in a one-entry stack, the RESULT is kept and the value dropped (no other reference); then values of the same type,
    shape and sizes but other content (_variant) are built until one lives at the address the dead one had (a few tries; the
    misses stay alive) and that one is serialised: the cell denotes the NEW value, and parses to it. Then the other way round."""
    from pytoniq_core.tlb.vm_stack import VmStack
    out = []
    picked = [v for v in specs if v['t'] in ('cell', 'slice', 'builder', 'tuple', 'cont')][:2]
    for v in picked:
        vb = _variant(v)
        if expect(vb) == expect(v):
            continue
        kept = []
        for first, second in ((v, vb), (vb, v)):
            ok, a = call(mk_value, first)
            if not ok:
                return out
            addr = id(a)
            ok, ra = call(VmStack.serialize, [a])
            if not ok:
                return out
            kept.append(ra)
            del a
            parked = []
            b = None
            for _ in range(8):
                ok, b = call(mk_value, second)
                if not ok:
                    return out
                if id(b) == addr:
                    break
                parked.append(b)
            ok, rb = call(VmStack.serialize, [b])
            if not ok:
                out.append(Fail(f'temporaries/serialize-raises/{exc_sig(rb)}', repr(rb)))
                return out
            kept.append(rb)
            try:
                d = rv.decode_stack(rv.to_tree(rb))
            except (rv.DecodeError, RecursionError) as e:
                out.append(Fail('temporaries/undecodable', str(e)))
                return out
            for m in diff(d, [expect(second)]):
                out.append(Fail(f'temporaries/earlier-value-shows-through/{second["t"]}/{m.cls}',
                                f'a {first["t"]} was serialised and dropped (its result kept), a {second["t"]} of the same shape and sizes but '
                                f'other content built next is serialised: the cell does not denote it: {m.path}: {m.detail}'))
                return out
            okp, back = call(lambda: VmStack.deserialize(rb.begin_parse()))
            if okp and isinstance(back, list):
                for m in diff([norm(x) for x in back], [expect(second)]):
                    out.append(Fail(f'temporaries/parsed/{second["t"]}/{m.cls}', f'{m.path}: {m.detail}'))
                    return out
            del b, parked
    return out


def _carry_on(roots):
    """the caller goes on using the objects it owns, the way they are meant to be used: reads from every slice it holds (also
    the code slice of a continuation), stores into every builder, appends to every tuple. Returns the kinds of object used."""
    used = set()
    for o in _reachable(roots):
        name = type(o).__name__
        if name == 'Slice':
            n = len(o.bits)
            if n:
                used.add('slice-read')
                call(o.load_bits, min(8, n))
                if len(o.bits) > 3:
                    call(o.skip_bits, 1)
            if o.ref_offset < len(o.refs):
                used.add('slice-ref-read')
                call(o.load_ref)
        elif name == 'Builder':
            if len(o.bits) + 3 <= 1023:
                used.add('builder-stored')
                call(o.store_bits, '101')
            if len(o.refs) < 4:
                used.add('builder-ref-stored')
                call(o.store_ref, mk_cell({'bits': '0110', 'refs': []}))
        elif name == 'VmTuple' and isinstance(getattr(o, 'list', None), list) and len(o.list) < 250:
            used.add('tuple-appended')
            o.list.append(-54321)
    return used


def _results_are_values(specs, want):
    """clause (J). A fresh build of the stack is serialised and parsed; the tree of the returned cell and the reading of
    the parsed values are noted AT THAT MOMENT. Then the caller uses its objects further (_carry_on), serialises them as they
    are now and parses that: the earlier cell is, bit for bit and reference for reference, what it was, still parses to
    the original values, the earlier parsed values read as before - and the new cell denotes the values as they are now."""
    from pytoniq_core.tlb.vm_stack import VmStack
    out = []
    ok, sj = call(lambda: [mk_value(v) for v in specs])
    if not ok:
        return out
    ok, ca = call(VmStack.serialize, sj)
    if not ok:
        return out                                       # clause C reports a call that raises
    ok, parsed = call(lambda: VmStack.deserialize(ca.begin_parse()))
    if not ok or not isinstance(parsed, list):
        return out                                       # clause A reports it
    ta = rv.to_tree(ca)
    parsed_reading = [norm(x) for x in parsed]
    if diff(parsed_reading, want):
        return out
    used = _carry_on(sj)
    if not used:
        return out
    how = '+'.join(sorted(used))
    now = [norm(x) for x in sj]

    def recheck(stage):
        for nm, c, t in (('earlier', ca, ta),):
            t2 = rv.to_tree(c)
            if t2 != t:
                try:
                    ms = diff(rv.decode_stack(t2), want)
                    cls = ms[0].cls if ms else 'same-values-other-cells'
                    det = f'{ms[0].path}: {ms[0].detail}' if ms else ''
                except (rv.DecodeError, RecursionError) as e:
                    cls, det = 'undecodable', str(e)
                out.append(Fail(f'result-shares-state-with-the-callers-values/{stage}/{cls}',
                                f'the {nm} cell returned by VmStack.serialize changed after the caller used its own objects ({how}): {det}'))
                return False
        if stage != 'after-use':
            okp, again = True, None
        else:
            okp, again = call(lambda: VmStack.deserialize(ca.begin_parse()))
        if not okp:
            out.append(Fail(f'result-shares-state-with-the-callers-values/{stage}/parse-raises/{exc_sig(again)}', repr(again)))
            return False
        for m in (diff([norm(x) for x in again], want) if again is not None else ()):
            out.append(Fail(f'result-shares-state-with-the-callers-values/{stage}/parsed/{m.cls}',
                            f'serialised, caller used its own objects ({how}), the earlier cell now parses to {m.path}: {m.detail}'))
            return False
        for m in diff([norm(x) for x in parsed], parsed_reading):
            out.append(Fail(f'parsed-values-share-state/{stage}/{m.cls}',
                            f'values parsed earlier changed while the caller used the ORIGINAL objects ({how}): {m.path}: {m.detail}'))
            return False
        return True

    if not recheck('after-use'):
        return out
    ok, cc = call(VmStack.serialize, sj)
    if not ok:
        out.append(Fail(f'after-use/serialize-raises/{exc_sig(cc)}', f'({how}) {cc!r}'))
        return out
    try:
        dc = rv.decode_stack(rv.to_tree(cc))
    except (rv.DecodeError, RecursionError) as e:
        out.append(Fail('after-use/undecodable', f'({how}) {e}'))
        return out
    for m in diff(dc, now):
        out.append(Fail(f'after-use/stale-or-wrong/{m.cls}', f'serialised, caller used its objects ({how}), serialised again: the cell does '
                        f'not denote the values as they are now: {m.path}: {m.detail}'))
        return out
    call(lambda: VmStack.deserialize(cc.begin_parse()))
    recheck('after-a-later-call')
    return out


def _reachable(roots, cap=400):
    """every object a caller holds through `roots`, each once, outermost first: list items, the attributes of tuples,
    continuations and control data, the items of their lists / dict values, the reference cells below a cell / slice / builder"""
    out, seen = [], set()

    def walk(o, depth):
        if o is None or isinstance(o, (int, str, bytes, bytearray, float)) or id(o) in seen or depth > 16 or len(out) >= cap:
            return
        seen.add(id(o))
        out.append(o)                                    # keeps o alive, so ids stay unique within this call
        if isinstance(o, (list, tuple)):
            for x in o:
                walk(x, depth + 1)
        elif isinstance(o, dict):
            for x in o.values():
                walk(x, depth + 1)
        elif type(o).__name__ in ('Cell', 'Slice', 'Builder'):
            for r in list(getattr(o, 'refs', []) or []):
                walk(r, depth + 1)
        elif (type(o).__module__ or '').startswith('pytoniq_core'):
            d = getattr(o, '__dict__', None)
            if isinstance(d, dict):
                for x in list(d.values()):
                    walk(x, depth + 1)

    for r in roots:
        walk(r, 0)
    return out


def _uses_cdata_containers(v):
    t = v['t']
    if t == 'tuple':
        return any(_uses_cdata_containers(x) for x in v['items'])
    if t != 'cont':
        return False

    def cont(c):
        for name, typ in CONT_FIELDS[c['k']]:
            if typ == 'cont':
                if cont(c[name]):
                    return True
            elif typ not in ('int', 'slice'):
                cd = c[name]
                if cd.get('stack') is not None or cd.get('save'):
                    return True
        return False
    return cont(v)


def _find_mutation(specs):
    """a caller-side change to apply between two serialisations: append to a nested tuple / store a bit into a builder held in
    a tuple (preferred, below the top level), else append to a top-level tuple; None when the stack has no such value"""
    best = [None, None]

    def walk(v, path, depth):
        if v['t'] == 'tuple':
            if len(v['items']) < 250:
                if depth >= 1 and best[0] is None:
                    best[0] = (path, 'append')
                elif depth == 0 and best[1] is None:
                    best[1] = (path, 'append')
            for i, x in enumerate(v['items']):
                walk(x, path + [i], depth + 1)
        elif v['t'] == 'builder' and depth >= 1 and best[0] is None and len(v['c']['bits']) < 900:
            # 'store' appends a bit; 'flip' edits the builder's public bit string at EQUAL size (item assignment)
            best[0] = (path, 'flip' if len(v['c']['bits']) % 2 else 'store')
        elif v['t'] == 'builder' and depth == 0 and best[1] is None and len(v['c']['bits']) % 2:
            best[1] = (path, 'flip')

    for i, v in enumerate(specs):
        walk(v, [i], 0)
    return best[0] or best[1]


def _consumed_sig(m):
    if m.cls == 'tuple-length':
        return 'consumed/tuple-list-shortened'
    return f'consumed/{m.cls}'


def check(case):
    ignore = {x.strip() for x in os.environ.get('VERIF_IGNORE_SIG', '').split(',') if x.strip()}
    fails = [f for f in _all_failures(case) if f.signature not in ignore]
    if not fails:
        return None
    known = load_known('C17')
    for f in fails:
        if f.signature not in known:
            return f
    return fails[0]


# --------------------------------------------------------------------------------------------------
# sizes per schema, used to keep generated values inside what one cell can hold (construct, don't filter)

def _vsize(v):
    t = v['t']
    if t == 'null':
        return 8, 0
    if t == 'int':
        return (72, 0) if -M63 < int(v['v']) < M63 else (272, 0)
    if t in ('cell', 'builder'):
        return 8, 1
    if t == 'slice':
        return 34, 1
    if t == 'tuple':
        n = len(v['items'])
        return 24, (0 if n == 0 else 1 if n == 1 else 2)
    b, r = _csize(v)
    return 8 + b, r


def _csize(c):
    k = c['k']
    if k in ('std', 'envelope'):
        cd = c['cdata']
        b = 2 + 1 + (13 if cd.get('nargs') is not None else 0) + 1 + 1 + 1 + (16 if cd.get('cp') is not None else 0)
        r = 1
        if cd.get('stack') is not None:
            b += 24
            if cd['stack']:
                tb, tr = _vsize(cd['stack'][-1])
                b += tb
                r += 1 + tr
        if cd.get('save'):
            r += 1
        if k == 'std':
            b += 26
        return b, r
    return {'quit': (36, 0), 'quit_exc': (4, 0), 'repeat': (68, 2), 'until': (6, 2), 'again': (6, 1),
            'while_cond': (6, 3), 'while_body': (6, 3), 'pushint': (36, 1)}[k]


def _fit(v, maxrefs, maxbits=1000):
    """return v, degraded where necessary so that it fits inline next to (4 - maxrefs) other references"""
    t = v['t']
    if t == 'tuple':
        return {'t': 'tuple', 'items': [_fit(x, 4) for x in v['items']]}
    if t != 'cont':
        return v
    return _fit_cont(v, maxrefs, maxbits - 8)


def _fit_cont(c, maxrefs, maxbits):
    k = c['k']
    out = dict(c)
    for name, typ in CONT_FIELDS[k]:
        if typ == 'cont':
            out[name] = _fit_cont(c[name], 4, 1000)
    if k not in ('std', 'envelope'):
        return out
    cd = dict(c['cdata'])
    if cd.get('save'):
        cd['save'] = [[k_, _fit(x, 4, 980)] for k_, x in cd['save']]
    if cd.get('stack'):
        st_ = [_fit(x, 3) for x in cd['stack']]
        # top of the inner stack is inline in this continuation: budget = maxrefs - (rest ref, save ref, code/next ref)
        budget = maxrefs - 2 - (1 if cd.get('save') else 0)
        if budget < 0:
            cd['save'] = []
            budget = maxrefs - 2
        st_[-1] = _fit(st_[-1], max(budget, 0))
        if _vsize(st_[-1])[1] > max(budget, 0):
            st_[-1] = {'t': 'int', 'v': str(len(st_))}
        cd['stack'] = st_
    out['cdata'] = cd
    b, r = _csize(out)
    if r > maxrefs and cd.get('save'):
        cd['save'] = []
        b, r = _csize(out)
    if r > maxrefs and cd.get('stack'):
        cd['stack'] = []
        b, r = _csize(out)
    if r > maxrefs or b > maxbits:
        if cd.get('stack'):
            cd['stack'] = []
        b, r = _csize(out)
    if r > maxrefs or b > maxbits:
        return dict(QUIT_EXC)
    return out


def fit_case(case):
    return {'stack': [_fit(v, 3) for v in case['stack']]}


# --------------------------------------------------------------------------------------------------
# generators

def _boundary_ints():
    out = set()
    for k in (31, 32, 62, 63, 64, 65, 255, 256):
        for d in (-2, -1, 0, 1, 2):
            for sgn in (1, -1):
                v = sgn * (1 << k) + d
                if INT_MIN <= v <= INT_MAX:
                    out.add(v)
    out.update((0, 1, -1, 2, -2, 255, -256, INT_MIN, INT_MAX))
    return sorted(out)


BOUNDARY = _boundary_ints()
FORM_EDGES = (M63 - 1, M63, -M63, -M63 - 1, INT_MIN, INT_MAX)


def _near_edge(v):
    return any(abs(v - e) <= 1 for e in FORM_EDGES)


def _I(v):
    return {'t': 'int', 'v': str(v)}


NULL = {'t': 'null'}

_bits = st.one_of(st.text('01', max_size=24), st.text('01', max_size=24),
                  st.builds(lambda n, x: (format(x, '064b') * 16)[:n], st.integers(0, 1023), st.integers(0, 2 ** 64 - 1)),
                  st.sampled_from([('', 0), ('0', 1), ('1', 1), ('1', 1023), ('0', 1023), ('10', 511)])
                  .map(lambda p: p[0] * p[1]))
_leafcell = _bits.map(lambda b: {'bits': b, 'refs': []})
_cellspec = st.recursive(_leafcell, lambda ch: st.builds(lambda b, r: {'bits': b, 'refs': r}, _bits,
                                                          st.lists(ch, max_size=4)), max_leaves=6)
_int = st.one_of(st.sampled_from(BOUNDARY), st.integers(-M63 - 3, M63 + 3), st.integers(INT_MIN, INT_MAX),
                 st.integers(-1000, 1000), st.integers(M63 - 3, M63 + 3), st.integers(-M63 - 3, -M63 + 3)).map(_I)


def _mk_slice(c, fb, fr):
    nb, nr = len(c['bits']), len(c['refs'])
    return {'c': c, 'cb': min(nb, fb) if fb < 2000 else nb, 'cr': min(nr, fr)}


_slicebody = st.builds(_mk_slice, _cellspec, st.one_of(st.just(0), st.just(5000), st.integers(0, 1023), st.integers(0, 16)),
                       st.integers(0, 4))
_slice = _slicebody.map(lambda s: dict(s, t='slice'))
_cell = _cellspec.map(lambda c: {'t': 'cell', 'c': c})
_builder = _cellspec.map(lambda c: {'t': 'builder', 'c': c})
_i32 = st.one_of(st.sampled_from([0, 1, -1, 5, 2 ** 31 - 1, -2 ** 31]), st.integers(-2 ** 31, 2 ** 31 - 1))
_u63 = st.one_of(st.sampled_from([0, 1, M63 - 1, 1 << 62]), st.integers(0, M63 - 1))
_nargs = st.one_of(st.none(), st.sampled_from([0, 1, 2, 8191, 4096]), st.integers(0, 8191))
_cp = st.one_of(st.none(), st.sampled_from([0, -1, 1, 32767, -32768]), st.integers(-32768, 32767))


def _opaque(s):
    """same strategy with a short repr (Hypothesis builds the repr of nested strategies eagerly; ours are huge)"""
    @st.composite
    def opaque(draw):
        return draw(s)
    return opaque()


_leaf = _opaque(st.one_of(st.just(NULL), _int, _int, _cell, _slice, _builder))
_slicebody = _opaque(_slicebody)


@functools.lru_cache(maxsize=None)
def _cdata_s(depth):
    vals = _value_s(depth)
    return _opaque(st.fixed_dictionaries({
        'nargs': _nargs, 'cp': _cp,
        'stack': st.one_of(st.none(), st.lists(vals, max_size=3)),
        'save': st.lists(st.tuples(st.integers(0, 15), vals), max_size=3, unique_by=lambda kv: kv[0])
        .map(lambda l: [[k, v] for k, v in l]),
    }))


@functools.lru_cache(maxsize=None)
def _cont_s(depth):
    base = st.one_of(st.just(dict(QUIT_EXC)), _i32.map(lambda v: {'t': 'cont', 'k': 'quit', 'exit_code': v}))
    if depth <= 0:
        return base
    sub = _cont_s(depth - 1)
    cd = _cdata_s(depth - 1)
    return _opaque(st.one_of(
        base,
        st.builds(lambda c, code: {'t': 'cont', 'k': 'std', 'cdata': c, 'code': code}, cd, _slicebody),
        st.builds(lambda c, n: {'t': 'cont', 'k': 'envelope', 'cdata': c, 'next': n}, cd, sub),
        st.builds(lambda n, b, a: {'t': 'cont', 'k': 'repeat', 'count': str(n), 'body': b, 'after': a}, _u63, sub, sub),
        st.builds(lambda b, a: {'t': 'cont', 'k': 'until', 'body': b, 'after': a}, sub, sub),
        st.builds(lambda b: {'t': 'cont', 'k': 'again', 'body': b}, sub),
        st.builds(lambda k, c, b, a: {'t': 'cont', 'k': k, 'cond': c, 'body': b, 'after': a},
                  st.sampled_from(['while_cond', 'while_body']), sub, sub, sub),
        st.builds(lambda v, n: {'t': 'cont', 'k': 'pushint', 'value': v, 'next': n}, _i32, sub),
    ))


@functools.lru_cache(maxsize=None)
def _value_s(depth):
    if depth <= 0:
        return _leaf
    inner = _value_s(depth - 1)
    tup = st.one_of(st.lists(inner, max_size=3), st.lists(inner, min_size=2, max_size=2),
                    st.lists(inner, min_size=3, max_size=2 + 2 * depth)).map(lambda l: {'t': 'tuple', 'items': l})
    return _opaque(st.one_of(_leaf, _leaf, tup, _cont_s(min(depth, 2))))


def strat_stacks(tier):
    mx = 40 if tier == 'quick' else 300
    shallow = st.lists(_value_s(4), max_size=6)
    mid = st.lists(_value_s(2), max_size=16)
    deep = st.lists(st.one_of(_value_s(0), _value_s(1)), min_size=8, max_size=mx)
    return st.one_of(shallow, shallow, mid, deep).map(lambda l: fit_case({'stack': l}))


def strat_conts(tier):
    one = _cont_s(3)
    return st.lists(st.one_of(one, one, _value_s(1)), min_size=1, max_size=4).map(lambda l: fit_case({'stack': l}))


def _nest(items, depth):
    v = {'t': 'tuple', 'items': items}
    for _ in range(depth - 1):
        v = {'t': 'tuple', 'items': [v]}
    return v


def enum_structured(tier):
    cases = []
    add = lambda *vals: cases.append({'stack': list(vals)})
    add()
    add(NULL)
    # integers: each boundary value alone, and all together in one stack
    for v in BOUNDARY:
        add(_I(v))
    add(*[_I(v) for v in BOUNDARY])
    # tuples: lengths 0..8 at nestings 1..4, leaf and mixed content; nested tuples of each length inside each length
    c0 = {'bits': '1011', 'refs': [{'bits': '', 'refs': []}]}
    mix = [_I(1), NULL, {'t': 'cell', 'c': c0}, _I(M63), {'t': 'slice', 'c': c0, 'cb': 2, 'cr': 1},
           {'t': 'builder', 'c': c0}, _I(-M63), dict(QUIT_EXC), _I(INT_MIN)]
    for n in range(0, 9):
        for d in (1, 2, 3, 4):
            add(_nest([_I(i + 1) for i in range(n)], d))
        add(_nest(mix[:n], 1))
        add(_I(7), _nest(mix[:n], 2), NULL)
        for m in range(0, 5):
            inner = {'t': 'tuple', 'items': [_I(10 + j) for j in range(m)]}
            add({'t': 'tuple', 'items': [inner if i % 2 == 0 else _I(i) for i in range(n)]})
    for n in (16, 40) + ((120, 255) if tier != 'quick' else ()):
        add(_nest([_I(i) for i in range(n)], 1))
    # cells / slices / builders: every consumption state of a small cell, extreme sizes
    big = {'bits': '10' * 511 + '1', 'refs': [{'bits': '1', 'refs': []}, {'bits': '', 'refs': []},
                                             {'bits': '0', 'refs': []}, c0]}
    for c in (c0, big, {'bits': '', 'refs': []}):
        add({'t': 'cell', 'c': c})
        add({'t': 'builder', 'c': c})
        nb, nr = len(c['bits']), len(c['refs'])
        for cb in sorted({0, 1, nb // 2, max(nb - 1, 0), nb}):
            for cr in range(nr + 1):
                if cb <= nb:
                    add({'t': 'slice', 'c': c, 'cb': cb, 'cr': cr})
                    add(NULL, {'t': 'slice', 'c': c, 'cb': cb, 'cr': cr}, _I(3))
    # continuations: every kind x control-data variants
    q5 = {'t': 'cont', 'k': 'quit', 'exit_code': 5}
    code = {'c': c0, 'cb': 1, 'cr': 0}
    cds = []
    for nargs in (None, 0, 1, 8191):
        for cp in (None, 0, -1, 32767, -32768):
            cds.append({'nargs': nargs, 'cp': cp, 'stack': None, 'save': []})
    for stack in ([], [_I(1)], [NULL, _I(M63)], [_I(2), {'t': 'tuple', 'items': [_I(1), _I(2), _I(3)]}],
                  [dict(QUIT_EXC)], [{'t': 'cell', 'c': c0}], [_I(1), q5]):
        for save in ([], [[0, dict(QUIT_EXC)]], [[0, q5], [7, {'t': 'cell', 'c': c0}], [15, _I(-1)]]):
            cds.append({'nargs': 2, 'cp': -1, 'stack': stack, 'save': save})
            cds.append({'nargs': None, 'cp': None, 'stack': stack, 'save': save})
    for k in range(16):
        cds.append({'nargs': None, 'cp': None, 'stack': None, 'save': [[k, NULL]]})
    cds.append({'nargs': None, 'cp': None, 'stack': None, 'save': [[k, _I(k)] for k in range(16)]})
    for cd in cds:
        add({'t': 'cont', 'k': 'std', 'cdata': cd, 'code': code})
        add({'t': 'cont', 'k': 'envelope', 'cdata': cd, 'next': dict(QUIT_EXC)})
    subs = (dict(QUIT_EXC), q5, {'t': 'cont', 'k': 'again', 'body': dict(QUIT_EXC)},
            {'t': 'cont', 'k': 'std', 'cdata': cds[0], 'code': code})
    for ec in (0, 1, -1, 5, 2 ** 31 - 1, -2 ** 31):
        add({'t': 'cont', 'k': 'quit', 'exit_code': ec})
        add({'t': 'cont', 'k': 'pushint', 'value': ec, 'next': dict(QUIT_EXC)})
    add(dict(QUIT_EXC))
    for a in subs:
        add({'t': 'cont', 'k': 'again', 'body': a})
        add({'t': 'cont', 'k': 'pushint', 'value': 7, 'next': a})
        add({'t': 'cont', 'k': 'envelope', 'cdata': cds[0], 'next': a})
        for b in subs:
            add({'t': 'cont', 'k': 'until', 'body': a, 'after': b})
            for n in (0, 1, M63 - 1):
                add({'t': 'cont', 'k': 'repeat', 'count': str(n), 'body': a, 'after': b})
            for k in ('while_cond', 'while_body'):
                add({'t': 'cont', 'k': k, 'cond': a, 'body': b, 'after': dict(QUIT_EXC)})
                add({'t': 'cont', 'k': k, 'cond': dict(QUIT_EXC), 'body': a, 'after': b})
    # continuations inside tuples and next to other values
    add(_I(1), {'t': 'tuple', 'items': [dict(QUIT_EXC), q5, {'t': 'cont', 'k': 'again', 'body': q5}]}, NULL)
    # depth ladder
    top = 40 if tier == 'quick' else 300
    for d in sorted(set(list(range(0, 12)) + [16, 31, 32, 33, 40, top])):
        add(*[mix[i % len(mix)] if i % 3 else _I(i) for i in range(d)])
        add(*[_I(BOUNDARY[i % len(BOUNDARY)]) for i in range(d)])
    for c in cases:
        yield fit_case(c)


# --------------------------------------------------------------------------------------------------
# classes / non-triviality

def _scan(v, acc, tdepth):
    t = v['t']
    if t == 'int':
        x = int(v['v'])
        acc.add('int-tiny' if -M63 < x < M63 else 'int-eq-minus-2^63' if x == -M63 else 'int-257')
        if _near_edge(x):
            acc.add('int-within-1-of-form-boundary')
            acc.add('NT')
    elif t == 'tuple':
        acc.add('tuple-len=' + _lenclass(len(v['items'])))
        acc.add(f'tuple-nesting={tdepth + 1}')
        if len(v['items']) >= 2:
            acc.add('NT')
        for x in v['items']:
            _scan(x, acc, tdepth + 1)
    elif t == 'cont':
        acc.add('NT')
        _scan_cont(v, acc, tdepth)
    elif t == 'slice':
        acc.add('slice-partly-consumed' if v.get('cb') or v.get('cr') else 'slice-fresh')
    else:
        acc.add(t)


def _scan_cont(c, acc, tdepth):
    acc.add('cont=' + c['k'])
    for name, typ in CONT_FIELDS[c['k']]:
        if typ == 'cont':
            _scan_cont(c[name], acc, tdepth)
        elif typ == 'cdata':
            cd = c[name]
            acc.add('cdata-nargs=' + ('absent' if cd.get('nargs') is None else '0' if cd['nargs'] == 0 else '>0'))
            acc.add('cdata-cp=' + ('absent' if cd.get('cp') is None else '0' if cd['cp'] == 0 else 'nonzero'))
            acc.add('cdata-stack=' + ('absent' if cd.get('stack') is None else 'empty' if not cd['stack'] else 'nonempty'))
            acc.add('cdata-save=' + ('empty' if not cd.get('save') else 'nonempty'))
            for x in cd.get('stack') or []:
                _scan(x, acc, tdepth)
            for _, x in cd.get('save') or []:
                _scan(x, acc, tdepth)


def _labels(case):
    acc = set()
    for v in case['stack']:
        _scan(v, acc, 0)
    return acc


def classify(case):
    acc = _labels(case)
    acc.discard('NT')
    d = len(case['stack'])
    acc.add('depth=' + ('0' if d == 0 else '1' if d == 1 else '2-7' if d < 8 else '8-40' if d <= 40 else '41+'))
    return sorted(acc)


def nontrivial(case):
    return 'NT' in _labels(case)


def check_window(case):
    """parse direction on encodings the library's own writer never produces: a VmCellSlice whose window (st_bits..end_bits,
    st_ref..end_ref) is a proper part of its cell - `_ cell:^Cell st_bits:(## 10) end_bits:(## 10) st_ref:(#<= 4) end_ref:(#<= 4)`.
    The stack cell is assembled bit by bit here (Builder.store_bits/store_uint/store_ref are the trusted base); the parser must
    return the slice holding exactly the window, the values around it, and serialising its result again must denote the same
    values under the independent decoder."""
    from pytoniq_core.tlb.vm_stack import VmStack
    from pytoniq_core.boc.builder import Builder
    from pytoniq_core.boc.slice import Slice
    c = case['c']
    bits, refs = _tree(c)
    nb, nr = len(bits), len(refs)
    sb = case['w'][0] % (nb + 1)
    eb = sb + case['w'][1] % (nb - sb + 1)
    sr = case['w'][2] % (nr + 1)
    er = sr + case['w'][3] % (nr - sr + 1)
    below = int(case['below'])
    # [below, window-slice] : vm_stk_cons rest:^(cons rest:^nil tos:int) tos:slice
    tiny = Builder().store_ref(Builder().end_cell()).store_uint(1, 8).store_int(below, 64).end_cell()
    stack = (Builder().store_uint(2, 24).store_ref(tiny).store_uint(4, 8).store_ref(mk_cell(c))
             .store_uint(sb, 10).store_uint(eb, 10).store_uint(sr, 3).store_uint(er, 3).end_cell())
    want = [('int', below), ('slice', bits[sb:eb], refs[sr:er])]
    for attempt in ('first', 'second'):
        ok, back = call(VmStack.deserialize, stack.begin_parse())
        if not ok:
            return Fail(f'windowed-slice/parse-raises/{exc_sig(back)}', f'window bits {sb}..{eb} refs {sr}..{er} of {nb}/{nr}: {back!r}')
        for m in diff([norm(x) for x in back], want):
            return Fail(f'windowed-slice/{m.cls}' + ('' if attempt == 'first' else '/second-parse'),
                        f'window bits {sb}..{eb} refs {sr}..{er} of a cell with {nb} bits / {nr} refs: {m.path}: {m.detail}')
        for x in back:                                   # what the parsed slice converts into is the window, too
            if isinstance(x, Slice):
                for how, mk in (('to_cell', lambda: x.to_cell()), ('copy.to_cell', lambda: x.copy().to_cell()),
                                ('to_builder.end_cell', lambda: x.to_builder().end_cell())):
                    ok, c2 = call(mk)
                    if not ok:
                        return Fail(f'windowed-slice/{how}-raises/{exc_sig(c2)}', repr(c2))
                    got = ('slice', c2.bits.to01(), [rv.to_tree(r) for r in c2.refs])
                    for m in diff([got], [want[1]]):
                        return Fail(f'windowed-slice/{how}/{m.cls}', f'window bits {sb}..{eb} refs {sr}..{er} of a cell with {nb} bits / {nr} refs: '
                                    f'the cell taken from the parsed slice: {m.path}: {m.detail}')
        for x in back:                                   # the caller reads what it got; the stack cell is parsed again
            if isinstance(x, Slice):
                call(lambda: x.load_bits(min(5, len(x.bits))))
                call(x.load_ref)
    ok, back = call(VmStack.deserialize, stack.begin_parse())
    ok, again = call(VmStack.serialize, back)
    if not ok:
        return Fail(f'windowed-slice/reserialize-raises/{exc_sig(again)}', repr(again))
    try:
        d = rv.decode_stack(rv.to_tree(again))
    except (rv.DecodeError, RecursionError) as e:
        return Fail('windowed-slice/reserialized-undecodable', str(e))
    for m in diff(d, want):
        return Fail(f'windowed-slice/reserialized/{m.cls}', f'{m.path}: {m.detail}')
    return None


def strat_window(tier):
    leaf = st.builds(lambda n, v: {'bits': format(v % (1 << n), '0%db' % n) if n else '', 'refs': []}, st.integers(0, 40), st.integers(0, 2 ** 40))
    cell = st.builds(lambda n, v, r: {'bits': format(v % (1 << n), '0%db' % n) if n else '', 'refs': r},
                     st.one_of(st.integers(0, 64), st.sampled_from([0, 1, 8, 1022, 1023])), st.integers(0, 2 ** 1023),
                     st.lists(leaf, max_size=4))
    return st.fixed_dictionaries({'c': cell, 'below': st.sampled_from([0, 1, -1, 2 ** 63 - 1, -2 ** 63, 12345]).map(str),
                                  'w': st.tuples(st.sampled_from([0, 0, 1, 3, 9]), st.integers(0, 1023), st.integers(0, 4),
                                                 st.sampled_from([0, 1, 2, 3, 4, 4])).map(list)})


def _window_classes(case):
    bits, refs = _tree(case['c'])
    nb, nr = len(bits), len(refs)
    sb = case['w'][0] % (nb + 1)
    eb = sb + case['w'][1] % (nb - sb + 1)
    sr = case['w'][2] % (nr + 1)
    er = sr + case['w'][3] % (nr - sr + 1)
    yield 'window:bits=' + ('full' if (sb, eb) == (0, nb) else 'empty' if sb == eb else 'prefix' if sb == 0 else 'suffix' if eb == nb else 'inner')
    yield 'window:refs=' + ('full' if (sr, er) == (0, nr) else 'empty' if sr == er else 'prefix' if sr == 0 else 'suffix' if er == nr else 'inner')


# --------------------------------------------------------------------------------------------------
# stacks and tuples as deep as the interpreter lets the (recursive) library go

_C0 = {'bits': '1011', 'refs': [{'bits': '', 'refs': []}]}


def _deep_value(i, fill):
    """the i-th entry (bottom first) of a deep stack: a pure function of the index and the fill kind; every entry is small"""
    if fill == 'ints':
        return NULL if i % 7 == 3 else _I((i - 5) * 3 ** (i % 150)) if i % 5 else _I(i - 400)
    if fill == 'tuples':
        return {'t': 'tuple', 'items': [_I(i + j) for j in range(i % 4)]}
    k = i % 11
    return (_I(i), NULL, {'t': 'cell', 'c': _C0}, {'t': 'slice', 'c': _C0, 'cb': i % 3, 'cr': i % 2},
            {'t': 'builder', 'c': _C0}, {'t': 'tuple', 'items': [_I(i), _I(-i)]}, {'t': 'tuple', 'items': []},
            {'t': 'cont', 'k': 'quit', 'exit_code': i}, _I(M63 + i), {'t': 'tuple', 'items': [{'t': 'tuple', 'items': [_I(i)]}]},
            _I(-M63 - i))[k]


def _at_depth(pad, thunk):
    """(ok, value | exception) of the library call `thunk`, made from a NEW thread - whose call stack starts empty, whatever the
    test runner has piled up in this one - below `pad` extra frames: the depth the call is made from is part of the case"""
    import threading
    box = []

    def down(d):
        if d > 0:
            return down(d - 1)
        box.append(call(thunk))

    def body():
        try:
            down(pad)
        except BaseException as e:                       # noqa: must not be lost in the thread
            box.append((False, e))

    t = threading.Thread(target=body)
    t.start()
    t.join()
    return box[0]


def _tree_iter(cell):
    """rv.to_tree without recursion (a chain of 1023 cells)"""
    memo, todo, keep = {}, [(cell, False)], []
    while todo:
        c, done = todo.pop()
        if id(c) in memo:
            continue
        if done:
            memo[id(c)] = (c.bits.to01(), [memo[id(r)] for r in c.refs])
            keep.append(c)
        else:
            todo.append((c, True))
            todo.extend((r, False) for r in c.refs if id(r) not in memo)
    return memo[id(cell)]


def _hand_stack_of_ints(values):
    """the VmStack cell of a stack of None / int, assembled bit by bit (Builder = trusted base), chained in a loop"""
    from pytoniq_core.boc.builder import Builder
    chain = Builder().end_cell()
    n = len(values)
    for i, v in enumerate(values):
        if v is None:
            b = '00000000'
        elif -M63 < v < M63:
            b = '00000001' + format(v % (1 << 64), '064b')
        else:
            b = '000000100000000' + format(v % (1 << 257), '0257b')
        bld = Builder()
        if i == n - 1:
            bld.store_bits(format(n, '024b'))
        bld.store_ref(chain).store_bits(b)
        chain = bld.end_cell()
    if n == 0:
        return Builder().store_bits('0' * 24).end_cell()
    return chain


def _may_refuse(frames):
    import sys
    return frames + 45 >= sys.getrecursionlimit()


def _refusal(e, frames, what):
    """an exception from a deep call: the interpreter's recursion limit is a loud, acceptable answer where the input is deep
    enough to reach it; anything else (or a refusal of an input far from the limit) is a failure of the round trip"""
    if _may_refuse(frames) and isinstance(e, RecursionError):
        return None
    return Fail(f'deep/{what}-raises/{exc_sig(e)}', f'{e!r} ({frames} entries + frames below the call)')


def check_deep(case):
    if 'nest' in case:
        return _check_deep_nest(case)
    from pytoniq_core.tlb.vm_stack import VmStack
    n, pad, fill = case['n'], case['pad'], case['fill']
    specs = [_deep_value(i, fill) for i in range(n)]
    want = [expect(v) for v in specs]
    s = [mk_value(v) for v in specs]
    held = list(s)
    snap = [norm(x) for x in s]
    for m in diff(snap, want):
        return Fail(f'build/{m.cls}', f'{m.path}: {m.detail}')
    ok, c1 = _at_depth(pad, lambda: VmStack.serialize(s))
    ser_ok = ok
    unchanged = lambda: len(s) == len(held) and all(a is b for a, b in zip(s, held)) and not diff([norm(x) for x in held], snap)
    if not unchanged():
        return Fail('deep/consumed/' + ('serialized' if ok else 'refused'), f'{n} entries, called from depth {pad}: the caller\'s list / '
                    f'values are not what they were (list length {len(s)})')
    if not ok:
        f = _refusal(c1, n + pad, 'serialize')
        if f:
            return f
        # nothing lingers: the lower part of the same stack, well inside the limit, serialises to exactly its values
        low = s[:min(n, 60)]
        ok, cl = _at_depth(0, lambda: VmStack.serialize(low))
        if not ok:
            return Fail(f'deep/after-refusal/serialize-raises/{exc_sig(cl)}', repr(cl))
        try:
            dl = rv.decode_stack(_tree_iter(cl))
        except rv.DecodeError as e:
            return Fail(f'deep/after-refusal/undecodable/{e.what}', str(e))
        for m in diff(dl, want[:len(low)]):
            return Fail(f'deep/after-refusal/{m.cls}', f'{m.path}: {m.detail}')
    else:
        try:
            decoded = rv.decode_stack(_tree_iter(c1))
        except rv.DecodeError as e:
            return Fail(f'deep/schema/undecodable/{e.what}', f'{n} entries, called from depth {pad}: {e}')
        for m in diff(decoded, want):
            return Fail(f'deep/schema/{m.cls}', f'{n} entries serialised from depth {pad}, the cell holds: {m.path}: {m.detail}')
        ok, c2 = _at_depth(pad, lambda: VmStack.serialize(s))
        if not ok:
            f = _refusal(c2, n + pad, 'second-serialize')
            if f:
                return f
        elif c2.hash != c1.hash:
            return Fail('deep/twice/cell-differs', f'{n} entries, depth {pad}')
        if not unchanged():
            return Fail('deep/consumed/second-call', f'{n} entries')
        ok, back = _at_depth(pad, lambda: VmStack.deserialize(c1.begin_parse()))
        if not ok:
            f = _refusal(back, n + pad, 'deserialize')
            if f:
                return f
        else:
            if not isinstance(back, list):
                return Fail('deep/deserialize/result-not-a-list', _short(back))
            for m in diff([norm(x) for x in back], want):
                return Fail(f'deep/deserialize/{m.cls}', f'{n} entries: {m.path}: {m.detail}')
    if fill == 'ints':
        # parse direction on its own: the same stack assembled by hand, also where the writer refuses
        ref = _hand_stack_of_ints([None if v['t'] == 'null' else int(v['v']) for v in specs])
        if ser_ok and c1.hash != ref.hash:
            return Fail('deep/schema/differs-from-hand-assembled-cell', f'{n} entries')
        okh, backh = _at_depth(pad, lambda: VmStack.deserialize(ref.begin_parse()))
        if not okh:
            return _refusal(backh, n + pad, 'deserialize-hand-assembled')
        if not isinstance(backh, list):
            return Fail('deep/deserialize/result-not-a-list', _short(backh))
        for m in diff([norm(x) for x in backh], want):
            return Fail(f'deep/deserialize-hand-assembled/{m.cls}', f'{n} entries: {m.path}: {m.detail}')
    return None


_NEST_FRAMES = {1: 2, 2: 2, 3: 4}          # library frames per nesting level (VmStackValue -> VmTuple [-> VmTupleRef -> VmTuple])


def _nest_build(n, w):
    """T_0 = empty tuple, T_k = [T_{k-1}] (w=1) | [k, T_{k-1}] (w=2) | [k, T_{k-1}, None] (w=3); built in a loop"""
    from pytoniq_core.tlb.vm_stack import VmTuple
    chain = [VmTuple([])]
    for k in range(1, n + 1):
        chain.append(VmTuple([chain[-1]] if w == 1 else [k, chain[-1]] if w == 2 else [k, chain[-1], None]))
    return chain


def _nest_walk(top, n, w):
    """None when `top` reads as T_n, else (level, text); no recursion"""
    from pytoniq_core.tlb.vm_stack import VmTuple
    o = top
    for k in range(n, -1, -1):
        if not isinstance(o, VmTuple) or not isinstance(o.list, list):
            return k, f'{type(o).__name__} where a tuple is expected'
        exp_len = 0 if k == 0 else w
        if len(o.list) != exp_len:
            return k, f'tuple of length {len(o.list)} where length {exp_len} is expected'
        if k == 0:
            return None
        if w >= 2 and (o.list[0] != k or isinstance(o.list[0], bool) or not isinstance(o.list[0], int)):
            return k, f'first element {o.list[0]!r} != {k}'
        if w == 3 and o.list[2] is not None:
            return k, f'third element {o.list[2]!r} is not None'
        o = o.list[0 if w == 1 else 1]
    return None


def _nest_schema(tree, n, w):
    """the cell tree of VmStack [T_n] against the schema, level by level in a loop (hand-derived from vm_tuple_tcons / vm_tupref_*):
    value cell of a tuple = 0x07 len:16 ++ VmTuple len; VmTuple 1 = tail:^value; VmTuple 2 = (entry:^value) tail:^value;
    VmTuple 3 = ref:^(VmTuple 2) tail:^value"""
    bits, refs = tree
    if bits[:24] != format(1, '024b') or not refs or refs[0] != ('', []):
        return 'top', 'not a stack of one entry over vm_stk_nil'
    cur = (bits[24:], refs[1:])
    tiny = lambda v: ('00000001' + format(v, '064b'), [])
    for k in range(n, -1, -1):
        b, r = cur
        ln = 0 if k == 0 else w
        if b != '00000111' + format(ln, '016b'):
            return k, f'value bits {b[:40]} != tuple tag + length {ln}'
        if k == 0:
            return None if not r else (k, 'empty tuple with references')
        if w == 1:
            if len(r) != 1:
                return k, f'{len(r)} references'
            cur = r[0]
        elif w == 2:
            if len(r) != 2 or r[0] != tiny(k):
                return k, 'VmTuple 2: not (entry:^tinyint k, tail:^value)'
            cur = r[1]
        else:
            if len(r) != 2 or r[1] != ('00000000', []) or r[0][0] != '' or len(r[0][1]) != 2 or r[0][1][0] != tiny(k):
                return k, 'VmTuple 3: not (ref:^(VmTuple 2 = entry:^tinyint k, tail:^value), tail:^null)'
            cur = r[0][1][1]
    return None


def _check_deep_nest(case):
    from pytoniq_core.tlb.vm_stack import VmStack
    n, w, pad = case['nest'], case['w'], case['pad']
    chain = _nest_build(n, w)
    s = [chain[-1]]
    frames = _NEST_FRAMES[w] * n + pad

    def unchanged():
        # every level still is what it was built as (chain[k] is T_k and holds chain[k-1])
        for k in range(n, 0, -1):
            l = chain[k].list
            if not isinstance(l, list) or len(l) != w or l[0 if w == 1 else 1] is not chain[k - 1]:
                return False
        return len(s) == 1 and s[0] is chain[-1] and chain[0].list == [] and _nest_walk(chain[-1], n, w) is None

    ok, c1 = _at_depth(pad, lambda: VmStack.serialize(s))
    if not unchanged():
        return Fail('deep/consumed/nested-tuples/' + ('serialized' if ok else 'refused'), f'{n} tuples of length {w} nested')
    if not ok:
        f = _refusal(c1, frames, 'serialize-nested-tuples')
        if f:
            return f
        m = min(n, 20)
        ok, cl = _at_depth(0, lambda: VmStack.serialize([chain[m]]))
        if not ok:
            return Fail(f'deep/after-refusal/serialize-raises/{exc_sig(cl)}', repr(cl))
        bad = _nest_schema(_tree_iter(cl), m, w)
        if bad:
            return Fail('deep/after-refusal/nested-tuples', f'level {bad[0]}: {bad[1]}')
        return None
    bad = _nest_schema(_tree_iter(c1), n, w)
    if bad:
        return Fail('deep/schema/nested-tuples', f'{n} tuples of length {w} nested, serialised from depth {pad}: level {bad[0]}: {bad[1]}')
    ok, c2 = _at_depth(pad, lambda: VmStack.serialize(s))
    if not ok:
        f = _refusal(c2, frames, 'second-serialize-nested-tuples')
        if f:
            return f
    elif c2.hash != c1.hash:
        return Fail('deep/twice/cell-differs/nested-tuples', f'{n} x {w}')
    if not unchanged():
        return Fail('deep/consumed/nested-tuples/second-call', f'{n} x {w}')
    ok, back = _at_depth(pad, lambda: VmStack.deserialize(c1.begin_parse()))
    if not ok:
        return _refusal(back, frames, 'deserialize-nested-tuples')
    if not isinstance(back, list) or len(back) != 1:
        return Fail('deep/deserialize/nested-tuples/stack-length', _short(back))
    bad = _nest_walk(back[0], n, w)
    if bad:
        return Fail('deep/deserialize/nested-tuples', f'{n} tuples of length {w} nested: level {bad[0]}: {bad[1]}')
    return None


def enum_deep(tier):
    """entries + depth of the caller sweep the band around the interpreter's recursion limit (read here, not assumed); mostly
    from a shallow caller. An enumeration, not a Hypothesis strategy: Hypothesis raises the recursion limit while it runs a test,
    an enumerated case is checked under the limit the process really has. Extra cases vary with VERIF_SEED."""
    import random
    import sys
    from harness import core
    lim = sys.getrecursionlimit()
    quick = tier == 'quick'
    fills = ('ints', 'mixed', 'tuples')
    cases = []
    add = cases.append
    # the whole stack-depth range the schema allows beyond everyday sizes, from an (almost) empty call stack
    ns = set(range(900, 1024, 12 if quick else 3)) | set(range(lim - 30, lim + 6, 2 if quick else 1)) | {1000, 1010, 1022, 1023}
    for i, n in enumerate(sorted(x for x in ns if 0 <= x <= 1023)):
        add({'n': n, 'pad': i % 3, 'fill': fills[i % 3]})
        if not quick or lim - 24 <= n <= lim:
            add({'n': n, 'pad': (i + 1) % 3, 'fill': fills[(i + 1) % 3]})
    # smaller stacks serialised from a deep call chain: the same band of totals
    for j, pad in enumerate((100, 500, 900, 940)):
        for t in range(lim - 40, lim + 8, 8 if quick else 2):
            add({'n': max(0, min(t - pad, 1023)), 'pad': pad, 'fill': fills[(j + t) % 3]})
    # nested tuples: two (length 1, 2) or four (length 3+) frames a level
    for w in (1, 2, 3):
        for t in sorted(set(range(lim - 120, lim + 41, 40 if quick else 10)) | set(range(lim - 30, lim + 7, 6 if quick else 2))):
            add({'nest': max(0, t // _NEST_FRAMES[w]), 'w': w, 'pad': 0})
        for pad in (300, 800):
            for t in range(lim - 24, lim + 8, 8 if quick else 2):
                add({'nest': max(0, (t - pad) // _NEST_FRAMES[w]), 'w': w, 'pad': pad})
    # everyday sizes from any depth (far from the limit: no refusal is acceptable there)
    for n, pad in ((0, 0), (1, 0), (40, 0), (120, 300), (300, 100), (5, 900)):
        add({'n': n, 'pad': pad, 'fill': fills[n % 3]})
    rnd = random.Random(core.SEED * 7919 + 17)
    for _ in range(24 if quick else 400):
        pad = rnd.choice((0, 0, 1, 2, 3, rnd.randrange(4, 950)))
        t = rnd.randrange(lim - 60, lim + 24)
        if rnd.random() < 0.3:
            w = rnd.choice((1, 2, 3))
            add({'nest': max(0, (t - pad) // _NEST_FRAMES[w]), 'w': w, 'pad': pad})
        elif pad <= 3 and rnd.random() < 0.5:
            add({'n': rnd.randrange(900, 1024), 'pad': pad, 'fill': rnd.choice(fills)})
        else:
            add({'n': max(0, min(t - pad, 1023)), 'pad': pad, 'fill': rnd.choice(fills)})
    return cases


def _deep_classes(case):
    import sys
    lim = sys.getrecursionlimit()
    if 'nest' in case:
        fr = _NEST_FRAMES[case['w']] * case['nest'] + case['pad']
        yield f'deep:nested-tuples/w={case["w"]}'
    else:
        fr = case['n'] + case['pad']
        yield 'deep:stack/fill=' + case['fill']
        yield 'deep:entries=' + ('<900' if case['n'] < 900 else '900-979' if case['n'] < 980 else '980-999' if case['n'] < 1000 else '1000-1023')
    yield 'deep:caller=' + ('shallow' if case['pad'] <= 3 else 'deep')
    yield 'deep:frames-vs-limit=' + ('far-below' if fr < lim - 45 else 'just-below' if fr < lim - 12 else 'at-the-limit' if fr <= lim + 5 else 'beyond')


SUBCHECKS = [
    Sub('structured', check, enum=enum_structured, classify=classify, nontrivial=nontrivial, shards=(16, 16),
        note='boundary ints, tuple length x nesting grid, slice consumption grid, every continuation kind x '
             'control-data variant, depth ladder'),
    Sub('random-stacks', check, strategy=strat_stacks, classify=classify, nontrivial=nontrivial,
        n=(3000, 100000), shards=(16, 48)),
    Sub('random-continuations', check, strategy=strat_conts, classify=classify, nontrivial=nontrivial,
        n=(1200, 40000), shards=(16, 32)),
    Sub('deep-stacks-at-the-recursion-limit', check_deep, enum=enum_deep, classify=_deep_classes, nontrivial=lambda c: True,
        shards=(8, 16), case_cpu_s=60.0,
        note='stacks of 900..1023 entries (ints / mixed values / tuples) and tuples nested ~500 deep, serialised and parsed from a '
             'call stack of chosen depth in a fresh thread, under the recursion limit the process really has (no Hypothesis '
             'around the call): a refusal by the interpreter limit is accepted, a cell that does not hold all entries is not'),
    Sub('windowed-slices-foreign-encoding', check_window, strategy=strat_window, classify=_window_classes,
        nontrivial=lambda c: True, n=(600, 20000), shards=(4, 16),
        note='VmCellSlice values whose window is a proper part of the cell (hand-assembled stack cells): parse, re-parse, re-serialise'),
]


# the same generated cases, several at a time, checked by threads that run at the same time (core.run_overlapping): per-call state
# kept in a place two calls share shows only there
for _b, _n in (('random-stacks', 'two-threads-stacks'), ('random-continuations', 'two-threads-continuations')):
    SUBCHECKS.append(__import__('harness.core', fromlist=['overlapped']).overlapped(next(s for s in SUBCHECKS if s.name == _b), name=_n, k=3, n=(30, 1000)))
