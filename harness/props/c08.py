"""C08 — cells are immutable values; derived objects are isolated snapshots (stateful, programs as cases).

A case is a PROGRAM: ``{'ops': [op, ...]}``, every op a plain-data descriptor.  ``check`` interprets the program step
by step against the library in a fresh WORLD holding three pools (cells, slices, builders).  Objects are addressed by
small ints taken modulo the pool size (an op whose pool is empty is skipped), so every list of ops is a valid program
and the whole history shrinks as one value.  Pools only grow; an op that is expected to produce an object always
appends exactly one object per pool it feeds (see `_Model`), so that indices mean the same thing in the static model
used by the generator / classifier and in the interpreter.

Operations
  create   new_builder | cell via Builder (the builder it came from stays in the pool) | Cell(TvmBitarray, refs) |
           Cell(plain bitarray, refs) with every length 0..1023 (aligned and not)
  derive   cell.begin_parse / to_slice / Slice.from_cell / cell.to_builder / cell.copy; slice.to_cell / copy /
           to_builder; builder.to_slice / end_cell / to_cell
  mutate   slice.load_bits/uint/int/bytes/bit/ref/maybe_ref/coins/address/dict/snake, skip_bits;
           builder.store_bits/uint/bit/bytes/ref/cell/slice/maybe_ref/snake — also AFTER end_cell() was called on the
           builder and on builders obtained from cell.to_builder()
  observe  cell.hash, get_hash(i), to_boc (6 valid option sets), order() with / without an explicit dict - optionally followed by
           what a caller does with the dict it was GIVEN BACK ('use': accumulator of another pooled cell's order(acc), root / last
           entry taken off, emptied, a foreign cell added, cells numbered, combinations) and the same order() / to_boc() again,
           calculate_representation_hash(), repr, str, dictionary parse attempts (load_dict / HashMap.parse /
           HashMap.from_cell), TL-B parse attempts (MessageAny, Account, StateInit, Transaction, VmStack, ...),
           VmStack.serialize of a caller-held list of pooled cells / slices / builders / ints / VmTuple (nested),
           HashMap(..., map_=caller's dict).serialize() with pooled cells / slices as values
  reuse    a fourth pool holds HashMap OBJECTS the caller keeps: hm_new (map_= / set_int_key / HashMap.from_cell of a pooled
           cell: values are then the slices the library hands out), hm_set (new key or an existing one), hm_edit (touch = a
           mutable VALUE - slice, builder, list - changes in place while the map is not touched; del; the public map / the
           serializer rebound to an equal one; salt = state the serializer closes over changes; refill = the object gets other
           entries, possibly of ANOTHER KIND of value: empty / cells / untouched slices / slices of which bits and children were
           already read / mixed, via map rebinding, clear+update or del+set_int_key - also with the DEFAULT value serializer, which
           by duck typing takes cells and slices), hm_ser (serialize twice on
           the object AND once on an equal HashMap that was never serialized: all three agree).  Values may be pooled
           slices / builders, so ordinary load / store ops on those change a dictionary value through the caller's other
           handle.  VmStack.serialize: after the two calls every caller-held list / VmTuple gets one more entry and is
           serialized again, against equal containers that were never serialized.
  reenter  `nested`: an outer dictionary whose value serializer makes a library call of its own for the leaves marked to
           nest - HashMap.serialize with another serializer (uint values / cell values with the default serializer), with
           the SAME serializer (recursive), HashMap.parse, VmStack.serialize, to_boc + one_from_boc, order() - against the
           same dictionary written with these inner objects produced beforehand (flat, nested, flat again; a fixed plain
           dictionary before / after), and the result read back with nested value deserializers against the same reads made
           one after the other.

Invariant, checked after EVERY op
  (I1) every pooled cell equals the snapshot taken when it entered the pool: hash, bits.to01(), type_, child hashes,
       repr, data bytes, to_boc() and to_boc(has_idx, hash_crc32); to_boc under the other option sets, get_hash(i),
       calculate_representation_hash(), str and the order() sequence are pinned at their first observation and must
       never differ later.  Cells created from an explicit bit string through Cell(bitarray)/Cell(TvmBitarray) must
       hold exactly that bit string and the given children, and the serialisation in the snapshot must parse back to a
       cell of the same hash (otherwise a snapshot taken from an already corrupted cell would hide the corruption:
       "hash != serialisation" is how the plain-bitarray defect showed).
  (I2) every pooled slice / builder OTHER than the one the op legitimately advances / appends to has the same
       remaining bits and remaining child hashes as before ("derived objects are isolated snapshots": an operation on
       one object never shows through another object).
  (I3) every argument handed to a library call is deep-equal to its pre-call snapshot: the list given to
       VmStack.serialize, the lists inside VmTuple, the dict given to HashMap, slices / builders / cells inside them,
       the slice given to store_slice, the cell given to store_cell / store_ref, the plain bitarray given to Cell().
  (I4) len(c.order()) == number of distinct cells (by hash) reachable from c and the key set is exactly that set, on
       every call, whatever was called before; the same call repeated gives the same sequence.
  (I5) calling hash / get_hash / to_boc / calculate_representation_hash / repr / str / a parse attempt /
       VmStack.serialize / HashMap.serialize twice in a row gives identical results.
  (I6) "no state is carried between calls" for objects and callbacks: a HashMap object that was serialized before gives what
       an equal, never serialized HashMap gives ('HashMap.serialize/history-dependent'); containers serialized before
       and extended in place give what equal fresh containers give ('VmStack.serialize/history-dependent'); a call
       whose callback calls the library gives what it gives when the callback only stores prepared objects
       ('HashMap.serialize/depends-on-a-call-made-inside-its-value-serializer', 'HashMap.parse/depends-on-a-call-made-
       inside-its-value-deserializer', 'HashMap.serialize/history-dependent/after-a-nested-call').
  (I7) returned containers belong to the caller: after the caller used the dict order() returned (see 'use' above), order() of the
       same cell gives the same sequence and to_boc() the same bytes ('order/depends-on-what-the-caller-did-with-an-earlier-result',
       'to_boc/depends-on-what-the-caller-did-with-an-order-result'); what other.order(acc) itself returns is not judged.

Sub-check `history-independence` ("no state carried between calls"): case = {'setup', 'obs', 'prefix'}.  World 1 runs
setup, observes (result R1), runs the prefix — whose mutating ops are kept away from the slices/builders the
observation reads (they are frozen) — and observes again (R2).  World 2 is rebuilt from scratch: setup, prefix, first
observation (R3).  R1 == R2 == R3 is required (to_boc bytes, order sequence, parsed dictionary as key -> remaining
bits/child hashes or "raised", hash of the VmStack / HashMap / nested-dictionary cell).

Sub-checks `level-arguments-grid` / `level-arguments-random` (a sloppy-but-accepted call earlier in the process): case =
{'spec' (harness/gen/dag.py grammar: ordinary, pruned with every level mask 1..7, library, Merkle proof / update cells), 'route',
'route2', 'early', 'asks': [[node, hash|depth|apply|significant, level]]}.  The cells are created one after the other; between
the creations ('early') or after them the caller asks get_hash(level) / get_depth(level) / level_mask.apply(level) /
level_mask.is_significant(level) with levels of every size: 0..3 (the ones that exist), 4..7, 8..40 dense, 47..65536, negative
(the library accepts any level >= 0 - at or above the cell's own level it means the representation hash).  Then every cell is
created again by another route, every question is asked again, and the cells created first are compared with what they were.
Oracle = "what a fresh process answers to that ONE question": the reference model (harness/ref/refcell.py) predicts it; only when
this process disagrees with the model a fresh interpreter is started that creates just the cells the question needs and asks;
only a difference between the two PROCESSES is reported ('<call>/history-dependent/level-<class>', 'create/history-dependent/
mask-<m>').  A library that is wrong in every process is not judged here (C01 / C02).  Every case holds cells of several masks
AND the levels 0..3 (creation) AND its far levels, so a coincidence of two (mask, level) pairs lies inside one case.

Sub-check `dead-object-address-reuse` (temporaries; id() of a dead object handed to the next one): case = {'kind', 'route',
'leaves', 'top', 'k', 'seed'}.  T (equal to B) is created and observed and stays alive; A is created, observed (the focus call
- to_boc with option set k - last) and dropped; B - same type and size, other content - is created again and again (misses are
kept alive, a spare object of that size is dropped after every miss) until id(B) == id(A was); B is observed, the focus call
first: B's observations == T's.  kind cell: root over prepared sub-trees (bag of 1, ~5, ~90, 2731 cells; thorough up to 8193)
made by Builder.end_cell / Cell(TvmBitarray, refs) / copy / Slice.to_cell / one_from_boc; observations hash, to_boc (8 option
sets incl. flags), order, repr, data, get_hash, get_depth, begin_parse, copy, to_builder, representation hash, hash().  kind
slice / builder: the derived object dies (to_cell, copy, to_builder, loads / end_cell, to_slice, stores on the next one).
kind input: the bytes / bytearray / hex str / base64 str a bag is parsed from (same length, other content; up to ~50 KB).
Evidence classes 'reuse:address-reused:*' / 'reuse:address-not-reused:*' count how often the coincidence was really produced.

Deliberately NOT asserted
  * effects of the CALLER mutating cell.bits / cell.refs directly, or mutating the bitarray / list it passed to the
    Cell constructor afterwards (Cell(TvmBitarray, list) keeps both by reference; that is not an operation "on slices,
    builders or copies");
  * exception types, and whether any parse attempt / store / load / derivation raises (a raising call just leaves the
    pools as they are; the invariant is checked all the same); arguments are compared only after calls that returned.
    Only the three construction routes must accept the (valid by construction) cells: 'create/<route>/raises/...';
  * correctness of hashes, serialisation layout, stored/loaded values, dictionary or TL-B decoding (C01-C07, C09, C17);
    the only cross-check is "the serialisation in the snapshot parses back to the same hash" (see I1);
  * that cell.copy() / slice.to_cell() produce cells equal to their source (only that sources do not change);
  * callbacks that edit the object being serialized / parsed, augmented dictionaries (x / y deserializers), key serializers,
    TL-B objects kept and re-serialized after a field edit; a serializer whose OUTPUT depends on hidden state it changes itself;
  * exotic cells in the PROGRAM sub-checks (only ordinary cells are generated there; level-arguments-* create exotic cells);
    identity of returned objects; order(d) with a non-empty d.
  * A memo keyed on the full cell hash, or two cells sharing one bitarray / refs list that no library operation ever
    mutates (e.g. Cell.copy() without copying), is not observable and not a violation of the statement.

Signatures name the aliasing channel: 'cell-changed/<channel>/<field>' with channel e.g. after-slice-load,
after-builder-store-post-end_cell, after-builder-store-into-derived-builder, plain-bitarray-constructor;
'derived-changed/<slice|builder>/<channel>'; 'argument-mutated/<call>/<what>'; '<observation>/history-dependent';
'<observation>/not-idempotent'; 'to_boc/disagrees-with-hash/<route>'.
"""
from hypothesis import strategies as st
from harness.core import Sub, Fail, call, exc_sig
from harness.gen.dag import expand_bits

RULE = ('case = program of plain-data ops over pools of cells/slices/builders (indices modulo pool size): create '
        '(Builder, Cell(TvmBitarray), Cell(plain bitarray) of any length 0..1023), derive (begin_parse, to_slice, '
        'from_cell, to_builder, copy, slice.to_cell/copy/to_builder, builder.to_slice/end_cell), mutate (slice loads, '
        'builder stores incl. after end_cell and into cell.to_builder()), observe (hash, get_hash, to_boc x 6 option '
        'sets, order with/without dict, representation hash, repr/str, dict / TL-B parse attempts, VmStack.serialize, '
        'HashMap.serialize), reuse (pool of HashMap objects: new via map_/set/from_cell, set, in-place change of a slice / builder / '
        'list value, del, rebind map / serializer, serializer state; serialize on the object twice and on an equal fresh object; '
        'refill with entries of another value kind - empty / cells / slices / half-read slices with consumed references - under the '
        'default or the caller\'s serializer; '
        'VmStack containers extended in place and serialized again vs fresh equal containers), returned containers (the dict order() gave '
        'back used as accumulator of another cell / popped / cleared / extended, then order() and to_boc() again), re-entrancy (outer dictionary whose '
        'value serializer itself calls HashMap.serialize / parse / VmStack.serialize / to_boc / order for chosen leaves vs the same '
        'objects prepared beforehand; nested value deserializers vs sequential reads). '
        '3..30 ops (quick) / ..50 (thorough), macros force derive->mutate, end_cell->store, '
        'order;order, VmTuple, new->serialize->change->serialize and parse->serialize->read-a-value->serialize sequences. The invariant (all cells == snapshot, untouched slices/builders unchanged, '
        'arguments unchanged) is evaluated after every op, i.e. every cell is observed after every op. '
        'non-trivial = a slice/builder derived from a cell (or the builder a cell came from) was mutated by an op the '
        'static length model predicts to succeed, or a cell was built from a plain bitarray of non-byte-aligned '
        'length, or a HashMap object is serialized again after an in-place change of a value / serializer state, or a leaf follows '
        '(in key order) the first leaf whose serializer calls the library; distinct = distinct program. Enumerated: reuse grid '
        '(value kind x position x change x 1-2 earlier serializations; parsed dictionary re-written after reading the k-th value; '
        'two objects alternately; inner call kind x which leaves nest x widths; stack containers; value kind before x value kind after '
        'x default / own serializer x refill route; order() result use x explicit / no dict x (cell, other cell) relation); Enumerated: every length 0..1023 x {plain, TvmBitarray} x 2 fills x '
        '{leaf, with refs}; grid construction route x derivation chain x mutation. history-independence: setup + '
        'observation + prefix program on other objects, observation compared fresh / after prefix / in a rebuilt world. '
        'level-arguments: DAG with ordinary / pruned (every mask 1..7) / library / Merkle cells, created one by one, get_hash / get_depth / '
        'LevelMask.apply / is_significant asked with levels 0..3, 4..7, 8..40, 47..65536, negative between or after the creations, all '
        'cells created again by another route, all questions asked again; oracle = reference model as filter, then one fresh process '
        'asked the one question (grid: every level 4..40 + 11 far ones + -1 x all masks x early/late; random: exotic DAGs x 1..12 asks). '
        'dead-object-address-reuse: an object (root cell of a bag of 1..2731 cells by 5 routes, slice, builder, from_boc input bytes / '
        'bytearray / hex / base64) is observed and dropped, the next one of its type and size is created at its address (id() checked, '
        'retried with spares) and observed vs an equal object alive elsewhere')
ASSUMPTIONS = ['Cell.hash identifies a cell (used to compare children and to count distinct cells of a DAG)',
               'bitarray.to01() and list/tuple comparison of Python',
               'Cell.one_from_boc (only for: the snapshot serialisation parses back to a cell of the same hash)',
               'harness/gen/dag.py:expand_bits (deterministic bit patterns)',
               'static model `_Model` is used only for generation/classification, never as an oracle',
               'harness/ref/refcell.py (level-arguments: FILTER only - a verdict needs two library processes that disagree)',
               'CPython hands a freed block to the next object of the same size (dead-object-address-reuse; verified per case with id())']

OPTSETS = [(0, 0, 0), (1, 0, 0), (0, 1, 0), (1, 1, 0), (1, 0, 1), (1, 1, 1)]   # (has_idx, hash_crc32, has_cache_bits)
SNAP_OPTS = (0, 3)                                                              # option sets kept in every snapshot
LOADS = ('bits', 'uint', 'int', 'skip', 'bytes', 'bit', 'ref', 'maybe_ref', 'coins', 'address', 'dict', 'snake')
LOADS_EXACT = ('bits', 'uint', 'int', 'skip', 'bytes', 'bit', 'ref')           # success predictable from lengths
STORES = ('bits', 'uint', 'bit', 'bytes', 'ref', 'cell', 'slice', 'maybe_ref', 'snake')
CELL_DERIVES = ('begin_parse', 'to_slice', 'from_cell', 'to_builder', 'copy')
SLICE_DERIVES = ('to_cell', 'copy', 'to_builder')
BUILDER_DERIVES = ('to_slice', 'end_cell', 'to_cell')
OBS = ('hash', 'get_hash', 'boc', 'order', 'repr_hash', 'repr', 'str', 'dict', 'tlb', 'vmwin', 'vmwin', 'addr')
TLB = ('MessageAny', 'Account', 'StateInit', 'Transaction', 'VmStack', 'ShardAccount', 'InternalMsgInfo', 'InMsg')
STR_MAX_PATHS = 400     # str(cell) prints the TREE (one line per path): only called on cells with few paths


def _bits(b):
    return b if isinstance(b, str) else expand_bits(b[0], b[1], b[2])


def _nbits(b):
    return len(b) if isinstance(b, str) else b[0]


def _clip(s, n=72):
    s = str(s)
    return s if len(s) <= n else f'{s[:n]}…({len(s)})'


# --------------------------------------------------------------------------------------------------
# static model: pool sizes, lengths, provenance (pure; used by the generator, classify and nontrivial)

class _Model:
    """Mirrors the interpreter's pool bookkeeping without the library. Lengths are None when unknown (content
    dependent loads, cells produced by VmStack / HashMap)."""

    def __init__(self):
        self.c, self.s, self.b = [], [], []
        self.h = []                    # long-lived HashMap objects (pool sizes + what happened to them since their last serialize)
        self.labels = []
        self._seen = set()
        self.nt = False
        self.order_cells = []

    def lab(self, x):
        if x not in self._seen:
            self._seen.add(x)
            self.labels.append(x)

    # -- index resolution shared with the interpreter
    def resolve(self, op, frozen_s=(), frozen_b=()):
        """op with concrete indices, or None when the op cannot be executed in the current pools"""
        nc, ns, nb = len(self.c), len(self.s), len(self.b)
        k = op['op']
        if k == 'new_builder':
            return op
        if k == 'hm_new':
            if op.get('via') == 'from_cell' and not nc:
                return None
            return dict(op, c=op.get('c', 0) % nc if nc else 0, items=[[key, self._resolve_val(v)] for key, v in op.get('items', [])])
        if k in ('hm_set', 'hm_edit', 'hm_ser'):
            if not self.h:
                return None
            r = dict(op, h=op['h'] % len(self.h))
            if k == 'hm_set':
                r['v'] = self._resolve_val(op['v'])
            return r
        if k == 'nested':
            return dict(op, c=op.get('c', 0) % nc if nc else None)
        if k == 'cell':
            return dict(op, r=[i % nc for i in op.get('r', [])][:4] if nc else [])
        if k == 'derive':
            return dict(op, c=op['c'] % nc) if nc else None
        if k == 'sderive':
            return dict(op, s=op['s'] % ns) if ns else None
        if k == 'bderive':
            return dict(op, b=op['b'] % nb) if nb else None
        if k == 'load':
            if not ns or op['s'] % ns in frozen_s:
                return None
            return dict(op, s=op['s'] % ns)
        if k == 'store':
            if not nb or op['b'] % nb in frozen_b:
                return None
            m = op['m']
            r = dict(op, b=op['b'] % nb)
            if m in ('ref', 'cell'):
                if not nc:
                    return None
                r['x'] = op.get('x', 0) % nc
            elif m == 'maybe_ref':
                r['x'] = None if (op.get('x') is None or not nc) else op['x'] % nc
            elif m == 'slice':
                if not ns:
                    return None
                r['x'] = op.get('x', 0) % ns
            return r
        if k == 'obs':
            if not nc:
                return None
            return dict(op, c=op['c'] % nc, o=op['o'] % nc) if 'o' in op else dict(op, c=op['c'] % nc)
        if k == 'vmstack':
            return dict(op, items=[self._resolve_val(v) for v in op['items']])
        if k == 'hashmap':
            return dict(op, items=[[key, self._resolve_val(v)] for key, v in op['items']])
        raise ValueError(k)

    def _resolve_val(self, v):
        t = v['t']
        if t in ('cell', 'slice', 'builder'):
            n = len({'cell': self.c, 'slice': self.s, 'builder': self.b}[t])
            return {'t': t, 'i': v['i'] % n} if n else {'t': 'null'}
        if t in ('tuple', 'list'):
            return {'t': t, 'items': [self._resolve_val(x) for x in v['items']]}
        return v

    # -- effects
    def apply(self, op):
        op = self.resolve(op)
        if op is None:
            self.lab('skipped-op(empty pool)')
            return
        k = op['op']
        if k == 'new_builder':
            self.b.append({'nb': 0, 'nr': 0, 'roots': set(), 'ended': set()})
        elif k == 'cell':
            n, route = _nbits(op['b']), op['route']
            self.c.append({'nb': n, 'nr': len(op['r']), 'route': route, 'roots': set()})
            if route == 'builder':
                self.b.append({'nb': n, 'nr': len(op['r']), 'roots': set(), 'ended': {len(self.c) - 1}})
            self.lab(f'create:{route}' + ('' if route == 'builder' else ':aligned' if n % 8 == 0 else ':non-aligned'))
            if op['r']:
                self.lab(f'create:{route}:with-refs')
            if route == 'plain' and n % 8:
                self.nt = True
                self.lab('NT:plain-bitarray-non-aligned')
        elif k == 'derive':
            c = self.c[op['c']]
            how = op['how']
            self.lab('derive:cell.' + how)
            if how in ('begin_parse', 'to_slice', 'from_cell'):
                self.s.append({'nb': c['nb'], 'nr': c['nr'], 'roots': {op['c']} | c['roots']})
            elif how == 'to_builder':
                self.b.append({'nb': c['nb'], 'nr': c['nr'], 'roots': {op['c']} | c['roots'], 'ended': set()})
            else:
                self.c.append({'nb': c['nb'], 'nr': c['nr'], 'route': 'copy', 'roots': {op['c']} | c['roots']})
        elif k == 'sderive':
            s = self.s[op['s']]
            how = op['how']
            self.lab('derive:slice.' + how)
            if how == 'to_cell':
                self.c.append({'nb': s['nb'], 'nr': s['nr'], 'route': 'slice.to_cell', 'roots': set(s['roots'])})
            elif how == 'copy':
                self.s.append({'nb': s['nb'], 'nr': s['nr'], 'roots': set(s['roots'])})
            else:
                self.b.append({'nb': s['nb'], 'nr': s['nr'], 'roots': set(s['roots']), 'ended': set()})
        elif k == 'bderive':
            b = self.b[op['b']]
            how = op['how']
            self.lab('derive:builder.' + how)
            if how == 'to_slice':
                self.s.append({'nb': b['nb'], 'nr': b['nr'], 'roots': b['roots'] | b['ended']})
            else:
                self.c.append({'nb': b['nb'], 'nr': b['nr'], 'route': 'end_cell', 'roots': set(b['roots'])})
                b['ended'].add(len(self.c) - 1)
        elif k == 'load':
            self._load(op)
        elif k == 'store':
            self._store(op)
        elif k == 'obs':
            what = op['what']
            self.lab('obs:' + what + (f":{'no-arg' if not op.get('k') else 'explicit-dict'}" if what == 'order' else ''))
            if what == 'order' and op.get('use'):
                self.lab('order:result-used-by-the-caller:' + ('accumulator-of-another-cell' if op['use'] == 1 and op.get('o') != op['c']
                                                                else 'edited' if op['use'] != 1 else 'accumulator-of-the-same-cell'))
            if what == 'order':
                self.order_cells.append(op['c'])
                if len(self.order_cells) >= 2:
                    self.lab('order:called>=2-times')
                if len(set(self.order_cells)) >= 2:
                    self.lab('order:called-on>=2-different-cells')
            if what == 'dict':
                c = self.c[op['c']]
                self.s.append({'nb': None, 'nr': None, 'roots': {op['c']} | c['roots']})
            if self.c[op['c']].get('dirty'):
                self.lab('obs-after-derived-object-mutated:' + what)
        elif k == 'vmstack':
            kinds = set()
            roots = set()
            self._val_kinds(op['items'], kinds, roots, 0)
            self.lab('vmstack')
            for x in sorted(kinds):
                self.lab('vmstack:' + x)
            self.c.append({'nb': None, 'nr': None, 'route': 'vmstack', 'roots': roots})
        elif k == 'hashmap':
            kinds = set()
            roots = set()
            self._val_kinds([v for _, v in op['items']], kinds, roots, 0)
            self.lab('hashmap:' + ('empty' if not op['items'] else '+'.join(sorted(x for x in kinds if x in ('cell', 'slice'))) or 'null'))
            self.lab('hashmap:via-' + op.get('via', 'map_'))
            self.c.append({'nb': None, 'nr': None, 'route': 'hashmap', 'roots': roots})
        elif k == 'hm_new':
            kinds, roots = set(), set()
            self._val_kinds([v for _, v in op['items']], kinds, roots, 0)
            self.h.append({'nser': 0, 'inplace': False, 'edited': False, 'roots': roots,
                           's': {v['i'] for _, v in op['items'] if v['t'] == 'slice'},
                           'b': {v['i'] for _, v in op['items'] if v['t'] == 'builder'}})
            self.lab('hm:new:via-' + op.get('via', 'map_'))
            self.h[-1]['kinds'] = self._hm_kinds(op['items'])
            self.h[-1]['default'] = op.get('ser') == 'default'
            if op.get('ser') == 'default':
                self.lab('hm:new:default-serializer:' + self.h[-1]['kinds'])
            for x in sorted(kinds):
                self.lab('hm:value:' + x)
        elif k == 'hm_set':
            h = self.h[op['h']]
            h['edited'] = h['edited'] or h['nser'] > 0
            t = op['v']['t']
            if t in ('slice', 'builder'):
                h[t[0]].add(op['v']['i'])
            self.lab('hm:set:' + t)
        elif k == 'hm_edit':
            h = self.h[op['h']]
            how = op['how']
            self.lab('hm:edit:' + how)
            if how == 'refill':
                kinds = self._hm_kinds(op.get('items', []))
                if h.get('default') and h['nser']:
                    self.lab(f"hm:default-serializer:serialized-with:{h.get('kinds')}:then-refilled-with:{kinds}")
                h['kinds'] = kinds
            if h['nser']:
                if how in ('touch', 'salt'):
                    h['inplace'] = True        # the map itself is not touched: a value / the serializer's state changes in place
                else:
                    h['edited'] = True
        elif k == 'hm_ser':
            h = self.h[op['h']]
            self.lab('hm:serialize' + (':again' if h['nser'] else ':first'))
            if h['nser'] and h['inplace']:
                self.nt = True
                self.lab('NT:hm-serialized-again-after-in-place-change-of-a-value')
            elif h['nser'] and h['edited']:
                self.lab('hm:serialized-again-after-map-edit')
            h['nser'] += 1
            h['inplace'] = h['edited'] = False
            self.c.append({'nb': None, 'nr': None, 'route': 'hm_ser', 'roots': set(h['roots'])})
        elif k == 'nested':
            its = sorted((key % (1 << op['kl']), bool(nest)) for key, _, nest in op['items'])
            first = next((i for i, (_, nest) in enumerate(its) if nest), None)
            self.lab('nested:' + op['inner'])
            self.lab('nested:' + ('no-leaf-nests' if first is None else 'a-leaf-follows-the-first-nesting-leaf' if first < len(its) - 1
                                  else 'only-the-last-leaf-nests'))
            if first is not None and first < len(its) - 1:
                self.nt = True
                self.lab('NT:library-call-inside-a-callback-of-another')
            self.c.append({'nb': None, 'nr': None, 'route': 'nested', 'roots': set()})

    @staticmethod
    def _hm_kinds(items):
        ks = sorted({('half-read-slice' if (v.get('lr') and v.get('nr')) else 'slice') if v['t'] in ('own_slice', 'slice')
                     else 'cell' if v['t'] in ('cell', 'own_cell') else v['t'] for _, v in items})
        return '+'.join(ks) or 'empty'

    def _val_kinds(self, items, kinds, roots, depth):
        for v in items:
            t = v['t']
            if t in ('tuple', 'list'):
                kinds.add('tuple-argument' if t == 'tuple' else 'plain-list-value')
                if t == 'tuple' and depth >= 1:
                    kinds.add('nested-tuple')
                if t == 'tuple' and len(v['items']) >= 2:
                    kinds.add('tuple-len>=2')
                self._val_kinds(v['items'], kinds, roots, depth + 1)
            else:
                kinds.add(t)
                if t == 'cell':
                    roots.add(v['i'])
                elif t == 'slice':
                    roots |= self.s[v['i']]['roots']
                elif t == 'builder':
                    roots |= self.b[v['i']]['roots'] | self.b[v['i']]['ended']

    def _load(self, op):
        s = self.s[op['s']]
        m, n = op['m'], op.get('n', 0)
        nb, nr = s['nb'], s['nr']
        ok = None                      # None = unknown
        if m in LOADS_EXACT and nb is not None and nr is not None:
            if m in ('bits', 'skip'):
                ok, dn, dr = n <= nb, n, 0
            elif m in ('uint', 'int'):
                ok, dn, dr = 1 <= n <= nb, n, 0
            elif m == 'bytes':
                ok, dn, dr = 8 * n <= nb, 8 * n, 0
            elif m == 'bit':
                ok, dn, dr = nb >= 1, 1, 0
            else:
                ok, dn, dr = nr >= 1, 0, 1
            if ok:
                s['nb'], s['nr'] = nb - dn, nr - dr
            changed = ok and (dn or dr)
        else:
            s['nb'] = s['nr'] = None
            changed = None
        self.lab('load:' + m + (':ok' if ok else ':raises' if ok is False else ':content-dependent'))
        for h in self.h:
            if op['s'] in h['s'] and h['nser'] and changed is not False:
                h['inplace'] = True
        if s['roots']:
            self.lab('mutate:slice-derived-from-cell' + ('' if changed else ':maybe' if changed is None else ':no-effect'))
            if changed:
                self.nt = True
                self.lab('NT:derived-object-mutated')
                for i in s['roots']:
                    self.c[i]['dirty'] = True

    def _store(self, op):
        b = self.b[op['b']]
        m = op['m']
        nb, nr = b['nb'], b['nr']
        ok = None
        if nb is not None and nr is not None:
            if m == 'bits':
                dn, dr = _nbits(op['v']), 0
            elif m == 'uint':
                dn, dr = op['n'], 0
            elif m == 'bit':
                dn, dr = 1, 0
            elif m == 'bytes':
                dn, dr = 4 * len(op['v']), 0
            elif m == 'ref':
                dn, dr = 0, 1
            elif m == 'maybe_ref':
                dn, dr = 1, (0 if op['x'] is None else 1)
            elif m == 'cell':
                x = self.c[op['x']]
                dn, dr = x['nb'], x['nr']
            elif m == 'slice':
                x = self.s[op['x']]
                dn, dr = x['nb'], x['nr']
            else:                     # snake: fits when the root has room, otherwise one more reference
                dn, dr = None, None
            if dn is not None and dr is not None:
                ok = nb + dn <= 1023 and nr + dr <= 4 and not (m == 'uint' and dn < 1)
                if ok:
                    b['nb'], b['nr'] = nb + dn, nr + dr
                changed = ok and (dn or dr)
            else:
                b['nb'] = b['nr'] = None
                changed = None
        else:
            changed = None
        self.lab('store:' + m + (':ok' if ok else ':raises' if ok is False else ':unknown'))
        for h in self.h:
            if op['b'] in h['b'] and h['nser'] and changed is not False:
                h['inplace'] = True
        tag = None
        if b['ended']:
            tag = 'store-after-end_cell'
        if b['roots']:
            self.lab('mutate:store-into-builder-derived-from-cell' + ('' if changed else ':maybe' if changed is None else ':no-effect'))
        if tag:
            self.lab('mutate:' + tag + ('' if changed else ':maybe' if changed is None else ':no-effect'))
        if changed and (b['ended'] or b['roots']):
            self.nt = True
            self.lab('NT:derived-object-mutated')
            for i in b['ended'] | b['roots']:
                self.c[i]['dirty'] = True


def _model_of(ops):
    m = _Model()
    for op in ops:
        m.apply(op)
    return m


# every other writer method of Builder (a writer that bypasses a copy-on-write or capacity path is found only if it is called)
_MISC_STORES = {
    'string': lambda b: (lambda: b.store_string('ab')),
    'int': lambda b: (lambda: b.store_int(-3, 9)),
    'coins': lambda b: (lambda: b.store_coins(12345)),
    'var_uint': lambda b: (lambda: b.store_var_uint(77, 4)),
    'var_int': lambda b: (lambda: b.store_var_int(-77, 4)),
    'bool': lambda b: (lambda: b.store_bool(True)),
    'address_none': lambda b: (lambda: b.store_address(None)),
    'snake_string': lambda b: (lambda: b.store_snake_string('xyz' * 50)),
    'dict_none': lambda b: (lambda: b.store_dict(None)),
    # the builder's containers are public (properties with setters): the caller edits or swaps them at EQUAL size - what the builder
    # turns into afterwards (end_cell, to_slice, a stack value) is its content now
    'flip_first_bit': lambda b: (lambda: b.bits.__setitem__(0, not b.bits[0]) if len(b.bits) else None),
    'rebind_bits_equal_copy': lambda b: (lambda: setattr(b, 'bits', b.bits.copy())),
    'rebind_refs_equal_copy': lambda b: (lambda: setattr(b, 'refs', list(b.refs))),
    'replace_bits_inverted': lambda b: (lambda: setattr(b, 'bits', _inverted(b.bits))),
    'replace_first_ref': lambda b: (lambda: b.refs.__setitem__(0, _marker_cell()) if b.refs else None),
    'replace_refs_list': lambda b: (lambda: setattr(b, 'refs', [_marker_cell()] * len(b.refs))),
}


def _inverted(bits):
    from pytoniq_core.boc.tvm_bitarray import TvmBitarray
    t = TvmBitarray(1023)
    t.extend(''.join('1' if c == '0' else '0' for c in bits.to01()))
    return t


def _marker_cell():
    from pytoniq_core.boc.builder import Builder
    return Builder().store_uint(0x5AC3, 16).end_cell()

# --------------------------------------------------------------------------------------------------
# the interpreter

class _Lib:
    def __init__(self):
        from bitarray import bitarray
        from pytoniq_core.boc.cell import Cell
        from pytoniq_core.boc.slice import Slice
        from pytoniq_core.boc.builder import Builder
        from pytoniq_core.boc.tvm_bitarray import TvmBitarray
        from pytoniq_core.boc.hashmap.hashmap import HashMap
        from pytoniq_core.tlb.vm_stack import VmStack, VmTuple
        self.bitarray, self.Cell, self.Slice, self.Builder, self.TvmBitarray = bitarray, Cell, Slice, Builder, TvmBitarray
        self.HashMap, self.VmStack, self.VmTuple = HashMap, VmStack, VmTuple

    def tlb(self, name):
        import importlib
        for mod in ('pytoniq_core.tlb.transaction', 'pytoniq_core.tlb.account', 'pytoniq_core.tlb.vm_stack'):
            cls = getattr(importlib.import_module(mod), name, None)
            if cls is not None:
                return cls
        raise ValueError(name)


def _opname(op):
    k = op['op']
    if k == 'cell':
        return f"new-cell({op['route']})"
    if k == 'derive':
        return 'cell.' + op['how']
    if k == 'sderive':
        return 'slice.' + op['how']
    if k == 'bderive':
        return 'builder.' + op['how']
    if k == 'obs':
        w = op['what']
        return {'boc': 'to_boc', 'dict': 'dict-parse', 'tlb': 'tlb-parse', 'repr_hash': 'calculate_representation_hash',
                'vmwin': 'vmstack-parse-of-windowed-slice'}.get(w, w)
    if k == 'vmstack':
        return 'VmStack.serialize'
    if k in ('hashmap', 'hm_ser'):
        return 'HashMap.serialize'
    if k == 'nested':
        return 'HashMap.serialize(nested)'
    if k in ('hm_new', 'hm_set', 'hm_edit'):
        return 'HashMap.' + (op.get('how') or k[3:])
    return k


class _World:
    FIELDS = ('bits', 'refs', 'type', 'hash', 'data', 'repr')

    def __init__(self):
        self.L = _Lib()
        self.m = _Model()              # pool sizes / index resolution only
        self.cells, self.slices, self.builders = [], [], []
        self.maps = []                 # long-lived HashMap objects the caller keeps and serializes several times
        self.frozen_s, self.frozen_b = set(), set()
        self.order_calls = 0
        self.i = -1

    # ---- summaries
    @staticmethod
    def _sstate(s):
        return (s.bits.to01(), tuple(r.hash for r in s.refs[s.ref_offset:]))

    @staticmethod
    def _bstate(b):
        # read the containers without going through the public properties when the private attributes exist: a property
        # with a side effect (e.g. a copy-on-write that un-shares on first access) must not be triggered by the OBSERVER,
        # or the harness itself would hide the aliasing it is looking for
        bits = getattr(b, '_bits', None)
        refs = getattr(b, '_refs', None)
        if bits is None or refs is None:
            bits, refs = b.bits, b.refs
        return (bits.to01(), tuple(r.hash for r in refs))

    @staticmethod
    def _cheap(c):
        return (c.bits.to01(), tuple(r.hash for r in c.refs), c.type_, c.hash, c.data, repr(c))

    @staticmethod
    def _dag(c):
        """{hash: cell} of the distinct cells reachable from c (own traversal over .refs)"""
        seen = {c.hash: c}
        stack = [c]
        while stack:
            x = stack.pop()
            for r in x.refs:
                if r.hash not in seen:
                    seen[r.hash] = r
                    stack.append(r)
        return seen

    @staticmethod
    def _paths(c, cap):
        memo = {}

        def go(x):
            h = x.hash
            if h not in memo:
                memo[h] = min(cap + 1, 1 + sum(go(r) for r in x.refs))
            return memo[h]
        return go(c)

    # ---- pools
    def _add_cell(self, c, route, roots, model_bits=None, model_refs=None, held=None):
        cheap = self._cheap(c)
        bocs = {k: c.to_boc(*map(bool, OPTSETS[k])) for k in SNAP_OPTS}
        e = {'o': c, 'cheap': cheap, 'bocs': bocs, 'route': route, 'roots': set(roots), 'held': held,
             'held_bits': model_bits if held is not None else None, 'pins': {}}
        self.cells.append(e)
        rname = {'plain': 'plain-bitarray', 'tvm': 'tvm-bitarray'}.get(route, route)
        if model_bits is not None and cheap[0] != model_bits:
            return Fail(f'cell-changed/{rname}-constructor/bits',
                        f'{self._at()}: Cell built from {len(model_bits)} bits {_clip(model_bits)} holds '
                        f'{len(cheap[0])} bits {_clip(cheap[0])}')
        if held is not None and held.to01() != model_bits:
            return Fail(f'argument-mutated/Cell-constructor/{rname}',
                        f'{self._at()}: the bitarray handed to Cell() had {len(model_bits)} bits, has {len(held)} now')
        if model_refs is not None and cheap[1] != model_refs:
            return Fail(f'cell-changed/{rname}-constructor/refs', f'{self._at()}: children differ from the list given')
        ok, back = call(self.L.Cell.one_from_boc, bocs[SNAP_OPTS[0]])
        if not ok or back.hash != c.hash:
            return Fail(f'to_boc/disagrees-with-hash/{rname}',
                        f'{self._at()}: to_boc() of the new cell ({len(cheap[0])} bits, {len(cheap[1])} refs) '
                        f'{"does not parse: " + repr(back) if not ok else "parses back to a cell of another hash"}')
        return None

    def _add_slice(self, s, roots):
        self.slices.append({'o': s, 'roots': set(roots), 'state': self._sstate(s)})

    def _add_builder(self, b, roots, ended=()):
        self.builders.append({'o': b, 'roots': set(roots), 'ended': set(ended), 'state': self._bstate(b)})

    def _at(self):
        return f'step {self.i}'

    # ---- invariant
    def _channel(self, op, ci):
        k = op['op']
        if k == 'load':
            return 'after-slice-load' if ci in self.slices[op['s']]['roots'] else 'after-slice-load(unrelated-cell)'
        if k == 'store':
            b = self.builders[op['b']]
            if ci in b['ended']:
                return 'after-builder-store-post-end_cell'
            if ci in b['roots']:
                return 'after-builder-store-into-derived-builder'
            if op['m'] in ('ref', 'cell', 'maybe_ref') and op.get('x') == ci:
                return f"after-store_{op['m']}(the-stored-cell)"
            return 'after-builder-store(unrelated-cell)'
        return 'after-' + _opname(op)

    @staticmethod
    def _ochannel(op):
        k = op['op']
        if k == 'load':
            return 'after-slice-load'
        if k == 'store':
            return 'after-builder-store'
        return 'after-' + _opname(op)

    def invariant(self, op, touched=None):
        for ci, e in enumerate(self.cells):
            now = self._cheap(e['o'])
            if now != e['cheap']:
                for f, a, b in zip(self.FIELDS, e['cheap'], now):
                    if a != b:
                        return Fail(f'cell-changed/{self._channel(op, ci)}/{f}',
                                    f'{self._at()} {_clip(op, 160)}: cell #{ci} ({e["route"]}) {f}: {_clip(a)} -> {_clip(b)}')
            if e['held'] is not None and e['held'].to01() != e['held_bits']:
                return Fail(f'argument-mutated/Cell-constructor/later/{self._channel(op, ci)}',
                            f'{self._at()}: the plain bitarray cell #{ci} was built from changed')
        for si, e in enumerate(self.slices):
            st_ = self._sstate(e['o'])
            if st_ != e['state']:
                if touched == ('s', si):
                    e['state'] = st_
                    continue
                return Fail(f'derived-changed/slice/{self._ochannel(op)}',
                            f'{self._at()} {_clip(op, 160)}: slice #{si} was not operated on: '
                            f'{len(e["state"][0])} bits/{len(e["state"][1])} refs -> {len(st_[0])}/{len(st_[1])}')
        for bi, e in enumerate(self.builders):
            st_ = self._bstate(e['o'])
            if st_ != e['state']:
                if touched == ('b', bi):
                    e['state'] = st_
                    continue
                return Fail(f'derived-changed/builder/{self._ochannel(op)}',
                            f'{self._at()} {_clip(op, 160)}: builder #{bi} was not operated on: '
                            f'{len(e["state"][0])} bits/{len(e["state"][1])} refs -> {len(st_[0])}/{len(st_[1])}')
        for ci, e in enumerate(self.cells):
            for k, want in e['bocs'].items():
                ok, got = call(e['o'].to_boc, *map(bool, OPTSETS[k]))
                if not ok or got != want:
                    return Fail(f'cell-changed/{self._channel(op, ci)}/boc',
                                f'{self._at()} {_clip(op, 160)}: cell #{ci} ({e["route"]}) to_boc{OPTSETS[k]} '
                                f'{"raises " + repr(got) if not ok else "differs from the bytes at creation"}')
        return None

    # ---- running
    def run(self, ops):
        for op in ops:
            f = self.step(op)
            if f is not None:
                return f
        return None

    def step(self, op):
        self.i += 1
        op = self.m.resolve(op, self.frozen_s, self.frozen_b)
        if op is None:
            return None
        f, touched, _ = getattr(self, '_do_' + op['op'])(op)
        self._sync_model(op)
        if f is not None:
            return f
        return self.invariant(op, touched)

    def _sync_model(self, op):
        """keep the static model's pools as long as the interpreter's (lengths there are irrelevant here)"""
        self.m.c.extend({'nb': None, 'nr': None, 'route': '?', 'roots': set()} for _ in range(len(self.cells) - len(self.m.c)))
        self.m.s.extend({'nb': None, 'nr': None, 'roots': set()} for _ in range(len(self.slices) - len(self.m.s)))
        self.m.b.extend({'nb': None, 'nr': None, 'roots': set(), 'ended': set()} for _ in range(len(self.builders) - len(self.m.b)))
        self.m.h.extend({} for _ in range(len(self.maps) - len(self.m.h)))

    def observe(self, op):
        """(canonical result, Fail|None) of an observation op (obs / vmstack / hashmap), invariant included"""
        self.i += 1
        op = self.m.resolve(op, self.frozen_s, self.frozen_b)
        if op is None:
            return None, None
        f, touched, canon = getattr(self, '_do_' + op['op'])(op)
        self._sync_model(op)
        if f is None:
            f = self.invariant(op, touched)
        return canon, f

    def freeze(self, op):
        """slices / builders an observation reads must not be advanced by the prefix program"""
        def walk(v):
            if v['t'] == 'slice':
                self.frozen_s.add(v['i'])
            elif v['t'] == 'builder':
                self.frozen_b.add(v['i'])
            elif v['t'] in ('tuple', 'list'):
                for x in v['items']:
                    walk(x)
        if op['op'] == 'vmstack':
            for v in op['items']:
                walk(v)
        elif op['op'] == 'hashmap':
            for _, v in op['items']:
                walk(v)

    # ---- create
    def _do_new_builder(self, op):
        self._add_builder(self.L.Builder(), ())
        return None, None, None

    def _do_cell(self, op):
        L = self.L
        bits = _bits(op['b'])
        refs = [self.cells[i]['o'] for i in op['r']]
        want_refs = tuple(r.hash for r in refs)
        route = op['route']
        if route == 'builder':
            b = L.Builder()

            def build():
                b.store_bits(bits)
                for r in refs:
                    b.store_ref(r)
                return b.end_cell()
            ok, c = call(build)
            if not ok:
                return self._create_failed(op, c), None, None
            self._add_builder(b, (), ended={len(self.cells)})
            return self._add_cell(c, route, ()), None, None
        if route == 'tvm':
            def build():
                ba = L.TvmBitarray(1023)
                ba.extend(bits)
                return L.Cell(ba, list(refs))
            ok, c = call(build)
            if not ok:
                return self._create_failed(op, c), None, None
            return self._add_cell(c, route, (), model_bits=bits, model_refs=want_refs), None, None
        held = L.bitarray(bits)
        ok, c = call(L.Cell, held, list(refs))
        if not ok:
            return self._create_failed(op, c), None, None
        return self._add_cell(c, route, (), model_bits=bits, model_refs=want_refs, held=held), None, None

    def _create_failed(self, op, e):
        """the generated cells are valid (<= 1023 bits, <= 4 children, depth far below 1024): the three construction
        routes have to accept them, otherwise nothing can be said about the cell"""
        return Fail(f"create/{op['route']}/raises/{exc_sig(e)}",
                    f"{self._at()}: building a cell of {_nbits(op['b'])} bits and {len(op['r'])} refs raised {e!r}")

    # ---- derive
    def _do_derive(self, op):
        ci, how = op['c'], op['how']
        e = self.cells[ci]
        c = e['o']
        roots = {ci} | e['roots']
        if how == 'from_cell':
            ok, r = call(self.L.Slice.from_cell, c)
        else:
            ok, r = call(getattr(c, how))
        if not ok:
            return None, None, None
        if how in ('begin_parse', 'to_slice', 'from_cell'):
            self._add_slice(r, roots)
        elif how == 'to_builder':
            self._add_builder(r, roots)
        else:
            return self._add_cell(r, 'copy', roots), None, None
        return None, None, None

    def _do_sderive(self, op):
        e = self.slices[op['s']]
        how = op['how']
        ok, r = call(getattr(e['o'], how))
        if not ok:
            return None, None, None
        if how == 'to_cell':
            return self._add_cell(r, 'slice.to_cell', e['roots']), None, None
        if how == 'copy':
            self._add_slice(r, e['roots'])
        else:
            self._add_builder(r, e['roots'])
        return None, None, None

    def _do_bderive(self, op):
        e = self.builders[op['b']]
        how = op['how']
        ok, r = call(getattr(e['o'], how))
        if not ok:
            return None, None, None
        if how == 'to_slice':
            self._add_slice(r, e['roots'] | e['ended'])
            return None, None, None
        e['ended'].add(len(self.cells))
        # the cell holds what the builder holds at this moment - whatever the builder held at an earlier end_cell()
        b = e['o']
        if r.bits.to01() != b.bits.to01() or [x.hash for x in r.refs] != [x.hash for x in b.refs]:
            return Fail(f'builder.{how}/cell-differs-from-the-builders-content', f'{self._at()}: builder holds {len(b.bits)} bits / '
                        f'{len(b.refs)} refs [{_clip(b.bits.to01())}], the cell {len(r.bits)} bits / {len(r.refs)} refs [{_clip(r.bits.to01())}]'), None, None
        return self._add_cell(r, 'end_cell', e['roots']), None, None

    # ---- mutate
    def _do_load(self, op):
        s = self.slices[op['s']]['o']
        m, n = op['m'], op.get('n', 0)
        f = {'bits': lambda: s.load_bits(n), 'uint': lambda: s.load_uint(n), 'int': lambda: s.load_int(n),
             'skip': lambda: s.skip_bits(n), 'bytes': lambda: s.load_bytes(n), 'bit': s.load_bit, 'ref': s.load_ref,
             'maybe_ref': s.load_maybe_ref, 'coins': s.load_coins, 'address': s.load_address,
             'dict': lambda: s.load_dict(max(1, n)), 'snake': s.load_snake_bytes}[m]
        call(f)
        return None, ('s', op['s']), None

    def _do_store(self, op):  # noqa: C901
        be = self.builders[op['b']]
        b = be['o']
        m = op['m']
        arg = None
        if m == 'bits':
            v = _bits(op['v'])
            f = lambda: b.store_bits(v)
        elif m == 'uint':
            f = lambda: b.store_uint(op['v'], op['n'])
        elif m == 'bit':
            f = lambda: b.store_bit(op['v'])
        elif m == 'bytes':
            f = lambda: b.store_bytes(bytes.fromhex(op['v']))
        elif m == 'snake':
            f = lambda: b.store_snake_bytes(bytes.fromhex(op['v']))
        elif m in _MISC_STORES:                       # every other writer of the Builder API (sizes not modelled: "unknown")
            f = _MISC_STORES[m](b)
        elif m in ('ref', 'cell', 'maybe_ref'):
            x = None if op['x'] is None else self.cells[op['x']]['o']
            f = {'ref': lambda: b.store_ref(x), 'cell': lambda: b.store_cell(x), 'maybe_ref': lambda: b.store_maybe_ref(x)}[m]
        else:
            arg = self.slices[op['x']]
            f = lambda: b.store_slice(arg['o'])
        ok, _ = call(f)
        if arg is not None and ok:
            now = self._sstate(arg['o'])
            if now != arg['state']:
                return Fail('argument-mutated/store_slice/slice',
                            f'{self._at()}: slice #{op["x"]} had {len(arg["state"][0])} bits/{len(arg["state"][1])} refs, '
                            f'has {len(now[0])}/{len(now[1])} after being stored'), None, None
        return None, ('b', op['b']), None

    # ---- observe
    def _twice(self, f, name, canon=lambda x: x):
        """call f twice; ('ok', canon) / ('raised',) and a Fail when the two outcomes differ"""
        ok1, r1 = call(f)
        ok2, r2 = call(f)
        c1 = ('ok', canon(r1)) if ok1 else ('raised',)
        c2 = ('ok', canon(r2)) if ok2 else ('raised',)
        if c1 != c2:
            return c1, Fail(f'{name}/not-idempotent', f'{self._at()}: two consecutive calls gave {_clip(c1)} and {_clip(c2)}'), (r1 if ok1 else None)
        return c1, None, (r1 if ok1 else None)

    def _pin(self, e, key, value, name, ci):
        """first observation is pinned; later ones must be identical"""
        if key not in e['pins']:
            e['pins'][key] = value
            return None
        if e['pins'][key] != value:
            return Fail(f'{name}/history-dependent',
                        f'{self._at()}: cell #{ci} ({e["route"]}): {name} gave {_clip(value)} but {_clip(e["pins"][key])} '
                        f'when first observed')
        return None

    def _do_obs(self, op):
        ci, what, k = op['c'], op['what'], op.get('k', 0)
        e = self.cells[ci]
        c = e['o']
        L = self.L
        name = _opname(op)
        if what == 'hash':
            canon, f, _ = self._twice(lambda: c.hash, name, bytes.hex)
            return f or self._pin(e, 'hash', canon, name, ci), None, canon
        if what == 'get_hash':
            lvl = k % 4
            canon, f, _ = self._twice(lambda: c.get_hash(lvl), name, lambda x: x.hex() if isinstance(x, bytes) else repr(x))
            return f or self._pin(e, ('gh', lvl), canon, name, ci), None, canon
        if what == 'boc':
            opts = tuple(map(bool, OPTSETS[k % 6]))
            fl = (0, 2, 1, 3)[(k // 6) % 4]                # the 2-bit `flags` argument of to_boc (0 unless the caller asks otherwise)
            canon, f, _ = self._twice((lambda: c.to_boc(*opts)) if k < 6 else (lambda: c.to_boc(*opts, flags=fl)), name, bytes.hex)
            if f is None and canon[0] == 'ok' and len(canon[1]) >= 10 and (int(canon[1][8:10], 16) >> 3) & 3 != fl:
                return Fail(f'{name}/flags-field-differs-from-the-argument', f'{self._at()}: to_boc(..., flags={fl}) wrote flags '
                            f'{(int(canon[1][8:10], 16) >> 3) & 3}'), None, canon
            if f is None and canon[0] == 'ok' and k < 6:
                # the bytes parsed, the caller edits the list it was handed, the same bytes parsed again: still this one root
                data = bytes.fromhex(canon[1])
                ok1, r1 = call(L.Cell.from_boc, data)
                if ok1 and isinstance(r1, list) and r1:
                    r1.append(r1[0])
                    r1[0] = L.Cell.empty()
                    ok2, r2 = call(L.Cell.from_boc, data)
                    if not ok2 or not isinstance(r2, list) or len(r2) != 1 or r2[0].hash != c.hash:
                        return Fail('from_boc/depends-on-what-the-caller-did-with-an-earlier-result', f'{self._at()}: second parse of the '
                                    f'same bytes gives {r2!r}'[:300]), None, canon
            return f or self._pin(e, ('boc', k % 24), canon, name, ci), None, canon
        if what == 'repr_hash':
            canon, f, _ = self._twice(c.calculate_representation_hash, name, bytes.hex)
            return f or self._pin(e, 'rh', canon, name, ci), None, canon
        if what == 'repr':
            canon, f, _ = self._twice(lambda: repr(c), name)
            return f or self._pin(e, 'repr', canon, name, ci), None, canon
        if what == 'str':
            if self._paths(c, STR_MAX_PATHS) > STR_MAX_PATHS:
                return None, None, None
            canon, f, _ = self._twice(lambda: str(c), name)
            return f or self._pin(e, 'str', canon, name, ci), None, canon
        if what == 'order':
            return self._obs_order(e, ci, k, op.get('use', 0), op.get('o'))
        if what == 'dict':
            return self._obs_dict(e, ci, k)
        if what == 'tlb':
            cls = L.tlb(TLB[k % len(TLB)])
            call(lambda: cls.deserialize(c.begin_parse()))
            return None, None, None
        if what == 'vmwin':
            return self._obs_vmwin(c, k if isinstance(k, list) else [k, 0, 0, 0], name)
        if what == 'addr':
            # one account stored as a plain address and with anycast info, in the order k says, by equal but distinct Address
            # objects: what each store writes depends on that object alone, not on what was stored before (in this program or here)
            from pytoniq_core.boc.address import Address
            acc = c.hash
            out = []
            for anyc in ((None, (3, 5), None) if k % 2 else ((7, 100), None, (7, 100))):
                a = Address((k % 3 - 1, acc))
                if anyc:
                    a.set_anycast(*anyc)
                ok, back = call(lambda: L.Builder().store_address(a).end_cell().begin_parse().load_address())
                if ok:
                    got = None if back.anycast is None else (back.anycast.depth, back.anycast.rewrite_pfx)
                    if got != anyc or back.wc != a.wc or back.hash_part != acc:
                        return Fail('store_address/depends-on-earlier-calls', f'{self._at()}: stored anycast {anyc}, the cell holds {got}'), None, None
                    out.append(got)
            return None, None, repr(out)
        raise ValueError(what)

    def _obs_vmwin(self, c, k, name):
        """a VmStack cell holding ONE slice value that is a WINDOW of the pooled cell (st_bits..end_bits, st_ref..end_ref, as
        the schema allows and TVM produces; the library's own writer always writes the full window) is parsed, the parsed
        slice is read from, and the stack cell is parsed again: the pooled cell (invariant I1), the stack cell and the second
        result are what they were"""
        L = self.L
        nb, nr = len(c.bits), len(c.refs)
        sb = k[0] % (nb + 1)
        eb = sb + k[1] % (nb - sb + 1)
        sr = k[2] % (nr + 1)
        er = sr + k[3] % (nr - sr + 1)
        ok, stack = call(lambda: L.Builder().store_uint(1, 24).store_ref(L.Builder().end_cell())
                         .store_uint(4, 8).store_ref(c).store_uint(sb, 10).store_uint(eb, 10).store_uint(sr, 3).store_uint(er, 3).end_cell())
        if not ok:
            return None, None, None
        before = (stack.hash, stack.to_boc(), [r.hash for r in stack.refs])
        VmStack = L.tlb('VmStack')

        def canon(res):
            return [(x.bits.to01(), [r.hash.hex() for r in x.refs[x.ref_offset:]]) if isinstance(x, L.Slice) else repr(x) for x in res]
        ok1, r1 = call(lambda: VmStack.deserialize(stack.begin_parse()))
        c1 = canon(r1) if ok1 else 'raised'
        if ok1:                                   # the caller reads from what it was given
            for x in r1:
                if isinstance(x, L.Slice):
                    call(lambda: x.load_bits(min(3, len(x.bits))))
                    call(x.load_ref)
                    call(lambda: x.skip_bits(len(x.bits)))
        ok2, r2 = call(lambda: VmStack.deserialize(stack.begin_parse()))
        c2 = canon(r2) if ok2 else 'raised'
        if (stack.hash, stack.to_boc(), [r.hash for r in stack.refs]) != before:
            return Fail(f'{name}/stack-cell-changed-by-parsing', f'{self._at()}: window bits {sb}..{eb} refs {sr}..{er} of a cell with '
                        f'{nb} bits / {nr} refs'), None, c1
        if c1 != c2:
            return Fail(f'{name}/second-parse-differs', f'{self._at()}: window bits {sb}..{eb} refs {sr}..{er}: {_clip(c1)} then {_clip(c2)}'), None, c1
        return None, None, c1

    def _obs_order(self, e, ci, k, use=0, other=None):
        c = e['o']
        dag = self._dag(c)
        canon = None
        mine = []
        for rep in range(2):
            if k:
                ok, r = call(lambda: c.order({}))
            else:
                ok, r = call(c.order)
            earlier = self.order_calls
            self.order_calls += 1
            if not ok:
                return Fail(f'order/raises/{exc_sig(r)}', f'{self._at()}: {r!r}'), None, None
            mine.append(r)
            got = [x.hash for x in r]
            # entries that do not belong to the cell's DAG can only have been left behind by another call (possibly
            # of an earlier case in this process); missing entries on the very first call are a plain ordering defect
            extra = set(got) - set(dag)
            sig = 'order/history-dependent' if (earlier or extra) else 'order/not-the-distinct-cells-of-the-dag'
            how = 'order()' if not k else 'order({})'
            if len(got) != len(dag) or set(got) != set(dag):
                return Fail(sig, f'{self._at()}: cell #{ci}.{how} has {len(got)} entries ({len(extra)} of them outside '
                                 f'its DAG), its DAG has {len(dag)} distinct cells ({earlier} earlier order() call(s) in '
                                 f'this program)'), None, None
            seq = [h.hex() for h in got]
            if canon is not None and seq != canon:
                return Fail('order/not-idempotent', f'{self._at()}: two consecutive {how} calls gave different sequences'), None, None
            canon = seq
        if use:
            f = self._use_order_result(c, ci, k, use, other, mine, canon)
            if f is not None:
                return f, None, None
        return self._pin(e, 'order', canon, 'order', ci), None, canon

    def _use_order_result(self, c, ci, k, use, other, mine, canon):
        """the dict order() returned belongs to the caller: it goes on as the accumulator of ANOTHER cell's order(acc) (the documented
        way of ordering several roots), loses / gains entries, is emptied - and the cell is ordered and serialized again: same as
        before.  (What the other cell's order(acc) returns is not judged.)"""
        L = self.L
        boc0 = [call(c.to_boc), call(lambda: c.to_boc(True, True))]
        boc0 = [(ok, r if ok else None) for ok, r in boc0]
        oc = self.cells[other]['o'] if other is not None else c
        done = set()
        for r in mine:
            if not isinstance(r, dict) or id(r) in done:
                continue
            done.add(id(r))
            for u in (use if isinstance(use, list) else [use]):
                if u == 1:                       # accumulator of another root
                    call(oc.order, r)
                elif u == 2 and r:               # the caller takes the root off
                    r.pop(next(iter(r)))
                elif u == 3 and r:               # ... the last cell
                    r.popitem()
                elif u == 4:
                    r.clear()
                elif u == 5:                     # a cell of the caller's own goes in
                    r[L.Builder().store_uint(0x5eed, 16).end_cell()] = None
                elif u == 6:                     # the caller numbers the cells
                    for n, x in enumerate(list(r)):
                        r[x] = n + 7
        how = 'order()' if not k else 'order({})'
        ok, r = call(lambda: c.order({})) if k else call(c.order)
        self.order_calls += 1
        seq = [x.hash.hex() for x in r] if ok else 'raised'
        if seq != canon:
            return Fail('order/depends-on-what-the-caller-did-with-an-earlier-result',
                        f'{self._at()}: cell #{ci}.{how} gave {len(canon)} cells; the caller then used the returned dict (use {use}, other cell '
                        f'#{other}); the same call now gives {len(seq) if ok else seq} cells')
        boc1 = [call(c.to_boc), call(lambda: c.to_boc(True, True))]
        boc1 = [(ok, r if ok else None) for ok, r in boc1]
        if boc0 != boc1:
            return Fail('to_boc/depends-on-what-the-caller-did-with-an-order-result',
                        f'{self._at()}: cell #{ci}.to_boc() differs after the caller used the dict {how} had returned (use {use}, other cell #{other})')
        return None

    def _obs_dict(self, e, ci, k):
        L = self.L
        c = e['o']
        variant, kl = (k if isinstance(k, list) else [0, 8])
        kl = max(1, kl)
        found = []

        def parse():
            if variant % 3 == 0:
                return c.begin_parse().load_dict(kl)
            if variant % 3 == 1:
                return L.HashMap.parse(c.begin_parse(), kl)
            return L.HashMap.from_cell(c, kl).map

        def canon(d):
            if d is None:
                return None
            out = []
            for key in sorted(d, key=repr):
                v = d[key]
                if isinstance(v, L.Slice):
                    out.append([repr(key), list(self._sstate(v))])
                    found.append(v)
                else:
                    out.append([repr(key), repr(v)])
            return out
        res, f, _ = self._twice(parse, 'dict-parse', canon)
        # exactly one slice enters the pool: a parsed value (a slice into an interior cell) or a fresh begin_parse()
        if found:
            dag = self._dag(c)
            self._add_slice(found[0], {ci} | e['roots'] | {i for i, x in enumerate(self.cells) if x['cheap'][3] in dag})
        else:
            ok, s = call(c.begin_parse)
            if ok:
                self._add_slice(s, {ci} | e['roots'])
        return f or self._pin(e, ('dict', variant % 3, kl), res, 'dict-parse', ci), None, res

    # ---- VmStack / HashMap with caller-held containers
    def _build_val(self, v, roots):
        t = v['t']
        if t == 'null':
            return None
        if t == 'int':
            return int(v['v'])
        if t == 'cell':
            roots.add(v['i'])
            roots |= self.cells[v['i']]['roots']
            return self.cells[v['i']]['o']
        if t == 'slice':
            roots |= self.slices[v['i']]['roots']
            return self.slices[v['i']]['o']
        if t == 'builder':
            roots |= self.builders[v['i']]['roots'] | self.builders[v['i']]['ended']
            return self.builders[v['i']]['o']
        if t == 'ints':                       # a list the caller owns (a mutable value of a dictionary)
            return [int(x) for x in v['v']]
        if t == 'own_slice':                  # a slice nobody else holds - of a cell with 'nr' children, 'lb' bits / 'lr' children of it already read
            b = self.L.Builder().store_bits(_bits(v['b']))
            for j in range(v.get('nr', 0)):
                b.store_ref(self.L.Builder().store_uint(0xA0 + j, 8).end_cell())
            s = b.end_cell().begin_parse() if v.get('nr') else b.to_slice()
            if v.get('lb'):
                call(s.load_bits, min(v['lb'], len(s.bits)))
            for _ in range(min(v.get('lr', 0), v.get('nr', 0))):
                call(s.load_ref)
            return s
        if t == 'own_cell':
            return self.L.Builder().store_bits(_bits(v['b'])).end_cell()
        if t == 'tuple':
            return self.L.VmTuple([self._build_val(x, roots) for x in v['items']])
        if t == 'list':
            return [self._build_val(x, roots) for x in v['items']]
        raise ValueError(t)

    def _argsnap(self, v):
        L = self.L
        if isinstance(v, list):
            return ['list', id(v), [self._argsnap(x) for x in v]]
        if isinstance(v, L.VmTuple):
            return ['tuple', id(v), id(v.list), [self._argsnap(x) for x in v.list]]
        if isinstance(v, dict):
            return ['dict', id(v), [[k, self._argsnap(x)] for k, x in v.items()]]
        if isinstance(v, L.Cell):
            return ['cell', id(v), v.hash, v.bits.to01()]
        if isinstance(v, L.Slice):
            return ['slice', id(v), self._sstate(v)]
        if isinstance(v, L.Builder):
            return ['builder', id(v), self._bstate(v)]
        return ['value', repr(v)]

    @classmethod
    def _argdiff(cls, a, b):
        """kind of the innermost node at which two argument snapshots differ, or None"""
        if a == b:
            return None
        if a[0] != b[0] or a[0] not in ('list', 'tuple', 'dict') or a[:-1] != b[:-1] or len(a[-1]) != len(b[-1]):
            return a[0]
        for x, y in zip(a[-1], b[-1]):
            if a[0] == 'dict':
                if x[0] != y[0]:
                    return 'dict'
                x, y = x[1], y[1]
            d = cls._argdiff(x, y)
            if d is not None:
                return d
        return a[0]

    def _serialize_twice(self, name, arg, f, roots, route):
        """f() serialises the caller-held `arg`; two calls, arguments compared after each returning call"""
        before = self._argsnap(arg)
        results = []
        for rep in range(2):
            ok, r = call(f)
            results.append((ok, r))
            if ok:
                d = self._argdiff(before, self._argsnap(arg))
                if d is not None:
                    return Fail(f'argument-mutated/{name}/{d}',
                                f'{self._at()}: after call {rep + 1} of {name} the caller\'s {d} differs: '
                                f'{_clip(before, 200)} -> {_clip(self._argsnap(arg), 200)}'), None, None
        (ok1, r1), (ok2, r2) = results
        c1 = ('raised',) if not ok1 else ('none',) if r1 is None else ('cell', r1.hash.hex())
        c2 = ('raised',) if not ok2 else ('none',) if r2 is None else ('cell', r2.hash.hex())
        f_ = None
        if c1 != c2:
            f_ = Fail(f'{name}/not-idempotent', f'{self._at()}: two consecutive calls on the same argument gave {c1} and {c2}')
        # exactly one cell enters the pool: the result, or an empty cell when there is none
        cell = r1 if (ok1 and isinstance(r1, self.L.Cell)) else self.L.Builder().end_cell()
        f2 = self._add_cell(cell, route, roots)
        return f_ or f2, None, c1

    def _do_vmstack(self, op):
        roots = set()
        L = self.L
        data = [self._build_val(v, roots) for v in op['items']]
        f, t, canon = self._serialize_twice('VmStack.serialize', data, lambda: L.VmStack.serialize(data), roots, 'vmstack')
        if f is not None:
            return f, t, canon

        # the caller goes on using its containers (every list / VmTuple gets one more entry) and serializes them again: the result
        # is that of equal containers that were never serialized
        def grow(x):
            if isinstance(x, (list, L.VmTuple)):
                lst = x if isinstance(x, list) else x.list
                for y in list(lst):
                    grow(y)
                lst.append(5)
        grow(data)
        again = [self._build_val(v, set()) for v in op['items']]
        grow(again)
        ok1, r1 = call(lambda: L.VmStack.serialize(data))
        ok2, r2 = call(lambda: L.VmStack.serialize(again))
        c1, c2 = self._outcome(ok1, r1), self._outcome(ok2, r2)
        if c1 != c2:
            return Fail('VmStack.serialize/history-dependent', f'{self._at()}: containers that were serialized, then extended in place, give '
                        f'{_clip(c1)}; equal containers that were never serialized give {_clip(c2)}'), None, canon
        return None, None, canon

    @staticmethod
    def _outcome(ok, r):
        return ('raised',) if not ok else ('none',) if r is None else ('cell', r.hash.hex()) if hasattr(r, 'hash') else ('value', repr(r))

    def _do_hashmap(self, op):
        L = self.L
        roots = set()
        d = {}
        for key, v in op['items']:
            d[key] = self._build_val(v, roots)
        kl = op['kl']

        def ser(src, dest):
            if isinstance(src, L.Slice):
                return dest.store_slice(src)
            if src is None:
                return dest
            return dest.store_cell(src)
        default_ok = op.get('ser') == 'default'
        if op.get('via', 'map_') == 'map_':
            def f():
                return L.HashMap(kl, value_serializer=None if default_ok else ser, map_=d).serialize()
        else:
            def f():
                hm = L.HashMap(kl, value_serializer=None if default_ok else ser)
                for key, val in d.items():
                    hm.set_int_key(key, val)
                return hm.serialize()
        return self._serialize_twice('HashMap.serialize', d, f, roots, 'hashmap')


    # ---- a HashMap OBJECT the caller keeps: built once, edited, serialized several times
    def _mk_ser(self, e):
        """value serializer of map entry e: writes what the value holds NOW (and the 4-bit `salt` the caller may have set)"""
        L = self.L

        def ser(src, dest):
            if e['salt'] is not None:
                dest.store_uint(e['salt'], 4)
            if isinstance(src, L.Slice):
                return dest.store_slice(src)
            if isinstance(src, L.Builder):
                return dest.store_cell(src.end_cell())
            if isinstance(src, list):
                return dest.store_uint(sum(src) % 65536, 16).store_uint(len(src) % 256, 8)
            if src is None:
                return dest
            return dest.store_cell(src)
        return ser

    @staticmethod
    def _pooled(v):
        return (v['t'][0], v['i']) if v['t'] in ('slice', 'builder') else None

    def _do_hm_new(self, op):
        L = self.L
        kl = op['kl']
        e = {'o': None, 'kl': kl, 'salt': None, 'ser': None, 'nser': 0, 'pooled': {}, 'roots': set()}
        if op.get('ser') != 'default':
            e['ser'] = self._mk_ser(e)
        via = op.get('via', 'map_')
        hm = None
        if via == 'from_cell':                # the values are the slices the library hands out
            ci = op['c']
            ok, hm = call(L.HashMap.from_cell, self.cells[ci]['o'], kl)
            if ok and isinstance(hm, L.HashMap) and isinstance(hm.map, dict) and all(isinstance(k, int) for k in hm.map):
                hm.value_serializer = e['ser']
                e['roots'] = {ci} | self.cells[ci]['roots']
            else:
                hm = None
        if hm is None:
            vals = {}
            for key, v in (op['items'] if via != 'from_cell' else []):
                key %= 1 << kl
                vals[key] = self._build_val(v, e['roots'])
                e['pooled'][key] = self._pooled(v)
            if via == 'set':
                hm = L.HashMap(kl, value_serializer=e['ser'])
                for key, val in vals.items():
                    hm.set_int_key(key, val)
            else:
                hm = L.HashMap(kl, value_serializer=e['ser'], map_=vals)
        e['o'] = hm
        self.maps.append(e)
        return None, None, None

    def _is_frozen(self, pooled):
        return pooled is not None and pooled[1] in (self.frozen_s if pooled[0] == 's' else self.frozen_b)

    def _do_hm_set(self, op):
        e = self.maps[op['h']]
        hm = e['o']
        keys = sorted(hm.map)
        key = keys[op['at'] % len(keys)] if (op.get('at') is not None and keys) else op['key'] % (1 << e['kl'])
        val = self._build_val(op['v'], e['roots'])
        ok, _ = call(hm.set_int_key, key, val)
        if ok:
            e['pooled'][key] = self._pooled(op['v'])
        return None, None, None

    def _do_hm_edit(self, op):
        """what a caller legitimately does to a dictionary object (or to the values in it) between two serialize() calls"""
        L = self.L
        e = self.maps[op['h']]
        hm = e['o']
        how, n = op['how'], op.get('n', 1)
        keys = sorted(hm.map)
        key = keys[op.get('k', 0) % len(keys)] if keys else None
        touched = None
        if how == 'touch' and key is not None:            # a mutable VALUE changes in place; the map is not touched
            v = hm.map[key]
            pooled = e['pooled'].get(key)
            if self._is_frozen(pooled):
                return None, None, None
            if isinstance(v, L.Slice):
                call(lambda: v.load_bits(min(max(1, n), len(v.bits))))
                if n in (2, 7, 15):
                    call(v.load_ref)
            elif isinstance(v, L.Builder):
                call(lambda: v.store_uint(n % 2, 1))
            elif isinstance(v, list):
                v.append(n % 251)
            if pooled is not None:
                touched = (pooled[0], pooled[1])
        elif how == 'del' and key is not None:
            del hm.map[key]
            e['pooled'].pop(key, None)
        elif how == 'refill':                             # the object is used for other entries (possibly of another kind of value)
            vals = {k % (1 << e['kl']): self._build_val(v, e['roots']) for k, v in op.get('items', [])}
            via = op.get('via', 'rebind')
            if via == 'rebind':
                hm.map = vals
            elif via == 'update':
                hm.map.clear()
                hm.map.update(vals)
            else:
                for k in list(hm.map):
                    del hm.map[k]
                for k, val in vals.items():
                    call(hm.set_int_key, k, val)
            e['pooled'] = {}
        elif how == 'rebind_map':                         # the public attribute is replaced by an equal dict
            hm.map = dict(hm.map)
        elif how == 'rebind_ser':                         # ... the serializer by another callable that does the same
            e['ser'] = self._mk_ser(e)
            hm.value_serializer = e['ser']
        elif how == 'salt':                               # state the serializer closes over
            e['salt'] = n % 16
            if e['ser'] is None:
                e['ser'] = self._mk_ser(e)
                hm.value_serializer = e['ser']
        return None, touched, None

    def _do_hm_ser(self, op):
        L = self.L
        e = self.maps[op['h']]
        hm = e['o']
        before = self._argsnap(hm.map)
        outs = []
        r_first = None
        for rep in range(2):
            ok, r = call(hm.serialize)
            if rep == 0 and ok and isinstance(r, L.Cell):
                r_first = r
            outs.append(self._outcome(ok, r))
            if ok:
                d = self._argdiff(before, self._argsnap(hm.map))
                if d is not None:
                    return Fail(f'argument-mutated/HashMap.serialize/{d}', f'{self._at()}: the map of HashMap #{op["h"]} differs after '
                                f'serialize(): {_clip(before, 200)} -> {_clip(self._argsnap(hm.map), 200)}'), None, None
        f = None
        if outs[0] != outs[1]:
            f = Fail('HashMap.serialize/not-idempotent', f'{self._at()}: two consecutive calls on HashMap #{op["h"]} gave {outs[0]} and {outs[1]}')
        else:
            # an equal dictionary object that was never serialized (same key size, same serializer, same values under the same keys)
            if op.get('fresh', 0) % 2 == 0:
                ok, fresh = call(lambda: L.HashMap(e['kl'], value_serializer=e['ser'], map_=dict(hm.map)))
            else:
                def build():
                    x = L.HashMap(e['kl'], value_serializer=e['ser'])
                    for key, val in hm.map.items():
                        x.set_int_key(key, val)
                    return x
                ok, fresh = call(build)
            if ok:
                ok3, r3 = call(fresh.serialize)
                c3 = self._outcome(ok3, r3)
                if c3 != outs[0]:
                    f = Fail('HashMap.serialize/history-dependent',
                             f'{self._at()}: HashMap #{op["h"]} ({len(hm.map)} entries, serialized {e["nser"]} time(s) before) gives '
                             f'{_clip(outs[0])}; an equal HashMap that was never serialized gives {_clip(c3)}')
        e['nser'] += 1
        cell = r_first if r_first is not None else L.Builder().end_cell()
        f2 = self._add_cell(cell, 'hm_ser', e['roots'])
        return f or f2, None, outs[0]

    # ---- a library call made from inside a callback of another library call
    def _do_nested(self, op):  # noqa: C901
        """Outer dictionary key -> (W-bit value, 8-bit tag, Maybe ^inner); the inner object of a leaf is produced by a library call.
        `nested`: that call is made by the outer value serializer while the outer serialize() runs; `flat`: all inner objects are
        produced beforehand, the serializer only stores them.  Same arguments, same result - and the same read back."""
        L = self.L
        K, W, IK, IW, kind = op['kl'], op['w'], op['ikl'], op['iw'], op['inner']
        omap, nestmap = {}, {}
        for key, v, nest in op['items']:
            if v not in nestmap:
                omap[key % (1 << K)] = v
                nestmap[v] = bool(nest)
        nestmap = {v: nestmap[v] for v in omap.values()}
        pc = self.cells[op['c']]['o'] if op.get('c') is not None else L.Builder().store_uint(77, 9).end_cell()

        def small(v):
            return L.Builder().store_uint(v % 65536, 16).end_cell()

        def uint_dict(v):
            return L.HashMap(IK).with_uint_values(IW).set_int_key(v % (1 << IK), v % (1 << IW)) \
                .set_int_key((v + 1) % (1 << IK), (v * 7 + 1) % (1 << IW)).serialize()
        prep = {}
        if kind == 'parse':
            ok, prep = call(lambda: {v: uint_dict(v) for v in nestmap})
            if not ok:
                return self._nested_done(None, None)

        def nest_of(v):
            return v > 0 and nestmap.get(v, v % 4 != 0) if kind == 'recursive' else nestmap.get(v, False)

        def inner_of(v):                                   # (tag, cell | None) - library calls
            if kind == 'uint-dict':
                return 2, uint_dict(v)
            if kind == 'cell-dict':                        # default value serializer (store_cell), as the outer one takes cells
                return 4, L.HashMap(IK).set_int_key(v % (1 << IK), small(v)).set_int_key((v + 1) % (1 << IK), small(v + 1)).serialize()
            if kind == 'parse':
                return len(L.HashMap.parse(prep[v].begin_parse(), IK)), prep[v]
            if kind == 'vmstack':
                return 1, L.VmStack.serialize([v, L.VmTuple([v, small(v)])])
            if kind == 'boc':
                return 3, L.Cell.one_from_boc(pc.to_boc(hash_crc32=bool(v % 2)))
            if kind == 'order':
                return len(pc.order()) % 256, small(v)
            raise ValueError(kind)

        def mk_ser(get_inner):
            def ser(src, dest):
                v = vof[src.hash] if kind == 'cell-dict' else src
                if kind == 'cell-dict':
                    dest.store_ref(src)
                else:
                    dest.store_uint(v % (1 << W), W)
                if nest_of(v):
                    t, c = get_inner(v)
                    return dest.store_uint(t % 256, 8).store_dict(c)
                return dest.store_uint(0, 8).store_dict(None)
            return ser

        vof = {small(v).hash: v for v in omap.values()} if kind == 'cell-dict' else {}

        def outer(ser):
            vals = {key: (small(v) if kind == 'cell-dict' else v) for key, v in omap.items()}
            return L.HashMap(K, value_serializer=ser, map_=vals).serialize()

        if kind == 'recursive':
            def rec_nested(src, dest):                     # the serializer serializes a dictionary that uses this serializer
                dest.store_uint(src % (1 << W), W)
                if nest_of(src):
                    return dest.store_uint(9, 8).store_dict(L.HashMap(IK, value_serializer=rec_nested).set_int_key(0, src // 4).serialize())
                return dest.store_uint(0, 8).store_dict(None)
            ready = {}

            def rec_flat(src, dest):
                dest.store_uint(src % (1 << W), W)
                if nest_of(src):
                    return dest.store_uint(9, 8).store_dict(ready[src])
                return dest.store_uint(0, 8).store_dict(None)

            def prepare(v):                                # bottom up: no serialize() runs inside another
                if nest_of(v) and v not in ready:
                    prepare(v // 4)
                    ready[v] = L.HashMap(IK, value_serializer=rec_flat).set_int_key(0, v // 4).serialize()

            def run_flat():
                for v in omap.values():
                    prepare(v)
                return outer(rec_flat)

            def run_nested():
                return outer(rec_nested)
        else:
            def run_flat():
                ready = {v: inner_of(v) for v in omap.values() if nest_of(v)}
                return outer(mk_ser(ready.__getitem__))

            def run_nested():
                return outer(mk_ser(inner_of))

        def plain():
            return L.HashMap(8).with_uint_values(8).set_int_key(5, 7).set_int_key(6, 9).serialize().hash

        p0 = call(plain)
        ok1, f1 = call(run_flat)
        ok2, n1 = call(run_nested)
        p1 = call(plain)
        ok3, f2 = call(run_flat)
        cf1, cn, cf2 = self._outcome(ok1, f1), self._outcome(ok2, n1), self._outcome(ok3, f2)
        descr = f'{kind}: outer {K}-bit keys {sorted(omap)} (nesting leaves: {[k for k in sorted(omap) if nest_of(omap[k])]})'
        if cn != cf1:
            return self._nested_done(n1 if ok2 else None, Fail(
                'HashMap.serialize/depends-on-a-call-made-inside-its-value-serializer',
                f'{self._at()} {descr}: with the inner objects produced inside the value serializer {_clip(cn)}, with the same objects '
                f'produced beforehand {_clip(cf1)}'), cn)
        if cf2 != cf1 or p0 != p1:
            return self._nested_done(n1 if ok2 else None, Fail(
                'HashMap.serialize/history-dependent/after-a-nested-call',
                f'{self._at()} {descr}: the same flat dictionary gives {_clip(cf1)} before and {_clip(cf2)} after the nested call '
                f'(a fixed 2-entry dictionary: {_clip(p0)} / {_clip(p1)})'), cn)
        f = None
        if ok2 and isinstance(n1, L.Cell) and kind in ('uint-dict', 'parse'):
            # read back: nested value deserializers (a dictionary parsed inside the value deserializer of another) against the
            # same reads made one after the other
            def read_nested(cs):
                return cs.load_uint(W), cs.load_uint(8), cs.load_dict(IK, value_deserializer=lambda s: s.load_uint(IW))

            def parse_nested():
                return n1.begin_parse().load_hashmap(K, value_deserializer=read_nested)

            def parse_flat():
                out = {}
                for key, cs in n1.begin_parse().load_hashmap(K).items():
                    v, t, raw = cs.load_uint(W), cs.load_uint(8), cs.load_dict(IK)
                    out[key] = (v, t, None if raw is None else {k2: s.load_uint(IW) for k2, s in raw.items()})
                return out
            a, b, a2 = call(parse_nested), call(parse_flat), call(parse_nested)
            ca, cb, ca2 = [(ok, repr(r) if ok else None) for ok, r in (a, b, a2)]
            if ca != cb or ca != ca2:
                f = Fail('HashMap.parse/depends-on-a-call-made-inside-its-value-deserializer',
                         f'{self._at()} {descr}: nested deserializers {_clip(ca, 200)}; the same reads one after the other {_clip(cb, 200)}; '
                         f'nested again {_clip(ca2, 200)}')
        return self._nested_done(n1 if ok2 else None, f, cn)

    def _nested_done(self, cell, f, canon=None):
        """exactly one cell enters the pool"""
        L = self.L
        f2 = self._add_cell(cell if isinstance(cell, L.Cell) else L.Builder().end_cell(), 'nested', ())
        return f or f2, None, canon


# --------------------------------------------------------------------------------------------------
# checks

def check_program(case):
    return _World().run(case['ops'])


def check_history(case):
    obs = case['obs']
    name = _opname(obs)
    w1 = _World()
    f = w1.run(case['setup'])
    if f is not None:
        return f
    obs = w1.m.resolve(obs)
    if obs is None:
        return None
    w1.freeze(obs)
    r1, f = w1.observe(obs)
    if f is not None:
        return f
    f = w1.run(case['prefix'])
    if f is not None:
        return f
    r2, f = w1.observe(obs)
    if f is not None:
        return f
    if r1 != r2:
        return Fail(f'{name}/history-dependent',
                    f'{_clip(obs, 200)}: result before the prefix program {_clip(r1, 200)}, after it {_clip(r2, 200)}')
    w2 = _World()
    f = w2.run(case['setup'])
    if f is not None:
        return f
    w2.freeze(obs)
    f = w2.run(case['prefix'])
    if f is not None:
        return f
    r3, f = w2.observe(obs)
    if f is not None:
        return f
    if r3 != r1:
        return Fail(f'{name}/history-dependent',
                    f'{_clip(obs, 200)}: first observation in a fresh world {_clip(r1, 200)}, first observation after the '
                    f'prefix program in a rebuilt world {_clip(r3, 200)}')
    return None


# --------------------------------------------------------------------------------------------------
# classification

def classify(case):
    m = _model_of(case['ops'])
    yield from m.labels
    n = len(case['ops'])
    yield 'steps=' + ('1-4' if n <= 4 else '5-10' if n <= 10 else '11-20' if n <= 20 else '21-35' if n <= 35 else '36+')
    yield 'pool-cells=' + ('0' if not m.c else '1-3' if len(m.c) <= 3 else '4-9' if len(m.c) <= 9 else '10+')


def nontrivial(case):
    return _model_of(case['ops']).nt


def _obs_label(obs):
    k = obs['op']
    if k == 'obs':
        return obs['what'] + (':no-arg' if obs['what'] == 'order' and not obs.get('k') else '')
    return k


def classify_history(case):
    yield 'obs=' + _obs_label(case['obs'])
    m = _model_of(case['setup'])
    ncell0 = len(m.c)
    yield 'setup-cells=' + ('0' if not ncell0 else '1-3' if ncell0 <= 3 else '4+')
    kinds = set()
    for op in case['prefix']:
        kinds.add(op['op'] if op['op'] != 'obs' else 'obs:' + op['what'])
        m.apply(op)
    for k in sorted(kinds):
        yield 'prefix:' + k
    n = len(case['prefix'])
    yield 'prefix-len=' + ('0' if n == 0 else '1-3' if n <= 3 else '4-10' if n <= 10 else '11+')
    if m.nt:
        yield 'prefix-mutates-derived-object'


def nontrivial_history(case):
    m = _model_of(case['setup'])
    return bool(m.c) and len(case['prefix']) >= 1


# --------------------------------------------------------------------------------------------------
# generators

_NA = [1, 2, 3, 7, 9, 15, 17, 255, 257, 1015, 1017, 1022, 1023]
_AL = [0, 8, 16, 256, 1016]
_seed = st.integers(0, 999)


def _bitspec(draw, cap=1023, small=False):
    """[len, fill, seed] (see expand_bits) or a short literal; len <= cap"""
    if cap <= 0:
        return ''
    choice = draw(st.integers(0, 9))
    if small or choice <= 3:
        n = draw(st.integers(0, min(cap, 24)))
        if choice == 0:
            return draw(st.text(alphabet='01', min_size=0, max_size=min(cap, 12)))
    elif choice <= 6:
        n = draw(st.sampled_from([x for x in _NA if x <= cap] or [cap]))
    elif choice == 7:
        n = draw(st.sampled_from([x for x in _AL if x <= cap] or [0]))
    else:
        n = draw(st.integers(0, cap))
    return [n, draw(st.sampled_from([0, 1, 2, 2, 3, 4])), draw(_seed)]


def _idx(draw, n):
    """index into a pool of n >= 1 objects, biased to the newest and to 0"""
    if n <= 1:
        return 0
    return draw(st.one_of(st.just(n - 1), st.integers(0, n - 1)))


def _refs(draw, m):
    nc = len(m.c)
    if not nc:
        return []
    k = draw(st.sampled_from([0, 0, 0, 1, 1, 2, 2, 3, 4]))
    return [_idx(draw, nc) for _ in range(k)]


def _g_cell(draw, m, route=None, nonaligned=False):
    route = route or draw(st.sampled_from(['builder', 'tvm', 'plain', 'plain']))
    if nonaligned:
        b = [draw(st.one_of(st.sampled_from(_NA), st.integers(0, 127).map(lambda q: q * 8 + 1 + q % 7))),
             draw(st.sampled_from([0, 1, 2, 3, 4])), draw(_seed)]
    else:
        b = _bitspec(draw)
    return {'op': 'cell', 'route': route, 'b': b, 'r': _refs(draw, m)}


def _g_load(draw, m, si=None):
    si = _idx(draw, len(m.s)) if si is None else si
    s = m.s[si]
    meth = draw(st.sampled_from(LOADS_EXACT * 3 + LOADS))
    nb = s['nb'] if s['nb'] is not None else 64
    op = {'op': 'load', 's': si, 'm': meth}
    over = draw(st.integers(0, 9)) == 0           # one in ten reads past the end (must raise and change nothing)
    if meth in ('bits', 'skip', 'uint', 'int'):
        lo = 1 if meth in ('uint', 'int') else 0
        hi = min(nb, 256) if meth in ('uint', 'int') else nb
        if over or hi < lo:
            op['n'] = hi + 1
        else:
            op['n'] = draw(st.one_of(st.integers(lo, max(lo, min(hi, 16))), st.integers(lo, hi)))
    elif meth == 'bytes':
        hi = nb // 8
        op['n'] = hi + 1 if over else draw(st.integers(0, hi))
    elif meth == 'dict':
        op['n'] = draw(st.sampled_from([1, 4, 8, 8, 16, 32, 256]))
    return op


def _g_store(draw, m, bi=None):
    bi = _idx(draw, len(m.b)) if bi is None else bi
    b = m.b[bi]
    avail = 1023 - b['nb'] if b['nb'] is not None else 64
    kinds = ['bits', 'bits', 'uint', 'uint', 'bit', 'bytes', 'maybe_ref', 'snake'] + sorted(_MISC_STORES)
    if m.c:
        kinds += ['ref', 'ref', 'cell', 'cell']
    if m.s:
        kinds += ['slice', 'slice']
    meth = draw(st.sampled_from(kinds))
    op = {'op': 'store', 'b': bi, 'm': meth}
    if meth == 'bits':
        over = draw(st.integers(0, 19)) == 0
        op['v'] = [avail + 1, 2, draw(_seed)] if over and avail < 1023 else _bitspec(draw, cap=avail, small=draw(st.booleans()))
    elif meth == 'uint':
        n = draw(st.integers(1, max(1, min(64, avail))))
        op['n'] = n
        op['v'] = draw(st.one_of(st.sampled_from([0, 1, (1 << n) - 1]), st.integers(0, (1 << n) - 1)))
    elif meth == 'bit':
        op['v'] = draw(st.integers(0, 1))
    elif meth == 'bytes':
        op['v'] = draw(st.binary(min_size=0, max_size=max(0, min(8, avail // 8)))).hex()
    elif meth == 'snake':
        op['v'] = draw(st.binary(min_size=0, max_size=draw(st.sampled_from([4, 4, 130, 300])))).hex()
    elif meth in ('ref', 'cell'):
        op['x'] = _idx(draw, len(m.c))
    elif meth == 'maybe_ref':
        op['x'] = _idx(draw, len(m.c)) if m.c and draw(st.booleans()) else None
    else:
        op['x'] = _idx(draw, len(m.s))
    return op


def _g_obs(draw, m, ci=None, what=None):
    ci = _idx(draw, len(m.c)) if ci is None else ci
    what = what or draw(st.sampled_from(OBS + ('boc', 'boc', 'order', 'order', 'order', 'hash')))
    op = {'op': 'obs', 'what': what, 'c': ci}
    if what == 'get_hash':
        op['k'] = draw(st.integers(0, 3))
    elif what == 'boc':
        op['k'] = draw(st.one_of(st.integers(0, 5), st.integers(0, 23)))
    elif what == 'order':
        op['k'] = draw(st.sampled_from([0, 0, 1]))
        if draw(st.integers(0, 2)):             # the caller goes on with the dict it was given
            op['use'] = draw(st.sampled_from([1, 1, 1, 2, 3, 4, 5, 6, [1, 2], [5, 1], [2, 1]]))
            op['o'] = _idx(draw, len(m.c))
    elif what == 'dict':
        op['k'] = [draw(st.integers(0, 2)), draw(st.sampled_from([1, 2, 8, 8, 8, 16, 32, 256]))]
    elif what == 'tlb':
        op['k'] = draw(st.integers(0, len(TLB) - 1))
    elif what == 'addr':
        op['k'] = draw(st.integers(0, 5))
    elif what == 'vmwin':
        op['k'] = [draw(st.sampled_from([0, 0, 1, 7])), draw(st.integers(0, 1023)), draw(st.integers(0, 4)), draw(st.sampled_from([0, 1, 2, 3, 4, 4]))]
    return op


_ints = st.one_of(st.sampled_from([0, 1, -1, 2 ** 63 - 1, 2 ** 63, -2 ** 63, 2 ** 256 - 1, -2 ** 256]),
                  st.integers(-2 ** 70, 2 ** 70))


def _g_val(draw, m, depth=0, force_tuple=False):
    kinds = ['null', 'int']
    if m.c:
        kinds += ['cell', 'cell']
    if m.s:
        kinds += ['slice', 'slice']
    if m.b:
        kinds += ['builder']
    if depth < 3:
        kinds += ['tuple', 'tuple', 'list'] if depth < 2 else ['tuple']
    t = 'tuple' if force_tuple else draw(st.sampled_from(kinds))
    if t == 'null':
        return {'t': 'null'}
    if t == 'int':
        return {'t': 'int', 'v': str(draw(_ints))}
    if t in ('tuple', 'list'):
        n = draw(st.sampled_from([0, 1, 2, 2, 3, 4]))
        return {'t': t, 'items': [_g_val(draw, m, depth + 1) for _ in range(n)]}
    return {'t': t, 'i': _idx(draw, len({'cell': m.c, 'slice': m.s, 'builder': m.b}[t]))}


def _g_vmstack(draw, m, force_tuple=False):
    n = draw(st.sampled_from([0, 1, 1, 2, 3, 4]))
    items = [_g_val(draw, m) for _ in range(n)]
    if force_tuple:
        items.insert(draw(st.integers(0, len(items))), _g_val(draw, m, force_tuple=True))
    return {'op': 'vmstack', 'items': items}


def _g_hashmap(draw, m):
    kl = draw(st.sampled_from([1, 2, 8, 8, 16, 32, 256]))
    n = draw(st.sampled_from([0, 1, 2, 2, 3, 5]))
    keys = draw(st.lists(st.integers(0, (1 << kl) - 1), min_size=min(n, 1 << kl), max_size=min(n, 1 << kl), unique=True))
    kinds = (['cell'] if m.c else []) + (['slice'] if m.s else []) or ['null']
    items = []
    for key in keys:
        t = draw(st.sampled_from(kinds))
        items.append([key, {'t': 'null'} if t == 'null' else {'t': t, 'i': _idx(draw, len(m.c if t == 'cell' else m.s))}])
    op = {'op': 'hashmap', 'kl': kl, 'items': items, 'via': draw(st.sampled_from(['map_', 'map_', 'set']))}
    if all(v['t'] == 'cell' for _, v in items) and draw(st.booleans()):
        op['ser'] = 'default'
    return op


NESTED_KINDS = ('uint-dict', 'cell-dict', 'recursive', 'parse', 'vmstack', 'boc', 'order')
HM_EDITS = ('touch', 'touch', 'touch', 'del', 'rebind_map', 'rebind_ser', 'salt', 'refill')


def _g_own_slice(draw, read=None):
    v = {'t': 'own_slice', 'b': _bitspec(draw, cap=200, small=draw(st.booleans()))}
    if read or (read is None and draw(st.booleans())):             # of a cell with children, partly read already
        v['nr'] = draw(st.sampled_from([1, 2, 2, 3, 4]))
        v['lr'] = draw(st.integers(1 if read else 0, v['nr']))
        v['lb'] = draw(st.sampled_from([0, 0, 1, 8, 300]))
    return v


_HM_PLAIN = ('empty', 'cell', 'slice', 'half-read-slice', 'half-read-slice', 'cell-then-half-read-slice', 'half-read-slice-then-cell', 'ints')


def _g_hm_plain_items(draw, kl, kind):
    """entries of one kind of value that needs no pool"""
    if kind == 'empty':
        return []
    n = draw(st.sampled_from([1, 1, 2, 3]))
    keys = sorted(draw(st.lists(st.integers(0, (1 << kl) - 1), min_size=min(n, 1 << kl), max_size=min(n, 1 << kl), unique=True)))
    out = []
    for j, key in enumerate(keys):
        k = kind.split('-then-')[min(j, 1)] if '-then-' in kind else kind
        out.append([key, {'t': 'own_cell', 'b': _bitspec(draw, cap=100, small=True)} if k == 'cell' else
                    {'t': 'ints', 'v': [j]} if k == 'ints' else _g_own_slice(draw, read=(k == 'half-read-slice'))])
    return out


def _g_hmval(draw, m):
    kinds = ['ints', 'own_slice', 'own_slice', 'null', 'own_cell']
    if m.c:
        kinds += ['cell']
    if m.s:
        kinds += ['slice', 'slice']
    if m.b:
        kinds += ['builder']
    t = draw(st.sampled_from(kinds))
    if t == 'ints':
        return {'t': 'ints', 'v': draw(st.lists(st.integers(0, 300), max_size=3))}
    if t == 'own_slice':
        return _g_own_slice(draw)
    if t == 'own_cell':
        return {'t': 'own_cell', 'b': _bitspec(draw, cap=200, small=True)}
    if t == 'null':
        return {'t': 'null'}
    return {'t': t, 'i': _idx(draw, len({'cell': m.c, 'slice': m.s, 'builder': m.b}[t]))}


def _g_hm_new(draw, m, via=None):
    kl = draw(st.sampled_from([1, 2, 8, 8, 16, 32, 256]))
    n = draw(st.sampled_from([0, 1, 1, 2, 2, 3, 5]))
    keys = draw(st.lists(st.integers(0, (1 << kl) - 1), min_size=min(n, 1 << kl), max_size=min(n, 1 << kl), unique=True))
    items = [[key, _g_hmval(draw, m)] for key in keys]
    op = {'op': 'hm_new', 'kl': kl, 'items': items, 'via': via or draw(st.sampled_from(['map_', 'map_', 'set']))}
    # the default value serializer (store_cell) takes anything with .bits / .refs: cells and - by duck typing - slices
    if all(v['t'] in ('cell', 'own_cell', 'slice', 'own_slice') for _, v in items) and draw(st.booleans()):
        op['ser'] = 'default'
    return op


def _g_hm_set(draw, m, h):
    same = draw(st.booleans())
    return {'op': 'hm_set', 'h': h, 'key': draw(st.integers(0, (1 << 256) - 1)), 'at': draw(st.integers(0, 5)) if same else None,
            'v': _g_hmval(draw, m)}


def _g_hm_edit(draw, m, h, how=None):
    op = {'op': 'hm_edit', 'h': h, 'how': how or draw(st.sampled_from(HM_EDITS)), 'k': draw(st.integers(0, 5)),
          'n': draw(st.sampled_from([1, 1, 2, 7, 8, 15]))}
    if op['how'] == 'refill':
        op['items'] = _g_hm_plain_items(draw, 8, draw(st.sampled_from(_HM_PLAIN)))       # keys are reduced modulo the key size
        op['via'] = draw(st.sampled_from(['rebind', 'update', 'set']))
    return op


def _g_hm_ser(draw, m, h):
    return {'op': 'hm_ser', 'h': h, 'fresh': draw(st.integers(0, 1))}


def _g_nested(draw, m, kind=None):
    kl = draw(st.sampled_from([2, 4, 8, 8, 32]))
    n = draw(st.sampled_from([1, 2, 3, 3, 4, 5]))
    keys = draw(st.lists(st.integers(0, (1 << kl) - 1), min_size=min(n, 1 << kl), max_size=min(n, 1 << kl), unique=True))
    vals = draw(st.lists(st.integers(0, 60000), min_size=len(keys), max_size=len(keys), unique=True))
    pattern = draw(st.sampled_from(['all', 'all', 'first', 'some', 'some', 'last', 'none']))
    order = sorted(range(len(keys)), key=lambda i: keys[i])
    nest = {}
    for rank, i in enumerate(order):
        nest[i] = {'all': True, 'none': False, 'first': rank == 0, 'last': rank == len(order) - 1}.get(pattern)
        if nest[i] is None:
            nest[i] = draw(st.booleans())
    w, iw = draw(st.sampled_from([(8, 32), (8, 8), (32, 8), (16, 16), (1, 64)]))
    return {'op': 'nested', 'kl': kl, 'items': [[keys[i], vals[i], nest[i]] for i in range(len(keys))], 'w': w, 'iw': iw,
            'ikl': draw(st.sampled_from([1, 8, 16, 16, 64])), 'inner': kind or draw(st.sampled_from(NESTED_KINDS)),
            'c': _idx(draw, len(m.c)) if m.c else 0}


def _hm_label(nbits, key):
    """hml_short label for the remaining `nbits` key bits"""
    return '0' + '1' * nbits + '0' + format(key, f'0{nbits}b') if nbits else '00'


def _dict_macro(draw, m):
    """cells forming a valid 8-bit-key dictionary with two leaves (+ the HashmapE wrapper), then parse attempts"""
    base = len(m.c)
    k0, k1 = draw(st.integers(0, 127)), draw(st.integers(0, 127))
    route = draw(st.sampled_from(['builder', 'tvm', 'plain']))
    ops = [{'op': 'cell', 'route': route, 'b': _hm_label(7, k0) + _bits([draw(st.integers(0, 40)), 2, draw(_seed)]), 'r': []},
           {'op': 'cell', 'route': route, 'b': _hm_label(7, k1) + _bits([draw(st.integers(0, 40)), 2, draw(_seed)]), 'r': []},
           {'op': 'cell', 'route': route, 'b': '00', 'r': [base, base + 1]},
           {'op': 'cell', 'route': route, 'b': '1', 'r': [base + 2]},
           {'op': 'obs', 'what': 'dict', 'c': base + 3, 'k': [0, 8]},
           {'op': 'obs', 'what': 'dict', 'c': base + 2, 'k': [draw(st.integers(1, 2)), 8]}]
    return ops


_MSG_EXT = '10' + '00' + '10' + '0' + '00000000' + '01' * 128 + '0000' + '0' + '0'   # ext_in_msg_info, no init, body inline


def _kinds(m):
    k = [('cell', 6), ('new_builder', 1), ('vmstack', 2), ('hashmap', 1), ('M_plain_na', 2), ('M_dict', 1), ('M_vmtuple', 2),
         ('M_msg', 1), ('hm_new', 1), ('nested', 2), ('M_hm_cycle', 2), ('M_hm_retype', 2)]
    if m.c:
        k += [('derive', 5), ('obs', 8), ('M_parse_load', 4), ('M_tobuilder_store', 4), ('M_order2', 3), ('M_hm_reparse', 1)]
    if m.h:
        k += [('hm_set', 1), ('hm_edit', 3), ('hm_ser', 3)]
    if m.s:
        k += [('sderive', 3), ('load', 7)]
    if m.b:
        k += [('bderive', 4), ('store', 7), ('M_end_store', 4)]
    return [name for name, w in k for _ in range(w)]


def _emit(draw, m, kind):
    """list of ops for one generator step (macros emit several)"""
    if kind == 'cell':
        return [_g_cell(draw, m)]
    if kind == 'new_builder':
        return [{'op': 'new_builder'}]
    if kind == 'derive':
        return [{'op': 'derive', 'how': draw(st.sampled_from(CELL_DERIVES)), 'c': _idx(draw, len(m.c))}]
    if kind == 'sderive':
        return [{'op': 'sderive', 'how': draw(st.sampled_from(SLICE_DERIVES)), 's': _idx(draw, len(m.s))}]
    if kind == 'bderive':
        return [{'op': 'bderive', 'how': draw(st.sampled_from(BUILDER_DERIVES)), 'b': _idx(draw, len(m.b))}]
    if kind == 'load':
        return [_g_load(draw, m)]
    if kind == 'store':
        return [_g_store(draw, m)]
    if kind == 'obs':
        return [_g_obs(draw, m)]
    if kind == 'vmstack':
        return [_g_vmstack(draw, m)]
    if kind == 'hashmap':
        return [_g_hashmap(draw, m)]
    if kind == 'hm_new':
        return [_g_hm_new(draw, m)]
    if kind == 'hm_set':
        return [_g_hm_set(draw, m, _idx(draw, len(m.h)))]
    if kind == 'hm_edit':
        return [_g_hm_edit(draw, m, _idx(draw, len(m.h)))]
    if kind == 'hm_ser':
        return [_g_hm_ser(draw, m, _idx(draw, len(m.h)))]
    if kind == 'nested':
        return [_g_nested(draw, m)]
    if kind == 'M_hm_cycle':                  # build, write, change (the map or a value in it), write again
        h = len(m.h)
        ops = [_g_hm_new(draw, m)] + [_g_hm_ser(draw, m, h) for _ in range(draw(st.sampled_from([1, 1, 2])))]
        for _ in range(draw(st.sampled_from([1, 1, 2]))):
            ops.append(_g_hm_set(draw, m, h) if draw(st.integers(0, 4)) == 0 else _g_hm_edit(draw, m, h))
        return ops + [_g_hm_ser(draw, m, h)]
    if kind == 'M_hm_retype':                 # one object, default serializer, used for entries of one kind, then of another
        h = len(m.h)
        kl = draw(st.sampled_from([2, 8, 8, 16]))
        k1, k2 = draw(st.sampled_from(_HM_PLAIN)), draw(st.sampled_from(_HM_PLAIN[1:]))
        new = {'op': 'hm_new', 'kl': kl, 'items': _g_hm_plain_items(draw, kl, k1), 'via': draw(st.sampled_from(['map_', 'set']))}
        if draw(st.integers(0, 3)):
            new['ser'] = 'default'
        ops = [new] + [_g_hm_ser(draw, m, h) for _ in range(draw(st.sampled_from([1, 1, 2])))]
        ops.append({'op': 'hm_edit', 'h': h, 'how': 'refill', 'items': _g_hm_plain_items(draw, kl, k2),
                    'via': draw(st.sampled_from(['rebind', 'update', 'set']))})
        return ops + [_g_hm_ser(draw, m, h)]
    if kind == 'M_hm_reparse':                # read / modify / write: a dictionary cell is parsed into a HashMap (values = slices)
        kl = draw(st.sampled_from([2, 8, 8, 16]))
        keys = draw(st.lists(st.integers(0, (1 << kl) - 1), min_size=1, max_size=4, unique=True))
        src = {'op': 'hm_new', 'kl': kl, 'via': 'map_', 'items': [[key, {'t': 'own_slice', 'b': [draw(st.integers(1, 40)), 2, draw(_seed)]}] for key in keys]}
        h = len(m.h)
        ops = [src, {'op': 'hm_ser', 'h': h, 'fresh': 0}, {'op': 'hm_new', 'kl': kl, 'via': 'from_cell', 'c': len(m.c), 'items': []}]
        ops += [_g_hm_ser(draw, m, h + 1) for _ in range(draw(st.sampled_from([0, 1, 1, 2])))]
        ops += [_g_hm_edit(draw, m, h + 1, how=draw(st.sampled_from(['touch', 'touch', 'del', 'salt'])))]
        return ops + [_g_hm_ser(draw, m, h + 1)]
    if kind == 'M_plain_na':
        op = _g_cell(draw, m, route='plain', nonaligned=True)
        return [op, {'op': 'obs', 'what': draw(st.sampled_from(['boc', 'hash', 'repr_hash', 'order'])), 'c': len(m.c), 'k': 0}]
    if kind == 'M_dict':
        return _dict_macro(draw, m)
    if kind == 'M_msg':
        return [{'op': 'cell', 'route': draw(st.sampled_from(['builder', 'tvm', 'plain'])),
                 'b': _MSG_EXT + _bits([draw(st.integers(0, 64)), 2, draw(_seed)]), 'r': _refs(draw, m)},
                {'op': 'obs', 'what': 'tlb', 'c': len(m.c), 'k': 0}]
    if kind == 'M_vmtuple':
        return [_g_vmstack(draw, m, force_tuple=True)]
    if kind == 'M_parse_load':
        d = {'op': 'derive', 'how': draw(st.sampled_from(['begin_parse', 'begin_parse', 'to_slice', 'from_cell'])), 'c': _idx(draw, len(m.c))}
        m2 = _Shadow(m, d)
        return [d, _g_load(draw, m2, si=len(m2.s) - 1)]
    if kind == 'M_tobuilder_store':
        d = {'op': 'derive', 'how': 'to_builder', 'c': _idx(draw, len(m.c))}
        m2 = _Shadow(m, d)
        return [d, _g_store(draw, m2, bi=len(m2.b) - 1)]
    if kind == 'M_end_store':
        bi = _idx(draw, len(m.b))
        return [{'op': 'bderive', 'how': draw(st.sampled_from(['end_cell', 'end_cell', 'to_cell'])), 'b': bi}, _g_store(draw, m, bi=bi)]
    if kind == 'M_order2':
        a, b = _idx(draw, len(m.c)), _idx(draw, len(m.c))
        use = draw(st.sampled_from([0, 1, 1, 2, 4, 5]))
        return [dict({'op': 'obs', 'what': 'order', 'c': a, 'k': 0}, **({'use': use, 'o': b} if use else {})),
                {'op': 'obs', 'what': 'order', 'c': b, 'k': draw(st.sampled_from([0, 0, 1]))}]
    raise ValueError(kind)


class _Shadow:
    """view of the model after one more (derive) op, without disturbing the model"""

    def __init__(self, m, op):
        import copy
        t = _Model()
        t.c, t.s, t.b = copy.deepcopy(m.c), copy.deepcopy(m.s), copy.deepcopy(m.b)
        t.apply(op)
        self.c, self.s, self.b = t.c, t.s, t.b


def _draw_ops(draw, m, nsteps, cap):
    ops = []
    for _ in range(nsteps):
        if len(ops) >= cap:
            break
        for op in _emit(draw, m, draw(st.sampled_from(_kinds(m)))):
            m.apply(op)
            ops.append(op)
    return ops


@st.composite
def _program(draw, cap):
    m = _Model()
    nsteps = draw(st.sampled_from([2, 3, 4, 6, 8, 10, 12, 16, 20, cap]))
    return {'ops': _draw_ops(draw, m, nsteps, cap)}


def strat_programs(tier):
    return _program(30 if tier == 'quick' else 50)


@st.composite
def _history(draw, cap):
    m = _Model()
    setup = _draw_ops(draw, m, draw(st.sampled_from([1, 2, 3, 4, 6, 8])), cap // 2)
    kind = draw(st.sampled_from(['boc', 'boc', 'order', 'order', 'order', 'dict', 'vmstack', 'vmstack', 'hashmap', 'hash', 'repr_hash', 'str', 'nested']))
    if not m.c and kind not in ('vmstack', 'hashmap'):
        op = _g_cell(draw, m)
        m.apply(op)
        setup.append(op)
    if kind == 'vmstack':
        obs = _g_vmstack(draw, m, force_tuple=draw(st.booleans()))
    elif kind == 'hashmap':
        obs = _g_hashmap(draw, m)
    elif kind == 'nested':
        obs = _g_nested(draw, m)
    else:
        obs = _g_obs(draw, m, what=kind)
    m.apply(obs)
    prefix = _draw_ops(draw, m, draw(st.sampled_from([1, 2, 3, 4, 6, 10])), cap // 2)
    return {'setup': setup, 'obs': obs, 'prefix': prefix}


def strat_history(tier):
    return _history(24 if tier == 'quick' else 40)


# --------------------------------------------------------------------------------------------------
# enumerated sub-checks

def enum_lengths(tier):
    """every data length 0..1023 for the two direct constructors, as a leaf and as a parent of two cells, followed by
    the operations that expose in-place padding (hash / serialisation / a slice of the cell)"""
    for n in range(0, 1024):
        for route in ('plain', 'tvm'):
            for fill in (2, 0):
                leaf = (n + fill) % 2 == 0
                ops = []
                if not leaf:
                    ops += [{'op': 'cell', 'route': 'builder', 'b': '101', 'r': []},
                            {'op': 'cell', 'route': route, 'b': [n % 9, 2, n], 'r': [0]}]
                me = len(ops)
                ops += [{'op': 'cell', 'route': route, 'b': [n, fill, n], 'r': list(range(me))},
                        {'op': 'obs', 'what': 'boc', 'c': me, 'k': n % 6},
                        {'op': 'obs', 'what': 'repr_hash', 'c': me},
                        {'op': 'derive', 'how': ('begin_parse', 'to_builder', 'copy')[n % 3], 'c': me}]
                if n % 3 == 0:
                    ops.append({'op': 'load', 's': 0, 'm': 'bits', 'n': min(n, 1 + n % 5)})
                elif n % 3 == 1:
                    ops.append({'op': 'store', 'b': 0 if leaf else 1, 'm': 'bit', 'v': 1})      # the to_builder() result
                ops.append({'op': 'obs', 'what': 'order', 'c': me, 'k': n % 2})
                yield {'ops': ops}


_GRID_SLICE_CHAINS = {
    'begin_parse': [('derive', 'begin_parse')],
    'to_slice': [('derive', 'to_slice')],
    'from_cell': [('derive', 'from_cell')],
    'copy.begin_parse': [('derive', 'copy'), ('derive_last', 'begin_parse')],
    'begin_parse.copy': [('derive', 'begin_parse'), ('sderive_last', 'copy')],
    'begin_parse.to_cell': [('derive', 'begin_parse'), ('sderive_last', 'to_cell')],      # load from the slice afterwards
    'begin_parse.to_cell.begin_parse': [('derive', 'begin_parse'), ('sderive_last', 'to_cell'), ('derive_last', 'begin_parse')],
    'to_builder.to_slice': [('derive', 'to_builder'), ('bderive_last', 'to_slice')],
    'source-builder.to_slice': [('bderive_src', 'to_slice')],
    'dict-parse-value': [('obs_dict', None)],
}
_GRID_BUILDER_CHAINS = {
    'to_builder': [('derive', 'to_builder')],
    'begin_parse.to_builder': [('derive', 'begin_parse'), ('sderive_last', 'to_builder')],
    'source-builder': [],
    'source-builder.end_cell': [('bderive_src', 'end_cell')],
    'to_builder.end_cell': [('derive', 'to_builder'), ('bderive_last', 'end_cell')],
    'to_builder.to_slice.to_builder': [('derive', 'to_builder'), ('bderive_last', 'to_slice'), ('sderive_last', 'to_builder')],
    'copy.to_builder': [('derive', 'copy'), ('derive_last', 'to_builder')],
}
_GRID_LOADS = [('bits', 5), ('uint', 9), ('int', 3), ('skip', 13), ('bytes', 2), ('bit', 0), ('ref', 0), ('maybe_ref', 0),
               ('coins', 0), ('address', 0), ('dict', 8), ('snake', 0)]
_GRID_STORES = [{'m': 'bits', 'v': '1011'}, {'m': 'uint', 'v': 5, 'n': 7}, {'m': 'bit', 'v': 1}, {'m': 'bytes', 'v': 'a5'},
                {'m': 'ref', 'x': 0}, {'m': 'cell', 'x': 0}, {'m': 'slice', 'x': 0}, {'m': 'maybe_ref', 'x': 1},
                {'m': 'snake', 'v': 'ab' * 140}] + [{'m': k} for k in sorted(_MISC_STORES)]


def _grid_prog(route, chain):
    """(ops, model) up to and including the derivation chain; parent cell = #2 (bits non-aligned, refs [#0, #1])"""
    if any(step == 'obs_dict' for step, _ in chain):      # a well-formed 8-bit-key dictionary: fork over two leaves
        leaf0, leaf1, parent_bits = _hm_label(7, 5) + '1011', _hm_label(7, 77) + _bits([13, 2, 7]), '00'
    else:
        leaf0, leaf1, parent_bits = '10110', [13, 2, 7], [77, 3, 5]
    ops = [{'op': 'cell', 'route': route, 'b': leaf0, 'r': []},
           {'op': 'cell', 'route': route, 'b': leaf1, 'r': []},
           {'op': 'cell', 'route': route, 'b': parent_bits, 'r': [0, 1]},
           {'op': 'derive', 'how': 'begin_parse', 'c': 0}]          # slice #0 of leaf #0: argument for store_slice
    m = _model_of(ops)
    for step, how in chain:
        if step == 'derive':
            op = {'op': 'derive', 'how': how, 'c': 2}
        elif step == 'derive_last':
            op = {'op': 'derive', 'how': how, 'c': len(m.c) - 1}
        elif step == 'sderive_last':
            op = {'op': 'sderive', 'how': how, 's': len(m.s) - 1}
        elif step == 'bderive_last':
            op = {'op': 'bderive', 'how': how, 'b': len(m.b) - 1}
        elif step == 'bderive_src':
            if route != 'builder':
                return None, None
            op = {'op': 'bderive', 'how': how, 'b': 2}
        elif step == 'obs_dict':
            op = {'op': 'obs', 'what': 'dict', 'c': 2, 'k': [1, 8]}
        ops.append(op)
        m.apply(op)
    return ops, m


def enum_grid(tier):
    tail = [{'op': 'obs', 'what': 'hash', 'c': 2}, {'op': 'obs', 'what': 'boc', 'c': 2, 'k': 0},
            {'op': 'obs', 'what': 'boc', 'c': 2, 'k': 5}, {'op': 'obs', 'what': 'order', 'c': 2, 'k': 0},
            {'op': 'obs', 'what': 'order', 'c': 0, 'k': 0}, {'op': 'obs', 'what': 'order', 'c': 2, 'k': 1},
            {'op': 'obs', 'what': 'repr_hash', 'c': 2}, {'op': 'obs', 'what': 'str', 'c': 2},
            {'op': 'vmstack', 'items': [{'t': 'cell', 'i': 2}, {'t': 'tuple', 'items': [{'t': 'slice', 'i': 0}, {'t': 'int', 'v': '7'}]}]},
            {'op': 'hashmap', 'kl': 8, 'items': [[1, {'t': 'cell', 'i': 0}], [200, {'t': 'slice', 'i': 0}]], 'via': 'map_'}]
    for route in ('builder', 'tvm', 'plain'):
        for name, chain in _GRID_SLICE_CHAINS.items():
            ops, m = _grid_prog(route, chain)
            if ops is None:
                continue
            si = len(m.s) - 1
            for meth, n in _GRID_LOADS:
                yield {'ops': ops + [{'op': 'load', 's': si, 'm': meth, 'n': n}, {'op': 'load', 's': si, 'm': 'ref'}] + tail}
        for name, chain in _GRID_BUILDER_CHAINS.items():
            ops, m = _grid_prog(route, chain)
            if ops is None:
                continue
            if name.startswith('source-builder'):
                if route != 'builder':
                    continue
                bi = 2
            else:
                bi = len(m.b) - 1
            for sto in _GRID_STORES:
                yield {'ops': ops + [dict(sto, op='store', b=bi), {'op': 'bderive', 'how': 'end_cell', 'b': bi},
                                     {'op': 'store', 'b': bi, 'm': 'ref', 'x': 1}] + tail}
                # ... and every writer as the FIRST write after end_cell() (a copy-on-write path that one writer bypasses)
                yield {'ops': ops + [{'op': 'bderive', 'how': 'end_cell', 'b': bi}, dict(sto, op='store', b=bi)] + tail}


# --------------------------------------------------------------------------------------------------
# designed histories: one dictionary object written several times; a library call inside a callback of another

def enum_reuse(tier):
    base = [{'op': 'cell', 'route': 'builder', 'b': '10110', 'r': []},
            {'op': 'cell', 'route': 'builder', 'b': [77, 3, 5], 'r': [0]},
            {'op': 'derive', 'how': 'begin_parse', 'c': 1},            # slice #0 (77 bits, 1 ref)
            {'op': 'derive', 'how': 'to_builder', 'c': 0},             # builder #2 (builders #0, #1: the cells' own)
            {'op': 'derive', 'how': 'begin_parse', 'c': 0}]            # slice #1
    values = {'own_slice': {'t': 'own_slice', 'b': [24, 2, 3]}, 'pooled_slice': {'t': 'slice', 'i': 0},
              'pooled_builder': {'t': 'builder', 'i': 2}, 'ints': {'t': 'ints', 'v': [1, 2]}, 'cell': {'t': 'cell', 'i': 0}}
    tail = [{'op': 'obs', 'what': 'hash', 'c': 1}, {'op': 'obs', 'what': 'boc', 'c': 1, 'k': 0}]
    # (a) a HashMap object: new -> serialize x nser -> one change -> serialize; every kind of value x every kind of change x position
    for vname, v in values.items():
        for via in ('map_', 'set'):
            for nser in (1, 2):
                for pos in (0, 1, 2):
                    items = [[3, {'t': 'own_slice', 'b': '1011'}], [77, {'t': 'ints', 'v': [9]}], [200, {'t': 'cell', 'i': 1}]]
                    items[pos] = [items[pos][0], v]
                    head = base + [{'op': 'hm_new', 'kl': 8, 'items': items, 'via': via}] + [{'op': 'hm_ser', 'h': 0, 'fresh': i} for i in range(nser)]
                    changes = [[{'op': 'hm_edit', 'h': 0, 'how': how, 'k': pos, 'n': 8}] for how in ('touch', 'del', 'rebind_map', 'rebind_ser', 'salt')]
                    changes += [[{'op': 'hm_set', 'h': 0, 'key': 0, 'at': pos, 'v': {'t': 'own_slice', 'b': '111'}}],
                                [{'op': 'hm_set', 'h': 0, 'key': 100, 'at': None, 'v': v}],
                                [{'op': 'hm_edit', 'h': 0, 'how': 'touch', 'k': pos, 'n': 3}, {'op': 'hm_edit', 'h': 0, 'how': 'touch', 'k': pos, 'n': 1}]]
                    if vname == 'pooled_slice':          # the value is advanced through the caller's other handle on it
                        changes += [[{'op': 'load', 's': 0, 'm': 'bits', 'n': 9}], [{'op': 'load', 's': 0, 'm': 'ref'}]]
                    if vname == 'pooled_builder':
                        changes += [[{'op': 'store', 'b': 2, 'm': 'bit', 'v': 1}], [{'op': 'store', 'b': 2, 'm': 'ref', 'x': 0}]]
                    for ch in changes:
                        yield {'ops': head + ch + [{'op': 'hm_ser', 'h': 0, 'fresh': nser % 2}] + tail}
    # (b) read / modify / write: a dictionary cell parsed into a HashMap, k-th value read further, written again
    for n in (1, 2, 3, 5):
        src = {'op': 'hm_new', 'kl': 8, 'via': 'map_', 'items': [[(37 * j + 1) % 256, {'t': 'own_slice', 'b': [16 + j, 2, j]}] for j in range(n)]}
        for nser in (0, 1, 2):
            for pos in range(n):
                for how in ('touch', 'del', 'salt'):
                    yield {'ops': base + [src, {'op': 'hm_ser', 'h': 0}, {'op': 'hm_new', 'kl': 8, 'via': 'from_cell', 'c': 2, 'items': []}]
                           + [{'op': 'hm_ser', 'h': 1, 'fresh': i} for i in range(nser)]
                           + [{'op': 'hm_edit', 'h': 1, 'how': how, 'k': pos, 'n': 8}, {'op': 'hm_ser', 'h': 1, 'fresh': 1}] + tail}
    # (c) two HashMap objects written alternately (same serializer kind, same key size, different content)
    for v1 in ('own_slice', 'ints'):
        for v2 in ('own_slice', 'cell'):
            yield {'ops': base + [{'op': 'hm_new', 'kl': 8, 'items': [[1, values[v1]]], 'via': 'map_'},
                                  {'op': 'hm_new', 'kl': 8, 'items': [[1, values[v2]], [2, values[v1]]], 'via': 'set'},
                                  {'op': 'hm_ser', 'h': 0}, {'op': 'hm_ser', 'h': 1}, {'op': 'hm_ser', 'h': 0},
                                  {'op': 'hm_edit', 'h': 1, 'how': 'touch', 'k': 1, 'n': 4}, {'op': 'hm_ser', 'h': 1}, {'op': 'hm_ser', 'h': 0}] + tail}
    # (d) a library call inside the value serializer: every kind of inner call x which leaves nest x widths equal / different
    for kind in NESTED_KINDS:
        for kl in (2, 8):
            for n in (1, 2, 3, 4):
                pats = {'all': [True] * n, 'first': [True] + [False] * (n - 1), 'last': [False] * (n - 1) + [True], 'none': [False] * n}
                if n >= 3:
                    pats['middle'] = [False, True] + [False] * (n - 2)
                    pats['ends'] = [True] + [False] * (n - 2) + [True]
                for pname, pat in pats.items():
                    for w, iw in ((8, 32), (8, 8), (32, 8)):
                        if (pname, w) in (('none', 32), ('last', 32)) or (n == 1 and w != 8):
                            continue
                        # odd values not divisible by 4 (recursive: they nest one level deeper), distinct
                        items = [[j, 1001 + 6 * j + (4 if (1001 + 6 * j) % 4 == 0 else 0), pat[j]] for j in range(n)]
                        yield {'ops': base[:2] + [{'op': 'nested', 'kl': kl, 'items': items, 'w': w, 'iw': iw, 'ikl': 16, 'inner': kind, 'c': 1},
                                                  {'op': 'obs', 'what': 'dict', 'c': 2, 'k': [1, kl]}] + tail}
    # (f) one HashMap object used for entries of one kind, written, used for entries of another kind, written again - with the default
    #     value serializer (store_cell: cells and, by duck typing, slices) and with the caller's; slices untouched / partly read
    def plain(kind, shift):
        if kind == 'empty':
            return []
        out = []
        for j in range(2):
            k = kind.split('-then-')[j] if '-then-' in kind else kind
            out.append([5 + 90 * j + shift, {'t': 'own_cell', 'b': [9 + j, 2, j]} if k == 'cell' else {'t': 'ints', 'v': [j]} if k == 'ints' else
                        {'t': 'own_slice', 'b': [8, 2, j], 'nr': 2, 'lr': 1, 'lb': 3 * j} if k == 'half-read-slice' else
                        {'t': 'own_slice', 'b': [8, 2, j], 'nr': 2}])
        return out
    kinds = sorted(set(_HM_PLAIN))
    for k1 in kinds:
        for k2 in kinds[1:] if k1 == 'empty' else kinds:
            for ser in ('default', None):
                for via, via2, nser in (('map_', 'rebind', 1), ('set', 'set', 1), ('map_', 'update', 2)):
                    new = {'op': 'hm_new', 'kl': 8, 'items': plain(k1, 0), 'via': via}
                    if ser:
                        new['ser'] = ser
                    yield {'ops': base + [new] + [{'op': 'hm_ser', 'h': 0, 'fresh': i} for i in range(nser)]
                           + [{'op': 'hm_edit', 'h': 0, 'how': 'refill', 'items': plain(k2, nser), 'via': via2}, {'op': 'hm_ser', 'h': 0, 'fresh': nser % 2},
                              {'op': 'hm_edit', 'h': 0, 'how': 'touch', 'k': 0, 'n': 7}, {'op': 'hm_ser', 'h': 0}] + tail}
    # (g) what the caller does with the dict order() returned (accumulator of another root that does / does not reference the cell,
    #     entries taken off / added / numbered, emptied) does not reach later order() / to_boc() calls
    more = [{'op': 'cell', 'route': 'builder', 'b': '0110', 'r': [1]},              # cell #2 references #1 (which references #0)
            {'op': 'cell', 'route': 'tvm', 'b': [30, 2, 9], 'r': []},                # cell #3: unrelated
            {'op': 'cell', 'route': 'builder', 'b': '1', 'r': [3, 1, 0]}]            # cell #4 shares children with #2
    for k in (0, 1):
        for use in (1, 2, 3, 4, 5, 6, [1, 2], [5, 1], [2, 1], [1, 4]):
            for c, o in ((1, 2), (1, 3), (1, 4), (0, 1), (2, 1), (4, 2), (1, 1)):
                yield {'ops': base + more + [{'op': 'obs', 'what': 'order', 'c': c, 'k': k, 'use': use, 'o': o},
                                             {'op': 'obs', 'what': 'boc', 'c': c, 'k': 0}, {'op': 'obs', 'what': 'order', 'c': o, 'k': 0},
                                             {'op': 'obs', 'what': 'order', 'c': c, 'k': 1 - k}, {'op': 'obs', 'what': 'boc', 'c': o, 'k': 3}] + tail}
    # (e) the caller's stack containers serialized, extended in place, serialized again (see _do_vmstack)
    one = {'t': 'int', 'v': '7'}
    for inner in ([], [one], [one, {'t': 'cell', 'i': 0}], [{'t': 'slice', 'i': 0}, one, one], [{'t': 'tuple', 'items': [one]}],
                  [{'t': 'tuple', 'items': [one, {'t': 'tuple', 'items': [one, one]}]}, {'t': 'builder', 'i': 2}]):
        for wrap in ('tuple', 'list'):
            for before in ([], [one], [{'t': 'cell', 'i': 1}, one]):
                yield {'ops': base + [{'op': 'vmstack', 'items': before + [{'t': wrap, 'items': inner}]}] + tail}


# --------------------------------------------------------------------------------------------------
# the result of to_boc does not depend on which to_boc variant was called on the same cell before

def check_boc_order(case):
    from harness.gen import dag
    cells = dag.build_ref(case['spec'])
    ok, A = call(dag.lib_from_ref, cells, 'builder')
    ok2, B = call(dag.lib_from_ref, cells, 'builder')
    if not ok or not ok2:
        return None
    ALLSETS = [tuple(o) + (0,) for o in OPTSETS] + [tuple(OPTSETS[0]) + (2,), tuple(OPTSETS[3]) + (1,), tuple(OPTSETS[0]) + (3,)]
    o1, o2 = ALLSETS[case['first']], ALLSETS[case['second']]       # (has_idx, hash_crc32, has_cache_bits, flags)
    call(A[-1].to_boc, *o1)
    for inner in A[:-1][-2:]:
        call(inner.to_boc, *o1)
    okA, a = call(A[-1].to_boc, *o2)
    okB, b = call(B[-1].to_boc, *o2)                       # an equal cell that was never serialised before
    if okA != okB:
        return Fail('to_boc/depends-on-earlier-calls/raises', f'to_boc{o2} after to_boc{o1}: '
                    f'{"returns" if okA else "raises " + repr(a)}; on a fresh equal cell: {"returns" if okB else "raises " + repr(b)}')
    if okA and bytes(a) != bytes(b):
        return Fail('to_boc/depends-on-earlier-calls/bytes', f'to_boc{o2} after to_boc{o1} differs from to_boc{o2} of a fresh equal cell '
                    f'({len(a)} vs {len(b)} bytes)')
    if okA and (a[4] >> 3) & 3 != o2[3]:
        return Fail('to_boc/flags-field-differs-from-the-argument', f'to_boc{o2} wrote flags {(a[4] >> 3) & 3}')
    return None


def enum_boc_order(tier):
    # payload sizes around the points where the offset width changes (128 / 256 bytes; doubled by cache bits)
    specs = []
    for k, lens in ((1, range(118, 128)), (2, range(56, 68)), (4, range(58, 64)), (3, (10, 40, 84))):
        for L in lens:
            spec = [{'k': 'o', 'b': [8 * L, 2, L + j], 'r': []} for j in range(k)]
            spec.append({'k': 'o', 'b': [7, 2, L], 'r': list(range(k))})
            specs.append(spec)
    if tier != 'quick':
        big = [{'k': 'o', 'b': [1008, 2, 0], 'r': []}]
        for j in range(1, 262):
            big.append({'k': 'o', 'b': [1000 - (j % 3) * 8, 2, j], 'r': [j - 1]})
        specs += [big[:258], big[:260], big]
    for spec in specs:
        for i in range(len(OPTSETS)):
            for j in range(len(OPTSETS)):
                if i != j:
                    yield {'spec': spec, 'first': i, 'second': j}
    # calls that differ in the 2-bit `flags` argument only (and a few mixed pairs), on small bags and on chains of 33 / 40 / 70 cells
    chains = []
    for n in (2, 33, 40, 70):
        ch = [{'k': 'o', 'b': [16, 2, n], 'r': []}]
        for j in range(1, n):
            ch.append({'k': 'o', 'b': [8 + j % 5, 2, j], 'r': [j - 1]})
        chains.append(ch)
    for spec in chains + specs[:2]:
        for i, j in ((0, 6), (6, 0), (0, 8), (8, 6), (3, 7), (7, 3), (6, 8), (1, 6), (6, 5)):
            yield {'spec': spec, 'first': i, 'second': j}


# --------------------------------------------------------------------------------------------------
# level arguments of every size, on cells of every level mask: what a call returns does not depend on the calls made before it

LV_KINDS = ('hash', 'depth', 'apply', 'significant')
LV_ROUTES = ('builder', 'tvm', 'plain')
LV_FAR = (47, 48, 63, 64, 65, 127, 128, 255, 256, 1000, 65536)
LV_GRID = tuple(range(4, 41)) + LV_FAR + (-1,)


def _lv_class(lv):
    return 'negative' if lv < 0 else '0..3' if lv <= 3 else '4..7' if lv <= 7 else '8..40' if lv <= 40 else '>40'


def _lv_deps(node):
    """indices of the nodes whose LIBRARY cells are the children of this node's cell, in the order of the children"""
    k = node['k']
    if k == 'o':
        return list(node['r'])
    if k == 'mp':
        return [node['r']]
    if k == 'mu':
        return list(node['r'])
    return []                       # 'p' / 'P' / 'l': no children (a 'p' node is computed from the reference cell it prunes)


def _lv_closure(spec, node):
    need, stack = set(), [node]
    while stack:
        k = stack.pop()
        if k not in need:
            need.add(k)
            stack.extend(_lv_deps(spec[k]))
    return sorted(need)


def _lv_make(L, r, refs, route):
    t = r.type
    if route == 'builder':
        b = L.Builder(type_=t)
        b.store_bits(r.bits)
        for x in refs:
            b.store_ref(x)
        return b.end_cell()
    if route == 'tvm':
        ba = L.TvmBitarray(1023)
        ba.extend(r.bits)
        return L.Cell(ba, list(refs), t)
    return L.Cell(L.bitarray(r.bits), list(refs), t)


def _lv_created(c):
    """what a caller sees of a cell right after it was created: its level mask and its hash / depth at the four levels that exist"""
    return 'mask=%d h=%s d=%s' % (c.level_mask.mask, ','.join(c.get_hash(i).hex() for i in range(4)),
                                  ','.join(str(c.get_depth(i)) for i in range(4)))


def _lv_created_ref(r):
    return 'mask=%d h=%s d=%s' % (r.mask(), ','.join(r.H(i).hex() for i in range(4)), ','.join(str(r.D(i)) for i in range(4)))


def _lv_ask(c, kind, lv):
    def f():
        if kind == 'hash':
            return c.get_hash(lv).hex()
        if kind == 'depth':
            return str(c.get_depth(lv))
        if kind == 'apply':
            before = c.level_mask.mask
            lm = c.level_mask.apply(lv)
            return '%d/%d/%d/%d/%s' % (lm.mask, lm.get_hash_index(), lm.get_level(), lm.level, c.level_mask.mask == before)
        return str(bool(c.level_mask.is_significant(lv)))
    ok, v = call(f)
    return v if ok else 'raises'


def _lv_ask_ref(r, kind, lv):
    """the same question put to the reference model (harness/ref/refcell.py): used as a FILTER only - a difference is reported
    only when a fresh process, asked the same single question, answers differently from this process"""
    if lv < 0:
        return 'raises'
    m = r.mask()
    if kind == 'hash':
        return r.H(lv).hex()
    if kind == 'depth':
        return str(r.D(lv))
    if kind == 'apply':
        e = m & ((1 << lv) - 1)
        return '%d/%d/%d/%d/True' % (e, bin(e).count('1'), e.bit_length(), e.bit_length())
    return str(lv == 0 or (m >> (lv - 1)) % 2 != 0)


def _lv_child():
    """runs in a fresh interpreter: creates the cells the question needs (nothing else) and answers the one question"""
    import sys
    import json
    from harness.gen import dag
    q = json.loads(sys.stdin.read())
    spec = q['spec']
    cells = dag.build_ref(spec)
    L = _Lib()
    lib = {}
    out = None
    for k in _lv_closure(spec, q['node']):
        ok, c = call(_lv_make, L, cells[k], [lib[i] for i in _lv_deps(spec[k])], q['route'])
        if not ok:
            out = 'raises' if (k == q['node'] and q['kind'] == 'create') else 'cannot-build'
            break
        lib[k] = c
    if out is None:
        c = lib[q['node']]
        if q['kind'] == 'create':
            ok, v = call(_lv_created, c)
            out = v if ok else 'raises'
        else:
            out = _lv_ask(c, q['kind'], q['level'])
    sys.stdout.write('RESULT ' + out + '\n')


def _lv_fresh(spec, route, node, kind, level):
    """answer of a fresh process to one question (None when the child could not be run or could not build the cells)"""
    import json
    import subprocess
    import sys
    from harness.core import REPO, VERIF
    prog = 'import sys; sys.path[:0] = [%r, %r]; from harness.props.c08 import _lv_child; _lv_child()' % (REPO, VERIF)
    try:
        p = subprocess.run([sys.executable] + (['-O'] if sys.flags.optimize else []) + ['-c', prog],
                           input=json.dumps({'spec': spec, 'route': route, 'node': node, 'kind': kind, 'level': level}),
                           capture_output=True, text=True, timeout=120)
    except Exception:
        return None
    for line in p.stdout.splitlines():
        if line.startswith('RESULT '):
            r = line[7:]
            return None if r == 'cannot-build' else r
    return None


def check_levels(case):
    """Cells of every level mask are created one after the other; between (asks 'early') or after the creations the caller asks
    cells for their hash / depth / applied mask at levels of every size (the library accepts any level: a level at or above the
    cell's own means the representation hash; negative levels raise). Then every cell is created a second time (other route) and
    every question is asked again. Whatever this process answers must be what a FRESH process answers to that one question.
    The reference model predicts the answer; only where the process disagrees with the prediction a fresh process is started,
    and only a difference between the two processes is a violation ('.../history-dependent')."""
    from harness.core import note
    from harness.gen import dag
    L = _Lib()
    spec, route, route2 = case['spec'], case['route'], case['route2']
    n = len(spec)
    cells = dag.build_ref(spec)
    asks = [(a[0] % n, a[1], a[2]) for a in case['asks']]
    budget = [4]                       # fresh processes per case
    agreed = set()

    def judge(node, kind, lv, got, want, rt, when):
        """None | Fail; `got` differs from the model's `want`"""
        key = (node, kind, lv, rt, got)
        if key in agreed:
            return None
        if budget[0] <= 0:
            note('levels:fresh-process-budget-used-up')
            return None
        budget[0] -= 1
        fresh = _lv_fresh(spec, rt, node, kind, lv)
        if fresh is None:
            note('levels:fresh-process-not-available')
            return None
        if fresh == got:
            agreed.add(key)
            note('levels:differs-from-the-model-in-every-process(not-judged-here)')
            return None
        what = 'create' if kind == 'create' else {'hash': 'get_hash', 'depth': 'get_depth', 'apply': 'LevelMask.apply',
                                                  'significant': 'LevelMask.is_significant'}[kind]
        cls = ('mask-%d' % cells[node].mask()) if kind == 'create' else 'level-' + _lv_class(lv)
        return Fail(f'{what}/history-dependent/{cls}',
                    f'{when}: node {node} ({spec[node]["k"]}, level mask {cells[node].mask()}, route {rt}) '
                    f'{what}{"" if kind == "create" else "(" + str(lv) + ")"} -> {_clip(got, 100)} in this process, '
                    f'{_clip(fresh, 100)} in a fresh process that made no other call (model: {_clip(want, 100)})')

    def create(k, lib, rt, when):
        deps = [lib[i] for i in _lv_deps(spec[k])]
        if any(d is None for d in deps):
            return None, None
        ok, c = call(_lv_make, L, cells[k], deps, rt)
        got = 'raises'
        if ok:
            ok2, got = call(_lv_created, c)
            if not ok2:
                got = 'raises'
        want = _lv_created_ref(cells[k])
        f = judge(k, 'create', 0, got, want, rt, when) if got != want else None
        return (c if ok else None), (f, got)

    def ask_all(which, lib, when):
        for node, kind, lv in which:
            c = lib[node]
            if c is None:
                continue
            got = _lv_ask(c, kind, lv)
            want = _lv_ask_ref(cells[node], kind, lv)
            if got != want:
                f = judge(node, kind, lv, got, want, route, when)
                if f is not None:
                    return f
        return None

    lib1, res1 = [None] * n, [None] * n
    for k in range(n):
        lib1[k], r = create(k, lib1, route, 'first creation')
        if r is not None:
            if r[0] is not None:
                return r[0]
            res1[k] = r[1]
        if case['early']:
            f = ask_all([a for a in asks if a[0] == k], lib1, 'asked right after the cell was created')
            if f is not None:
                return f
    if not case['early']:
        f = ask_all(asks, lib1, 'asked after all cells were created')
        if f is not None:
            return f
    lib2 = [None] * n
    for k in range(n):
        lib2[k], r = create(k, lib2, route2, 'second creation (after the questions)')
        if r is not None:
            if r[0] is not None:
                return r[0]
            if res1[k] is not None and r[1] != res1[k]:
                return Fail(f'create/history-dependent/mask-{cells[k].mask()}/same-process',
                            f'node {k} ({spec[k]["k"]}) created before the questions: {_clip(res1[k], 120)}; an equal cell created '
                            f'after them: {_clip(r[1], 120)}')
    f = ask_all(asks, lib1, 'asked again at the end, of the cells created first')
    if f is not None:
        return f
    for k in range(n):                                        # the cells created first are what they were (I1)
        if lib1[k] is not None and res1[k] is not None:
            ok, now = call(_lv_created, lib1[k])
            if not ok or now != res1[k]:
                return Fail('cell-changed/after-get_hash-or-get_depth-with-a-level-argument/hash',
                            f'node {k} ({spec[k]["k"]}, mask {cells[k].mask()}): {_clip(res1[k], 120)} -> {_clip(now if ok else "raises", 120)}')
    return None


def _lv_spec(order, seed, tail=True):
    """one ordinary leaf, a pruned branch of every level mask in `order`, a library cell, an ordinary parent over every pruned
    branch (same mask), Merkle proofs over two of them (mask >> 1), a Merkle update and a pruned branch of the ordinary leaf"""
    spec = [{'k': 'o', 'b': [13, 2, seed], 'r': []}]
    for m in order:
        spec.append({'k': 'P', 'm': m, 's': '%08x' % ((seed * 8 + m) % 2 ** 32), 'd': [m, 300 + m, 7]})
    spec.append({'k': 'l', 's': '%08x' % (seed % 2 ** 32)})
    if tail:
        for j in range(1, len(order) + 1):
            spec.append({'k': 'o', 'b': [9 + j, 2, seed + j], 'r': [0, j]})
        spec.append({'k': 'mp', 'r': len(order)})
        spec.append({'k': 'mp', 'r': 1})
        if len(order) >= 2:
            spec.append({'k': 'mu', 'r': [2, 1]})
        spec.append({'k': 'p', 'of': 0, 'x': seed % 3})
        spec.append({'k': 'o', 'b': [5, 2, seed + 99], 'r': [len(spec) - 1, len(spec) - 2, 0]})
    return spec


def enum_levels(tier):
    orders = [(1, 2, 3, 4, 5, 6, 7), (7, 6, 5, 4, 3, 2, 1)]
    i = 0
    for lv in LV_GRID:
        for early in (True, False):
            spec = _lv_spec(orders[i % 2], i)
            n = len(spec)
            kinds = LV_KINDS if tier != 'quick' else (('hash', 'apply') if i % 2 else ('depth', 'hash', 'significant'))
            asks = [[k, kind, lv] for k in range(n) for kind in kinds]
            yield {'spec': spec, 'route': LV_ROUTES[i % 3], 'route2': LV_ROUTES[(i // 3) % 3], 'early': early, 'asks': asks}
            i += 1
    # two far levels in one history (a coincidence may need both), few cells
    for a, b in ((8, 9), (9, 17), (4, 12), (16, 32), (5, 64), (33, 10), (12, 4)):
        for early in (True, False):
            spec = _lv_spec((1, 2, 4, 3, 7), a * 100 + b, tail=False)
            asks = [[k, kind, lv] for k in range(len(spec)) for lv in (a, b) for kind in ('hash', 'depth')]
            yield {'spec': spec, 'route': 'builder', 'route2': 'tvm', 'early': early, 'asks': asks}


def _st_level():
    return st.one_of(st.integers(0, 3), st.integers(4, 7), st.integers(8, 40), st.integers(8, 40), st.sampled_from(LV_FAR),
                     st.integers(-3, -1))


@st.composite
def _st_levels_case(draw):
    from harness.gen import dag
    if draw(st.booleans()):
        spec = _lv_spec(tuple(draw(st.permutations([1, 2, 3, 4, 5, 6, 7]))[:draw(st.integers(1, 7))]), draw(st.integers(0, 2 ** 20)),
                        tail=draw(st.booleans()))
    else:
        spec = draw(dag.st_exotic_dag(max_nodes=8, max_len=64))
    n = len(spec)
    asks = draw(st.lists(st.tuples(st.integers(0, n - 1), st.sampled_from(LV_KINDS), _st_level()).map(list), min_size=1, max_size=12))
    return {'spec': spec, 'route': draw(st.sampled_from(LV_ROUTES)), 'route2': draw(st.sampled_from(LV_ROUTES)),
            'early': draw(st.booleans()), 'asks': asks}


def classify_levels(case):
    yield 'asks:' + ('between-the-creations' if case['early'] else 'after-the-creations')
    for cls in sorted({_lv_class(a[2]) for a in case['asks']}):
        yield 'level:' + cls
    for kind in sorted({a[1] for a in case['asks']}):
        yield 'ask:' + kind
    kinds = {nd['k'] for nd in case['spec']}
    for k in sorted(kinds):
        yield 'cell-kind:' + k
    masks = {nd['m'] for nd in case['spec'] if nd['k'] == 'P'}
    yield 'pruned-masks-present:' + ('all-seven' if len(masks) == 7 else str(len(masks)))
    yield 'routes:' + ('same' if case['route'] == case['route2'] else 'different')


def nontrivial_levels(case):
    return any(a[2] > 3 for a in case['asks']) and any(nd['k'] in ('p', 'P') for nd in case['spec'])


# --------------------------------------------------------------------------------------------------
# an object is used, dies, and the next object of its type and size - other content - is created at its address

RU_OPTS = [tuple(map(bool, o)) + (0,) for o in OPTSETS] + [(False, False, False, 2), (True, True, False, 1)]
RU_CELL_ROUTES = ('end_cell', 'Cell', 'copy', 'to_cell')
RU_TRIES = 64


def _ru_kids(L, seed, leaves, top):
    if not leaves:
        return []
    level = [L.Builder().store_uint(seed, 32).store_uint(i, 32).end_cell() for i in range(leaves)]
    while len(level) > top:
        nxt = []
        for i in range(0, len(level), 4):
            b = L.Builder().store_uint(len(level), 16)
            for c in level[i:i + 4]:
                b.store_ref(c)
            nxt.append(b.end_cell())
        level = nxt
    return level


def _ru_factory(L, tag, kids, route):
    """zero-argument callable that creates a NEW root object (4 data bits `tag` over `kids`) on every call; everything the
    creation needs is prepared here, so that (nearly) nothing but the new object is allocated by the call"""
    b = L.Builder().store_uint(tag, 4)
    for c in kids:
        b.store_ref(c)
    if route == 'end_cell':
        return b.end_cell
    if route == 'copy':
        return b.end_cell().copy
    if route == 'to_cell':
        return b.to_slice().to_cell
    if route == 'one_from_boc':
        data = b.end_cell().to_boc()
        return lambda: L.Cell.one_from_boc(data)
    bits = format(tag, '04b')

    def mk():
        ba = L.TvmBitarray(1023)
        ba.extend(bits)
        return L.Cell(ba, list(kids), -1)
    return mk


def _ru_digest(seq):
    import hashlib
    h = hashlib.sha256()
    n = 0
    for x in seq:
        h.update(x)
        n += 1
    return f'{n}:{h.hexdigest()}'


def _ru_obs_cell(L, c, opts, focus_first):
    """observations of a cell as plain values (nothing in the result refers to the cell)"""
    out = {}

    def put(name, f):
        ok, v = call(f)
        out[name] = v if ok else 'raises'
        v = None
    focus = ('to_boc%r' % (opts,), lambda: c.to_boc(*opts))
    rest = [('hash', lambda: c.hash), ('to_boc()', lambda: c.to_boc()), ('order', lambda: _ru_digest(x.hash for x in c.order())),
            ('repr', lambda: repr(c)), ('data', lambda: c.data), ('get_hash(0)', lambda: c.get_hash(0)),
            ('get_depth(3)', lambda: c.get_depth(3)), ('begin_parse', lambda: (lambda s: (s.bits.to01(), [r.hash for r in s.refs]))(c.begin_parse())),
            ('copy', lambda: c.copy().hash), ('to_builder', lambda: c.to_builder().end_cell().hash),
            ('calculate_representation_hash', c.calculate_representation_hash), ('hash()', lambda: hash(c))]
    for name, f in ([focus] + rest if focus_first else rest + [focus]):
        put(name, f)
    return out


def _ru_obs_slice(L, s):
    out = {}

    def put(name, f):
        ok, v = call(f)
        out[name] = v if ok else 'raises'
        v = None
    for name, f in (('to_cell', lambda: s.to_cell().hash), ('repr', lambda: repr(s)), ('copy', lambda: _World._sstate(s.copy())),
                    ('to_builder', lambda: s.to_builder().end_cell().hash), ('load_uint(4)', lambda: s.load_uint(4)),
                    ('load_ref', lambda: s.load_ref().hash), ('rest', lambda: _World._sstate(s)), ('to_cell-after', lambda: s.to_cell().hash)):
        put(name, f)
    return out


def _ru_obs_builder(L, b, leaf):
    out = {}

    def put(name, f):
        ok, v = call(f)
        out[name] = v if ok else 'raises'
        v = None
    for name, f in (('end_cell', lambda: b.end_cell().hash), ('to_slice', lambda: _World._sstate(b.to_slice())), ('repr', lambda: repr(b)),
                    ('store', lambda: b.store_uint(5, 3).store_ref(leaf).end_cell().hash), ('state', lambda: _World._bstate(b))):
        put(name, f)
    return out


def _ru_again(make, dead_id, spares=None):
    """objects are created until one lands at the address of the dead one (those that do not are kept alive meanwhile, so that
    they do not hand their own block to the next attempt); None when it never happens. `spares`: objects of the dead one's type and
    size nobody else refers to; one of them is dropped after every miss - its block is handed out before the dead one's, i.e. to a
    temporary of that size the creation may need before it allocates the object itself."""
    others = []
    for _ in range(RU_TRIES):
        x = make()
        if id(x) == dead_id:
            return x, len(others)
        others.append(x)
        if spares:
            spares.pop()
    return None, len(others)


def check_reuse(case):
    """A is created, used (observed) and dropped - no other reference to it exists; B, of the same type and size but with other
    content, is then created, and creations are repeated until B's address is A's (CPython hands a freed block to the next object
    of the same size). B is observed, the call made last on A first. Oracle: T, equal to B, created and observed before A existed
    and still alive (so never at A's address): B's observations equal T's. What remembers results by id(object) fails exactly here."""
    from harness.core import note
    L = _Lib()
    kind, route, seed = case['kind'], case['route'], case['seed']
    opts = tuple(RU_OPTS[case['k'] % len(RU_OPTS)])
    kids_a = _ru_kids(L, 2 * seed + 1, case['leaves'], case['top'])
    kids_b = _ru_kids(L, 2 * seed + 2, case['leaves'], case['top'])
    tag_a, tag_b = 0xA, 0xB

    def compare(exp, got, what):
        for name in exp:
            if exp[name] != got.get(name):
                return Fail(f'{name.split("(")[0]}/depends-on-an-object-that-died/{what}',
                            f'{what}, {case["leaves"]} leaves: an object was used and dropped, the next one was created at its address: '
                            f'{name} -> {_clip(got.get(name), 90)}; an equal object elsewhere in memory -> {_clip(exp[name], 90)}')
        return None

    if kind == 'cell':
        make_a, make_b = _ru_factory(L, tag_a, kids_a, route), _ru_factory(L, tag_b, kids_b, route)
        twin = make_b()
        exp = _ru_obs_cell(L, twin, opts, True)
        spares = [make_a() for _ in range(6)]
        a = make_a()
        _ru_obs_cell(L, a, opts, False)
        dead = id(a)
        del a
        b, misses = _ru_again(make_b, dead, spares)
        if b is None:
            note('reuse:address-not-reused:cell')
            return None
        note('reuse:address-reused:cell')
        got = _ru_obs_cell(L, b, opts, True)
        f = compare(exp, got, f'cell-via-{route}')
        if f is not None:
            return f
        name = 'to_boc%r' % (opts,)
        if isinstance(got[name], bytes):
            ok, back = call(L.Cell.one_from_boc, got[name])
            if not ok or back.hash != b.hash:
                return Fail(f'to_boc/depends-on-an-object-that-died/cell-via-{route}/round-trip', 'the bag does not parse back to the cell')
        return None

    ra = _ru_factory(L, tag_a, kids_a, 'end_cell')()
    rb = _ru_factory(L, tag_b, kids_b, 'end_cell')()
    if kind == 'slice':
        mk_a, mk_b = {'begin_parse': (ra.begin_parse, rb.begin_parse), 'to_slice': (ra.to_builder().to_slice, rb.to_builder().to_slice),
                      'copy': (ra.begin_parse().copy, rb.begin_parse().copy)}[route]
        exp = _ru_obs_slice(L, mk_b())
        twin = mk_b()                                       # one more live slice of B, never touched: stays what it is
        twin_state = _World._sstate(twin)
        spares = [mk_a() for _ in range(6)]
        a = mk_a()
        _ru_obs_slice(L, a)
        dead = id(a)
        del a
        b, misses = _ru_again(mk_b, dead, spares)
        if b is None:
            note('reuse:address-not-reused:slice')
            return None
        note('reuse:address-reused:slice')
        got = _ru_obs_slice(L, b)
        f = compare(exp, got, f'slice-via-{route}')
        if f is None and _World._sstate(twin) != twin_state:
            f = Fail('derived-changed/slice/after-an-object-died', 'an untouched slice changed')
        return f
    if kind == 'builder':
        leaf = _marker_cell()
        mk_a, mk_b = {'to_builder': (ra.to_builder, rb.to_builder), 'slice.to_builder': (ra.begin_parse().to_builder, rb.begin_parse().to_builder),
                      'store_cell': (lambda: L.Builder().store_cell(ra), lambda: L.Builder().store_cell(rb))}[route]
        exp = _ru_obs_builder(L, mk_b(), leaf)
        spares = [mk_a() for _ in range(6)]
        a = mk_a()
        _ru_obs_builder(L, a, leaf)
        dead = id(a)
        del a
        b, misses = _ru_again(mk_b, dead, spares)
        if b is None:
            note('reuse:address-not-reused:builder')
            return None
        note('reuse:address-reused:builder')
        return compare(exp, _ru_obs_builder(L, b, leaf), f'builder-via-{route}')
    if kind == 'input':
        # the caller's bytes / text that a bag is parsed from: same length, other content, at the address of the one parsed before
        import base64
        boc_a, boc_b = ra.to_boc(*opts), rb.to_boc(*opts)
        if len(boc_a) != len(boc_b):
            return None
        # every call gives a NEW object (and allocates no other object of that size on the way)
        conv = {'bytes': lambda d: bytes(memoryview(d)), 'bytearray': bytearray, 'hex': lambda d: d.hex(),
                'base64': lambda d: base64.b64encode(d).decode()}[route]

        def parse(x):
            ok, r = call(L.Cell.from_boc, x)
            return [c.hash for c in r] if ok else 'raises'
        twin = conv(boc_b)
        exp = {'from_boc': parse(twin)}
        spares = [conv(boc_a) for _ in range(6)]
        a = conv(boc_a)
        if parse(a) == 'raises':
            return None                                       # this input form is not accepted at all
        dead = id(a)
        del a
        b, misses = _ru_again(lambda: conv(boc_b), dead, spares)
        if b is None:
            note('reuse:address-not-reused:input')
            return None
        note('reuse:address-reused:input')
        got = {'from_boc': parse(b)}
        f = compare(exp, got, f'input-{route}')
        if f is None and got['from_boc'] != [rb.hash]:
            f = Fail(f'from_boc/depends-on-an-object-that-died/input-{route}/round-trip', 'the bag of a cell parses to another cell')
        return f
    raise ValueError(kind)


def enum_reuse_address(tier):
    sizes = (0, 3, 64, 2048) if tier == 'quick' else (0, 1, 3, 17, 64, 300, 1100, 2048, 6144)
    seed = 0
    for leaves in sizes:
        big = leaves >= 1000
        for route in RU_CELL_ROUTES + (('one_from_boc',) if leaves == 0 else ()):
            ks = (0, 3) if big and tier == 'quick' and route == 'end_cell' else (0,) if big else range(len(RU_OPTS))
            for k in ks:
                for top in ((2,) if big or not leaves else (1, 4)):
                    seed += 1
                    yield {'kind': 'cell', 'route': route, 'leaves': leaves, 'top': top, 'k': k, 'seed': seed}
        if not big:
            for route in ('begin_parse', 'to_slice', 'copy'):
                seed += 1
                yield {'kind': 'slice', 'route': route, 'leaves': leaves, 'top': 3, 'k': 0, 'seed': seed}
            for route in ('to_builder', 'slice.to_builder', 'store_cell'):
                seed += 1
                yield {'kind': 'builder', 'route': route, 'leaves': leaves, 'top': 3, 'k': 0, 'seed': seed}
        for route in ('bytes', 'bytearray', 'hex', 'base64'):
            if big and tier == 'quick' and route != 'bytes':
                continue
            for k in ((0,) if big else (0, 3, 5)):
                seed += 1
                yield {'kind': 'input', 'route': route, 'leaves': leaves, 'top': 2, 'k': k, 'seed': seed}


def classify_reuse(case):
    yield f'dies:{case["kind"]}:via-{case["route"]}'
    lv = case['leaves']
    yield 'bag:' + ('1-cell' if not lv else '<100-cells' if lv <= 64 else '<2048-cells' if lv < 1500 else '>=2048-cells' if lv < 3000 else '>=8000-cells')
    if case['kind'] in ('cell', 'input'):
        yield 'to_boc-options:%r' % (RU_OPTS[case['k'] % len(RU_OPTS)],)


SUBCHECKS = [
    Sub('constructor-lengths', check_program, enum=enum_lengths, classify=classify, nontrivial=nontrivial, shards=(16, 16),
        exhaustive=True,
        note='every length 0..1023 x {Cell(plain bitarray), Cell(TvmBitarray)} x {random, zero} bits, leaf or parent'),
    Sub('derive-mutate-grid', check_program, enum=enum_grid, classify=classify, nontrivial=nontrivial, shards=(8, 8),
        exhaustive=True, note='construction route x derivation chain x every load / store method, then observations'),
    Sub('reuse-and-reentrancy-grid', check_program, enum=enum_reuse, classify=classify, nontrivial=nontrivial, shards=(8, 8),
        exhaustive=True, note='a HashMap object serialized, changed (map edit / in-place change of a value / serializer state), serialized '
                              'again vs an equal object never serialized; a library call made inside a value (de)serializer vs made beforehand'),
    Sub('programs-random', check_program, strategy=strat_programs, classify=classify, nontrivial=nontrivial,
        n=(8000, 100000), shards=(16, 48)),
    Sub('to_boc-order-independence', check_boc_order, enum=enum_boc_order, shards=(8, 16), exhaustive=True,
        note='every ordered pair of the 6 option sets on the same cell vs a fresh equal cell; payloads around 128 / 256 bytes '
             '(thorough: 32768) where the offset width changes'),
    Sub('history-independence', check_history, strategy=strat_history, classify=classify_history,
        nontrivial=nontrivial_history, n=(3000, 30000), shards=(16, 32)),
    Sub('level-arguments-grid', check_levels, enum=enum_levels, classify=classify_levels, nontrivial=nontrivial_levels, shards=(4, 8),
        note='cells of every level mask 0..7 (ordinary, pruned, library, Merkle) x one level argument 4..40 / 47..65536 / -1 given to '
             'get_hash / get_depth / LevelMask.apply / is_significant on every cell, between or after the creations; every cell created '
             'again afterwards; oracle = the reference model as a filter, then ONE fresh process asked the one question'),
    Sub('level-arguments-random', check_levels, strategy=lambda tier: _st_levels_case(), classify=classify_levels,
        nontrivial=nontrivial_levels, n=(500, 8000), shards=(8, 16)),
    Sub('dead-object-address-reuse', check_reuse, enum=enum_reuse_address, classify=classify_reuse, shards=(8, 16), case_cpu_s=90,
        note='an object (root cell of a bag of 1 .. 2731 cells (thorough: 8193) via end_cell / Cell() / copy / to_cell / one_from_boc; '
             'slice; builder; the bytes / bytearray / hex / base64 input of from_boc) is used and dropped, the next one of the same type '
             'and size is created AT ITS ADDRESS (checked with id()) and observed - against an equal object alive elsewhere'),
]

# the same generated cases, several at a time, checked by threads that run at the same time (core.run_overlapping): per-call state
# kept in a place two calls share shows only there
SUBCHECKS.append(__import__('harness.core', fromlist=['overlapped']).overlapped(next(s for s in SUBCHECKS if s.name == 'programs-random'), k=3, n=(40, 1200)))
