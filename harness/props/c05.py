"""
C05 — BoC parser agrees with the format on foreign input and rejects corruption.

Positive: harness/ref/refboc.encode with every encoder freedom drawn independently (magic generic / lean idx / lean idx+crc,
size in [min..4], off_bytes in [min..8], index, cache bits (with index), CRC, stored hashes on a random subset of cells,
1..4 roots (distinct or repeated), random linear extension as cell order)  =>  Cell.from_boc(bytes) returns exactly the
denoted roots (hash + deep structure), in order.
Negative (each must raise some exception, never return): every proper prefix, 1..8 appended bytes, with CRC present
every single-bit flip, reference index rewritten to >= cells (dangling), < own index (backward), = own index (self)
with the CRC recomputed or absent.
Not asserted: rejection of other malformed input (bad completion tag, non-zero flags, absent cells).
One-directional fuzz: for randomly byte-mutated encodings, if the strict reference decoder accepts, the library must
return the same roots; otherwise nothing is asserted (except termination under the CPU ceiling).
"""
from hypothesis import strategies as st
from harness.core import Sub, Fail, call, exc_sig
from harness.gen import dag, boccases
from harness.ref import refcell as rc, refboc
from harness.ref.refcrc import crc32c

RULE = ('positive case = DAG spec + encoder freedoms (magic, size/off_bytes slack, idx, cache bits, crc, stored-hash subset, '
        'root list, order priorities); negative case = such an encoding + a corruption family (all proper prefixes; 1..8 '
        'appended bytes; all single-bit flips when CRC-protected; dangling/backward/self reference rewrite). '
        'non-trivial = uses a freedom the library\'s own writer never uses (lean magic, slack widths, stored hashes, '
        'several roots, non-default order) or is a corruption case; distinct = distinct case')
ASSUMPTIONS = ['harness/ref/refboc.py transcription of crypto/tl/boc.tlb', 'refcell.py for denoted hashes']


def _encode(case, cells, ref_override=None, force_crc=None):
    e = case['enc']
    roots = [cells[i % len(cells)] for i in case['roots']]
    magic = e['magic']
    crc = bool(e.get('crc')) if force_crc is None else force_crc
    if magic != 'generic':
        roots = roots[:1]
        if force_crc:
            magic = 'idx_crc'
    order = refboc.linear_extension(roots, e.get('prio') or [0])
    n = len(order)
    if len(roots) > n:  # boc.tlb: roots + absent <= cells — keep the distinct roots only (all cells stay reachable)
        seen = set()
        roots = [r for r in roots if not (r.repr_hash() in seen or seen.add(r.repr_hash()))]
    size = min(4, refboc.min_bytes(n) + e.get('size_extra', 0))
    has_idx = bool(e.get('idx')) or magic != 'generic'
    cache = bool(e.get('cache')) and has_idx and magic == 'generic'
    hs = {h % n for h in e.get('hashes', [])}
    # off_bytes needs the payload size: encode once with default, then with slack
    probe = refboc.encode(roots, magic=magic, size=size, has_idx=has_idx, has_cache_bits=cache, has_crc=crc,
                          with_hashes=hs, order=order)
    moff = probe[5]
    off = min(8, moff + e.get('off_extra', 0))
    data = refboc.encode(roots, magic=magic, size=size, off_bytes=off, has_idx=has_idx, has_cache_bits=cache, has_crc=crc,
                         with_hashes=hs, order=order, cache_bits={c % n for c in e.get('cachesel', [])},
                         ref_override=ref_override)
    return data, roots, order, size


def check_pos(case):
    from pytoniq_core.boc.cell import Cell
    cells = dag.build_ref(case['spec'])
    data, roots, order, size = _encode(case, cells)
    # the encoding itself must be accepted by the strict reference (self-check of the generator)
    h = refboc.decode_strict(data)
    assert [c.repr_hash() for c in h['root_cells']] == [r.repr_hash() for r in roots]
    e = case['enc']
    ok, got = call(Cell.from_boc, data)
    feat = 'lean-magic' if e['magic'] != 'generic' else 'stored-hashes' if e.get('hashes') else 'generic'
    if not ok:
        return Fail(f'valid-encoding-rejected/{feat}/{type(got).__name__}', f'{exc_sig(got)}: {got!r}; enc={e} boc={data.hex()[:300]}')
    if not isinstance(got, list) or len(got) != len(roots):
        return Fail(f'roots/count-differs/{feat}', f'{len(got) if isinstance(got, list) else got!r} vs {len(roots)}; enc={e} boc={data.hex()[:300]}')
    for k, (r, l) in enumerate(zip(roots, got)):
        if l.hash != r.repr_hash():
            return Fail(f'roots/hash-differs/{feat}', f'root {k}; enc={e} boc={data.hex()[:300]}')
        diff = rc.structurally_equal_lib(r, l)
        if diff:
            return Fail(f'roots/structure-differs/{feat}', f'root {k}: {diff}; enc={e}')
    return None


def _must_raise(data, what):
    from pytoniq_core.boc.cell import Cell
    ok, got = call(Cell.from_boc, data)
    if ok:
        return Fail(f'corruption-accepted/{what.split(":")[0]}', f'{what}: returned {got!r} for boc={data.hex()[:400]}')
    return None


def check_neg(case):
    cells = dag.build_ref(case['spec'])
    fam = case['fam']
    if fam in ('prefix', 'extend'):
        data, *_ = _encode(case, cells)
        if fam == 'prefix':
            pos = range(len(data)) if len(data) <= 300 else sorted({p % len(data) for p in case['pos']} | set(range(12)) | {len(data) - k for k in range(1, 9)})
            for p in pos:
                f = _must_raise(data[:p], f'truncated:{p}/{len(data)}')
                if f:
                    return f
        else:
            for k in range(1, 9):
                tail = bytes((case['pos'][j % len(case['pos'])] + j) & 0xFF for j in range(k))
                f = _must_raise(data + tail, f'extended:+{k}')
                if f:
                    return f
                f = _must_raise(data + b'\x00' * k, f'extended:+{k} zero bytes')
                if f:
                    return f
        return None
    if fam == 'bitflip':
        data, *_ = _encode(case, cells, force_crc=True)
        nb = len(data) * 8
        bits = range(nb) if len(data) <= 150 else sorted({p % nb for p in case['pos']} | set(range(64)) | set(range(nb - 40, nb)))
        for b in bits:
            mut = bytearray(data)
            mut[b // 8] ^= 0x80 >> (b % 8)
            f = _must_raise(bytes(mut), f'bitflip:{b}/{nb}')
            if f:
                return f
        return None
    if fam in ('dangling', 'backward', 'self'):
        data0, roots, order, size = _encode(case, cells)
        n = len(order)
        cand = [(ci, rj) for ci, c in enumerate(order) for rj in range(len(c.refs))]
        if not cand:
            return None
        ci, rj = cand[case['pos'][0] % len(cand)]
        if fam == 'dangling':
            v = n + case['pos'][1] % max(1, min(256 ** size - n, 1000))
            if v >= 256 ** size:
                return None
        elif fam == 'self':
            v = ci
        else:
            if ci == 0:
                return None
            v = case['pos'][1] % ci
        data, *_ = _encode(case, cells, ref_override={(ci, rj): v})
        return _must_raise(data, f'{fam}-reference:cell {ci} ref {rj} -> {v} (cells={n}, crc={"yes" if case["enc"].get("crc") else "no"})')
    raise ValueError(fam)


def check_fuzz(case):
    from pytoniq_core.boc.cell import Cell
    cells = dag.build_ref(case['spec'])
    data, *_ = _encode(case, cells)
    mut = bytearray(data)
    for (p, v) in case['edits']:
        mut[p % len(mut)] = v
    mut = bytes(mut)
    if case.get('fixcrc') and len(mut) > 8:
        mut = mut[:-4] + crc32c(mut[:-4]).to_bytes(4, 'little')
    try:
        h = refboc.decode_strict(mut)
    except refboc.RefBocError:
        call(Cell.from_boc, mut)  # only termination (CPU ceiling) is checked
        return None
    ok, got = call(Cell.from_boc, mut)
    if not ok:
        return Fail('mutated-valid-encoding-rejected', f'{exc_sig(got)}: {got!r}; boc={mut.hex()[:300]}')
    if [g.hash for g in got] != [r.repr_hash() for r in h['root_cells']]:
        return Fail('mutated-valid-encoding/roots-differ', f'boc={mut.hex()[:300]}')
    return None


def st_enc():
    return st.fixed_dictionaries({
        'magic': st.sampled_from(['generic', 'generic', 'generic', 'idx', 'idx_crc']),
        'size_extra': st.sampled_from([0, 0, 1, 2, 3]),
        'off_extra': st.sampled_from([0, 0, 1, 3, 7]),
        'idx': st.booleans(), 'cache': st.booleans(), 'crc': st.booleans(),
        'hashes': st.one_of(st.just([]), st.lists(st.integers(0, 1000), min_size=1, max_size=6)),
        'cachesel': st.lists(st.integers(0, 1000), max_size=3),
        'prio': st.lists(st.integers(0, 1000), min_size=1, max_size=12),
    })


def st_roots():
    return st.one_of(st.just([-1]), st.just([-1]), st.lists(st.integers(0, 1000), min_size=1, max_size=4))


def strat_pos(tier):
    return st.fixed_dictionaries({'spec': boccases.st_spec(tier), 'enc': st_enc(), 'roots': st_roots()})


def strat_neg(tier):
    small = st.one_of(dag.st_ord_dag(max_nodes=8, max_len=40), dag.st_exotic_dag(max_nodes=8, max_len=40),
                      dag.st_ord_dag(max_nodes=30, max_len=300))
    return st.fixed_dictionaries({'spec': small, 'enc': st_enc(), 'roots': st_roots(),
                                  'fam': st.sampled_from(['prefix', 'extend', 'bitflip', 'dangling', 'backward', 'self',
                                                          'dangling', 'backward', 'self']),
                                  'pos': st.lists(st.integers(0, 10 ** 6), min_size=2, max_size=40)})


def strat_fuzz(tier):
    small = st.one_of(dag.st_ord_dag(max_nodes=6, max_len=24), dag.st_exotic_dag(max_nodes=6, max_len=24))
    return st.fixed_dictionaries({'spec': small, 'enc': st_enc(), 'roots': st_roots(),
                                  'edits': st.lists(st.tuples(st.integers(0, 400), st.integers(0, 255)).map(list), min_size=1, max_size=3),
                                  'fixcrc': st.booleans()})


def classify(case):
    e = case['enc']
    yield 'magic=' + e['magic']
    if e['size_extra']:
        yield 'size-slack'
    if e['off_extra']:
        yield 'off-slack'
    if e.get('hashes'):
        yield 'stored-hashes'
    if len(case['roots']) > 1:
        yield 'multi-root'
    if 'fam' in case:
        yield 'fam=' + case['fam']
    kinds, sharing = boccases.spec_stats(case['spec'])
    yield 'exotic' if kinds - {'o'} else 'ordinary'


def nt(case):
    e = case['enc']
    return ('fam' in case or 'edits' in case or e['magic'] != 'generic' or e['size_extra'] or e['off_extra'] or bool(e.get('hashes'))
            or len(case['roots']) > 1 or len(e.get('prio', [])) > 1)


SUBCHECKS = [
    Sub('foreign-encodings', check_pos, strategy=strat_pos, classify=classify, nontrivial=nt, n=(1500, 40000), shards=(16, 32)),
    Sub('corruptions', check_neg, strategy=strat_neg, classify=classify, nontrivial=nt, n=(900, 20000), shards=(16, 32), case_cpu_s=60),
    Sub('byte-mutations-one-directional', check_fuzz, strategy=strat_fuzz, classify=classify, nontrivial=nt, n=(1500, 60000), shards=(8, 32)),
]
