"""
C05 — BoC parser agrees with the format on foreign input and rejects corruption.

Positive: harness/ref/refboc.encode with every encoder freedom drawn independently (magic generic / lean idx / lean idx+crc,
size in [min..4], off_bytes in [min..8], index, cache bits (with index), CRC, stored hashes on a random subset of cells,
1..4 roots (distinct or repeated), random linear extension as cell order)  =>  Cell.from_boc(bytes) returns exactly the
denoted roots (hash + deep structure), in order.
Negative (each must raise some exception, never return): every proper prefix, 1..8 appended bytes, with CRC present
every single-bit flip, reference index rewritten to >= cells (dangling), < own index (backward), = own index (self)
with the CRC recomputed or absent.
Temporaries (both directions): programs of parses whose input objects each die before the next one is made - intact reference
encodings of 2 DAGs of the same shape (same length, other content) and their corruptions that keep the length (one flipped bit in
front of / inside the checksum field of CRC-protected input) or change it (cut, extended), as private bytes copies and as hex /
base64 text, 0.5 KB .. 550 KB (hex text of >= 2^20 characters); the next object gets the address of the dead one (counted in classes
temporaries:*). Per step: intact => exactly the denoted roots, corrupted => an exception, whatever was parsed before.
Not asserted: rejection of other malformed input (bad completion tag, non-zero flags, absent cells).
One-directional fuzz: for randomly byte-mutated encodings, if the strict reference decoder accepts, the library must
return the same roots; otherwise nothing is asserted (except termination under the CPU ceiling).
"""
from hypothesis import strategies as st
from harness.core import HarnessError, Sub, Fail, call, exc_sig
from harness.gen import dag, boccases
from harness.ref import refcell as rc, refboc
from harness.ref.refcrc import crc32c

RULE = ('positive case = DAG spec + encoder freedoms (magic, size/off_bytes slack, idx, cache bits, crc, stored-hash subset, '
        'root list, order priorities); negative case = such an encoding + a corruption family (all proper prefixes; 1..8 '
        'appended bytes; all single-bit flips when CRC-protected; dangling/backward/self reference rewrite, also on cells no root reaches; fewer cells declared than stored). positive cases are also given as bytes / str subclasses and parsed into a Cell subclass with a re-entrant constructor. '
        'temporaries: case = (cell count, cell sizes, arity, 2 content tags, encoder freedoms, program of steps (intact | one-bit flip | '
        'cut | extend, bag, form bytes/hex/base64, position)), every input object dropped before the next of the same size is made; '
        'non-trivial = uses a freedom the library\'s own writer never uses (lean magic, slack widths, stored hashes, '
        'several roots, non-default order) or is a corruption case; distinct = distinct case')
ASSUMPTIONS = ['harness/ref/refboc.py transcription of crypto/tl/boc.tlb', 'refcell.py for denoted hashes']


def _encode(case, cells, ref_override=None, force_crc=None, declared=None):
    e = case['enc']
    roots = [cells[i % len(cells)] for i in case['roots']]
    magic = e['magic']
    crc = bool(e.get('crc')) if force_crc is None else force_crc
    if magic != 'generic':
        roots = roots[:1]
        if force_crc:
            magic = 'idx_crc'
    order = refboc.linear_extension(roots, e.get('prio') or [0])
    n = len(order)
    if len(roots) > n:  # boc.tlb: roots + absent <= cells — keep the distinct roots only (all cells stay reachable)
        seen = set()
        roots = [r for r in roots if not (r.repr_hash() in seen or seen.add(r.repr_hash()))]
    size = min(4, refboc.min_bytes(n) + e.get('size_extra', 0))
    has_idx = bool(e.get('idx')) or magic != 'generic'
    cache = bool(e.get('cache')) and has_idx and magic == 'generic'
    hs = {h % n for h in e.get('hashes', [])}
    # off_bytes needs the payload size: encode once with default, then with slack
    probe = refboc.encode(roots, magic=magic, size=size, has_idx=has_idx, has_cache_bits=cache, has_crc=crc,
                          with_hashes=hs, order=order)
    moff = probe[5]
    off = min(8, moff + e.get('off_extra', 0))
    data = refboc.encode(roots, magic=magic, size=size, off_bytes=off, has_idx=has_idx, has_cache_bits=cache, has_crc=crc,
                         with_hashes=hs, order=order, cache_bits={c % n for c in e.get('cachesel', [])},
                         ref_override=ref_override, declared_cells=declared)
    return data, roots, order, size


def check_pos(case):
    from pytoniq_core.boc.cell import Cell
    cells = dag.build_ref(case['spec'])
    data, roots, order, size = _encode(case, cells)
    # the encoding itself must be accepted by the strict reference (self-check of the generator)
    h = refboc.decode_strict(data)
    assert [c.repr_hash() for c in h['root_cells']] == [r.repr_hash() for r in roots]
    e = case['enc']
    ok, got = call(Cell.from_boc, data)
    feat = 'lean-magic' if e['magic'] != 'generic' else 'stored-hashes' if e.get('hashes') else 'generic'
    if not ok:
        return Fail(f'valid-encoding-rejected/{feat}/{type(got).__name__}', f'{exc_sig(got)}: {got!r}; enc={e} boc={data.hex()[:300]}')
    if not isinstance(got, list) or len(got) != len(roots):
        return Fail(f'roots/count-differs/{feat}', f'{len(got) if isinstance(got, list) else got!r} vs {len(roots)}; enc={e} boc={data.hex()[:300]}')
    for k, (r, l) in enumerate(zip(roots, got)):
        if l.hash != r.repr_hash():
            return Fail(f'roots/hash-differs/{feat}', f'root {k}; enc={e} boc={data.hex()[:300]}')
        diff = rc.structurally_equal_lib(r, l)
        if diff:
            return Fail(f'roots/structure-differs/{feat}', f'root {k}: {diff}; enc={e}')
    # the same bytes held in a subclass of bytes / as hex or base64 text in a subclass of str, and parsed into an application's
    # own Cell subclass whose constructor parses another bag first (a parse inside a parse): the same roots
    import base64
    App = dag.cell_subclass(dag.TEMPLATE_BAG)
    for fname, thunk in (('bytes-subclass', lambda: Cell.from_boc(dag.BocBytes(data))),
                         ('hex-str-subclass', lambda: Cell.from_boc(dag.BocText(data.hex()))),
                         ('base64-str-subclass', lambda: Cell.from_boc(dag.BocText(base64.b64encode(data).decode()))),
                         ('into-Cell-subclass/re-entrant-constructor', lambda: App.from_boc(data))):
        ok, alt = call(thunk)
        if not ok:
            return Fail(f'valid-encoding-rejected/{fname}', f'{exc_sig(alt)}: {alt!r}; enc={e} boc={data.hex()[:300]}')
        if not isinstance(alt, list) or [x.hash for x in alt] != [r.repr_hash() for r in roots] or \
                any(rc.structurally_equal_lib(r, l) for r, l in zip(roots, alt)):
            return Fail(f'roots/differ/{fname}', f'{alt!r}'[:200] + f'; enc={e} boc={data.hex()[:300]}')
    # ... and on a host of the other byte order (the format is defined byte by byte)
    from harness.core import fake_byteorder
    with fake_byteorder():
        ok, alt = call(Cell.from_boc, data)
    if not ok or [x.hash for x in alt] != [r.repr_hash() for r in roots]:
        return Fail('valid-encoding-rejected-or-misread/host-of-the-other-byte-order', f'{alt!r}'[:200] + f'; enc={e} boc={data.hex()[:300]}')
    # the caller does what it likes with the list it was given; the same bytes parsed again denote the same roots
    got.append(got[0])
    got[0] = got[-1].copy() if len(got[0].refs) else Cell.empty()
    got.reverse()
    ok, again = call(Cell.from_boc, data)
    if not ok or not isinstance(again, list) or [x.hash for x in again] != [r.repr_hash() for r in roots]:
        return Fail('roots/second-parse-of-the-same-bytes-differs', f'after the caller edited the list the first parse returned: '
                    f'{again!r}'[:300])
    return None


def _must_raise(data, what):
    from pytoniq_core.boc.cell import Cell
    ok, got = call(Cell.from_boc, data)
    if ok:
        return Fail(f'corruption-accepted/{what.split(":")[0]}', f'{what}: returned {got!r} for boc={data.hex()[:400]}')
    return None


def check_neg(case):
    cells = dag.build_ref(case['spec'])
    fam = case['fam']
    if fam in ('prefix', 'extend'):
        data, *_ = _encode(case, cells)
        if fam == 'prefix':
            pos = range(len(data)) if len(data) <= 300 else sorted({p % len(data) for p in case['pos']} | set(range(12)) | {len(data) - k for k in range(1, 9)})
            for p in pos:
                f = _must_raise(data[:p], f'truncated:{p}/{len(data)}')
                if f:
                    return f
        else:
            for k in range(1, 9):
                tail = bytes((case['pos'][j % len(case['pos'])] + j) & 0xFF for j in range(k))
                f = _must_raise(data + tail, f'extended:+{k}')
                if f:
                    return f
                f = _must_raise(data + b'\x00' * k, f'extended:+{k} zero bytes')
                if f:
                    return f
                if case['enc'].get('crc') and len(data) > 8:
                    # extended BEFORE the checksum, the checksum recomputed over everything in front of it: the bag is k bytes
                    # longer than its header denotes although its CRC is right
                    body = data[:-4] + tail
                    f = _must_raise(body + crc32c(body).to_bytes(4, 'little'), f'extended:+{k} before a recomputed crc')
                    if f:
                        return f
                    # ... and the last k bytes of the cell data dropped, crc recomputed (truncated although the CRC is right)
                    body = data[:-4 - k]
                    f = _must_raise(body + crc32c(body).to_bytes(4, 'little'), f'truncated:-{k} before a recomputed crc')
                    if f:
                        return f
        return None
    if fam == 'bitflip':
        data, *_ = _encode(case, cells, force_crc=True)
        nb = len(data) * 8
        bits = range(nb) if len(data) <= 150 else sorted({p % nb for p in case['pos']} | set(range(64)) | set(range(nb - 40, nb)))
        for b in bits:
            mut = bytearray(data)
            mut[b // 8] ^= 0x80 >> (b % 8)
            f = _must_raise(bytes(mut), f'bitflip:{b}/{nb}')
            if f:
                return f
        return None
    if fam == 'orphan':
        # two extra cells no root reaches, the first of them carrying a dangling / backward / self reference: "for dangling,
        # backward or self references it raises an error" does not depend on whether a root leads to the offending cell
        e = case['enc']
        roots = [cells[-1]]
        order = refboc.linear_extension(roots, e.get('prio') or [0])
        leaf = rc.RCell('10100101' + format(case['pos'][0] % 256, '08b'), [], False)
        holder = rc.RCell('1100' + format(case['pos'][1] % 16, '04b'), [leaf], False)
        known = {c.repr_hash() for c in order}
        if leaf.repr_hash() in known or holder.repr_hash() in known:
            return None
        order = order + [holder, leaf]
        n = len(order)
        ci = n - 2
        how = case['pos'][0] % 3
        v = (n + case['pos'][1] % 5) if how == 0 else ci if how == 1 else case['pos'][1] % ci
        size = min(4, refboc.min_bytes(max(n, v + 1)) + e.get('size_extra', 0))
        magic = e['magic'] if order[0] is roots[0] else 'generic'
        data = refboc.encode(roots, magic=magic, size=size, has_idx=bool(e.get('idx')) or magic != 'generic',
                             has_crc=bool(e.get('crc')) or magic == 'idx_crc', order=order, ref_override={(ci, 0): v})
        return _must_raise(data, f'{("dangling", "self", "backward")[how]}-reference:unreachable cell {ci} ref 0 -> {v} (cells={n})')
    if fam == 'declared':
        # the header declares FEWER cells than the cell data holds (the index, when present, has as many entries as declared): a
        # reference to a position >= the declared count is dangling by the format (a reference is an index < cells) although
        # bytes of a cell happen to be there
        data0, roots, order, size = _encode(case, cells)
        n = len(order)
        if n < 2:
            return None
        declared = n - 1 - case['pos'][0] % min(3, n - 1)
        pos_of = {c.repr_hash(): i for i, c in enumerate(order)}
        if any(pos_of[r.repr_hash()] >= declared for r in roots) or len(roots) > declared:
            return None
        hit = [(ci, pos_of[x.repr_hash()]) for ci, c in enumerate(order[:declared]) for x in c.refs if pos_of[x.repr_hash()] >= declared]
        if not hit:
            return None
        data, *_ = _encode(case, cells, declared=declared)
        return _must_raise(data, f'dangling-reference:cell {hit[0][0]} -> {hit[0][1]} with cells={declared} declared, {n} stored '
                                 f'(crc={"yes" if case["enc"].get("crc") else "no"})')
    if fam in ('dangling', 'backward', 'self'):
        data0, roots, order, size = _encode(case, cells)
        n = len(order)
        cand = [(ci, rj) for ci, c in enumerate(order) for rj in range(len(c.refs))]
        if not cand:
            return None
        ci, rj = cand[case['pos'][0] % len(cand)]
        if fam == 'dangling':
            v = n + case['pos'][1] % max(1, min(256 ** size - n, 1000))
            if v >= 256 ** size:
                return None
        elif fam == 'self':
            v = ci
        else:
            if ci == 0:
                return None
            v = case['pos'][1] % ci
        data, *_ = _encode(case, cells, ref_override={(ci, rj): v})
        return _must_raise(data, f'{fam}-reference:cell {ci} ref {rj} -> {v} (cells={n}, crc={"yes" if case["enc"].get("crc") else "no"})')
    raise ValueError(fam)


def check_fuzz(case):
    from pytoniq_core.boc.cell import Cell
    cells = dag.build_ref(case['spec'])
    data, *_ = _encode(case, cells)
    mut = bytearray(data)
    for (p, v) in case['edits']:
        mut[p % len(mut)] = v
    mut = bytes(mut)
    if case.get('fixcrc') and len(mut) > 8:
        mut = mut[:-4] + crc32c(mut[:-4]).to_bytes(4, 'little')
    try:
        h = refboc.decode_strict(mut)
    except refboc.RefBocError:
        call(Cell.from_boc, mut)  # only termination (CPU ceiling) is checked
        return None
    if any(rc.spec_invalid(c) for c in h['cells_list']):
        call(Cell.from_boc, mut)
        return None
    ok, got = call(Cell.from_boc, mut)
    if not ok:
        return Fail('mutated-valid-encoding-rejected', f'{exc_sig(got)}: {got!r}; boc={mut.hex()[:300]}')
    if [g.hash for g in got] != [r.repr_hash() for r in h['root_cells']]:
        return Fail('mutated-valid-encoding/roots-differ', f'boc={mut.hex()[:300]}')
    return None


def check_raw(case):
    """arbitrary bytes (Atheris campaign inputs replay through here): reference decoder accepts => the library returns the
    same roots; in every case the parser stays within the operation budget of C19 (an overrun propagates as BudgetExceeded)"""
    from pytoniq_core.boc.cell import Cell
    from harness.opcount import counted
    from harness.core import note
    data = bytes.fromhex(case['raw'])
    try:
        h = refboc.decode_strict(data)
    except refboc.RefBocError:
        h = None
    except Exception:                      # reference decoder gave up on garbage: no oracle for this input
        note('raw:reference-decoder-exception')
        h = None
    ok, got, _ = counted(lambda: Cell.from_boc(data), 200 * len(data) + 600, 'from_boc-bytes')
    if h is None:
        return None
    for c in h['cells_list']:
        why = rc.spec_invalid(c)
        if why:                                # well-framed bag holding a cell that is not a valid TON cell: no oracle
            note('raw:framing-ok-but-cell-invalid')
            return None
    note('raw:reference-accepts')
    if not ok:
        return Fail('valid-encoding-rejected/raw', f'{exc_sig(got)}: {got!r}; boc={data.hex()[:300]}')
    if [g.hash for g in got] != [r.repr_hash() for r in h['root_cells']]:
        return Fail('valid-encoding/roots-differ/raw', f'boc={data.hex()[:300]}')
    return None


def _campaign_corpus():
    specs = [
        [{'k': 'o', 'b': '', 'r': []}],
        [{'k': 'o', 'b': '10110', 'r': []}, {'k': 'o', 'b': '1' * 16, 'r': [0]}, {'k': 'o', 'b': '0' * 9, 'r': [1, 0, 1]}],
        [{'k': 'o', 'b': '1' * 33, 'r': []}, {'k': 'p', 'of': 0, 'x': 0}, {'k': 'mp', 'r': 1}],
        [{'k': 'P', 'm': 5, 's': '01020304', 'd': [1, 2]}, {'k': 'l', 's': 'aabbccdd'}, {'k': 'o', 'b': '101', 'r': [0, 1]}, {'k': 'mu', 'r': [2, 2]}],
    ]
    out = []
    for spec in specs:
        cells = dag.build_ref(spec)
        n = len(rc.topo([cells[-1]]))
        for kw in ({}, {'has_idx': True, 'has_crc': True}, {'has_idx': True, 'has_cache_bits': True}, {'magic': 'idx'}, {'magic': 'idx_crc'},
                   {'size': 2, 'off_bytes': 3, 'with_hashes': set(range(n))}):
            try:
                out.append(refboc.encode([cells[-1]], **kw))
            except Exception:
                pass
        out.append(refboc.encode([cells[-1], cells[0]], has_crc=True))
    return out


def check_campaign(case):
    """one Atheris (libFuzzer, coverage-guided) campaign over Cell.from_boc with check_raw as the in-target oracle"""
    from harness import fuzz
    from harness.core import note
    res = fuzz.run_campaign('C05', 'raw-bytes', case['runs'], case['seed'], _campaign_corpus(), max_len=case.get('max_len', 600),
                            use_empty_corpus=case.get('empty_corpus', False))
    if 'skipped' in res:
        note('atheris:skipped (' + res['skipped'][:60] + ')')
        return None
    note('atheris:executions', res.get('execs', 0))
    note('atheris:coverage-edges(last campaign)', res.get('cov', 0))
    if res.get('found'):
        f = res['found']
        return Fail(f['signature'], f['detail'], replay=('raw-bytes', f['case']))
    if res.get('target_error'):
        raise HarnessError('fuzz target failed: ' + res['target_error'])
    return None


def enum_campaigns(tier):
    from harness.core import SEED
    for k in range(8):
        yield {'runs': 120000, 'seed': SEED * 100 + k + 1, 'empty_corpus': k == 7, 'max_len': 600 if k % 2 == 0 else 200}


def enum_raw(tier):
    for b in _campaign_corpus():
        yield {'raw': b.hex()}
        yield {'raw': b[:-1].hex()}
        yield {'raw': (b + b'\x00').hex()}


def enum_special_bags(tier):
    """(a) maximal cells (1023 / 1016 / 993 bits, 1..4 references) of every level mask 1..7 WITH stored hashes (up to 4 hashes +
    4 depths in front of the data) and the widest reference indexes: the longest cell serialisations the format allows;
    (b) CRC-protected bags whose length before the checksum is exactly 65 537, 131 073, 2^20 bytes (thorough: more)"""
    base = {'magic': 'generic', 'size_extra': 0, 'off_extra': 0, 'idx': False, 'cache': False, 'crc': True, 'hashes': [], 'cachesel': [], 'prio': [0]}
    for m in range(1, 8):
        for nbits in (1023, 1016, 993):
            for nrefs in (1, 2, 4):
                spec = [{'k': 'P', 'm': m, 's': '%08x' % (m * 100 + nrefs), 'd': [1, 2, 3]}, {'k': 'o', 'b': [17, 2, m], 'r': []}]
                spec.append({'k': 'o', 'b': [nbits, 2, m * 7 + nrefs], 'r': [0] + [1] * (nrefs - 1)})
                for extra in (0, 3):
                    for magic in ('generic', 'idx'):
                        enc = dict(base, size_extra=extra, hashes=[0, 1, 2], magic=magic, crc=bool(extra))
                        yield {'spec': spec, 'enc': enc, 'roots': [-1]}
    for total in (65537, 131073, 1 << 20, 1000000, 100000) + ((3 * (1 << 18), (1 << 20) + 1) if tier != 'quick' else ()):
        yield {'spec': boccases.bag_of_total_length(total), 'enc': dict(base), 'roots': [-1]}


# -- temporaries: every input object dies before the next one of the same size is made ------------------------------------------

def family_spec(n, sizes, arity, tag):
    """n-cell `arity`-ary tree (arity 1: a chain); cell i has sizes[i % len(sizes)] data bits: the same shape and the same bag
    LENGTH for every tag, other data bits in every cell"""
    spec = []
    for i in range(n):
        h = n - 1 - i
        refs = [n - 1 - c for c in range(arity * h + 1, arity * h + arity + 1) if c < n]
        spec.append({'k': 'o', 'b': [sizes[i % len(sizes)], 2, tag * 1000003 + i], 'r': refs})
    return spec


def _b64(buf):
    import base64
    return base64.b64encode(buf).decode()


# one input object per call, made in one step from a buffer that is kept; nobody else holds it
TEMP_FORMS = {'bytes': lambda buf: bytes(memoryview(buf)), 'hex': lambda buf: buf.hex(), 'base64': _b64}


def _parse_temporary(form, buf):
    """the input object lives in this frame only; it is gone when the next one is made"""
    from pytoniq_core.boc.cell import Cell
    data = TEMP_FORMS[form](buf)
    addr = id(data)
    ok, got = call(Cell.from_boc, data)
    if not ok:
        # keep a description, not the exception: its traceback holds the frames of the call (and with them the input object), and
        # through f_back this frame, which would hold the exception in turn - a cycle that keeps the input alive until the next
        # garbage collection. An application's `except Exception as e:` block drops `e` at its end just like this
        got = (type(got).__name__, exc_sig(got), repr(got))
    del data
    return addr, ok, got


def check_temporaries(case):
    """History: a program of parses, each of an input object that is dropped before the next one is made - intact encodings of
    2 DAGs of the same shape (same length, other content) and corruptions of them that keep the length (one flipped bit, when
    CRC-protected) or change it (cut, extended), as bytes copies and as hex / base64 text (the decoded buffer is a temporary of the
    parser itself). The allocator hands the next object the address of the dead one, so whatever the parser remembers about 'this
    buffer' (by id(), by address) - that it was verified, what it parsed to - now describes another input.
    Oracle, per step: intact => exactly the denoted roots; corrupted => an exception."""
    from harness.core import note
    steps = case['steps']
    protect = any(s[0] == 'flip' for s in steps)
    bags = []
    for tag in case['tags']:
        cells = dag.build_ref(family_spec(case['n'], case['sizes'], case['arity'], tag))
        if case.get('plain'):           # big bags: generic magic, minimal widths, CRC - one pass of the reference encoder
            data, roots = refboc.encode([cells[-1]], has_crc=True), [cells[-1]]
        else:
            data, roots, order, size = _encode(case, cells, force_crc=True if protect else None)
        bags.append((data, roots))
    # every buffer the inputs are made from exists before the first parse: between the death of one input object and the birth
    # of the next nothing of that size is allocated
    prepared = []
    for kind, k, form, pos in steps:
        data, roots = bags[k % len(bags)]
        if kind == 'intact':
            buf, what = data, 'intact'
        elif kind == 'flip':
            # pos >= 0: bit pos (mod) of everything in front of the checksum field; pos < 0: counted from the end (-1 .. -32 the
            # checksum field, -33 the last bit in front of it)
            b = pos % ((len(data) - 4) * 8) if pos >= 0 else (len(data) * 8 + pos) % (len(data) * 8)
            buf = bytearray(data)
            buf[b // 8] ^= 0x80 >> (b % 8)
            what = f'bitflip:{b}/{len(data) * 8}'
        elif kind == 'cut':
            buf, what = data[:len(data) - 1 - pos % min(8, len(data) - 1)], 'truncated'
        elif kind == 'extend':
            buf, what = data + bytes(((pos >> 3) + j) & 0xFF for j in range(1 + pos % 8)), 'extended'
        else:
            raise ValueError(kind)
        prepared.append((buf, what))
    last = None
    for (kind, k, form, pos), (buf, what) in zip(steps, prepared):
        data, roots = bags[k % len(bags)]
        addr, ok, got = _parse_temporary(form, buf)
        note('temporaries:input-at-the-address-of-the-dead-one' if addr == last else 'temporaries:input-at-a-new-address')
        last = addr
        def hist():         # (made only when something is wrong: a string of about the input's size would take the dead input's place)
            return f'bag {k % len(bags)} ({len(data)} bytes, {case["n"]} cells) as {form}; steps={steps}'
        if kind != 'intact':
            if ok:
                same = isinstance(got, list) and [getattr(x, 'hash', None) for x in got] == [r.repr_hash() for r in roots]
                return Fail(f'temporaries/corruption-accepted/{what.split(":")[0]}/{form}',
                            f'{what} of {hist()}: returned {got!r}'[:600] + (' = the roots of the intact bag' if same else ''))
            continue
        if not ok:
            return Fail(f'temporaries/valid-encoding-rejected/{form}/{got[0]}', f'{hist()}: {got[1]}: {got[2]}')
        if not isinstance(got, list) or [getattr(x, 'hash', None) for x in got] != [r.repr_hash() for r in roots]:
            other = [j for j, (_, rs) in enumerate(bags) if isinstance(got, list) and [getattr(x, 'hash', None) for x in got] == [r.repr_hash() for r in rs]]
            if other:
                return Fail(f'temporaries/roots-of-an-earlier-input-of-the-same-length/{form}', f'{hist()}: got the roots of bag {other[0]}')
            return Fail(f'temporaries/roots-differ/{form}', f'{hist()}: {got!r}'[:600])
        for r, l in zip(roots, got):
            diff = rc.structurally_equal_lib(r, l)
            if diff:
                return Fail(f'temporaries/structure-differs/{form}', f'{hist()}: {diff}')
        del got, l
    return None


_TEMP_ENC = {'magic': 'generic', 'size_extra': 0, 'off_extra': 0, 'idx': False, 'cache': False, 'crc': True, 'hashes': [], 'cachesel': [], 'prio': [0]}


def enum_temporaries(tier):
    """bag lengths ~0.5 / 5 / 70 / 150 / 550 KB (below and above 64 KiB, the allocator's 128 KiB, 2^20 characters of hex text)
    x 3 forms x (plain CRC-protected | index + lean magic | stored hashes + slack widths)"""
    sizes = [1016, 1016, 1023, 1009]
    M = 1 << 40
    full = [['intact', 0, 0], ['flip', 0, M // 2 + 3], ['intact', 1, 0], ['flip', 1, 77], ['intact', 0, 0], ['flip', 0, -33], ['intact', 0, 0],
            ['flip', 0, -5], ['intact', 1, 0], ['cut', 1, 2], ['intact', 0, 0], ['extend', 0, 11], ['intact', 1, 0], ['intact', 0, 0],
            ['flip', 1, M // 3], ['flip', 0, M // 3]]
    short = [['intact', 0, 0], ['flip', 0, M // 2 + 3], ['intact', 1, 0], ['intact', 0, 0], ['flip', 0, -33]]
    encs = [dict(_TEMP_ENC), dict(_TEMP_ENC, magic='idx_crc', idx=True), dict(_TEMP_ENC, idx=True, size_extra=1, off_extra=1, hashes=[0, 5, 6])]
    for n in (3, 40, 520):
        for form in TEMP_FORMS:
            for e, enc in enumerate(encs):
                yield {'n': n, 'sizes': sizes, 'arity': 4, 'tags': [1, 2], 'enc': enc, 'roots': [-1], 'steps': [[kd, k, form, p] for kd, k, p in full],
                       'name': f'cells={n}/{form}/enc{e}'}
    for n, forms in ((1100, list(TEMP_FORMS)), (4100, ['hex'])) + (((8000, list(TEMP_FORMS)),) if tier != 'quick' else ()):
        for form in forms:
            yield {'n': n, 'sizes': sizes, 'arity': 4, 'tags': [1, 2], 'enc': dict(_TEMP_ENC), 'roots': [-1], 'plain': True,
                   'steps': [[kd, k, form, p] for kd, k, p in short], 'name': f'cells={n}/{form}/plain'}


def strat_temporaries(tier):
    step = st.tuples(st.sampled_from(['intact', 'intact', 'intact', 'flip', 'flip', 'cut', 'extend']), st.integers(0, 1),
                     st.sampled_from(sorted(TEMP_FORMS)), st.one_of(st.integers(-64, 63), st.integers(0, 10 ** 7))).map(list)
    return st.fixed_dictionaries({
        'n': st.one_of(st.integers(1, 12), st.integers(1, 90)), 'arity': st.integers(1, 4),
        'sizes': st.lists(st.one_of(st.integers(1, 1023), st.sampled_from([8, 256, 1016, 1023])), min_size=1, max_size=4),
        'tags': st.lists(st.integers(0, 999), min_size=2, max_size=2, unique=True),
        'enc': st_enc(), 'roots': st_roots(), 'steps': st.lists(step, min_size=2, max_size=10)})


def classify_temporaries(case):
    yield from classify({'enc': case['enc'], 'roots': case['roots'], 'spec': [{'k': 'o'}]})
    n = case['n']
    yield 'nodes=' + ('1' if n == 1 else '2-8' if n <= 8 else '9-32' if n <= 32 else '33-254' if n < 255 else '255+')
    steps = case['steps']
    for f in sorted({s[2] for s in steps}):
        yield 'form=' + f
    for a, b in zip(steps, steps[1:]):
        if a[0] == 'intact' and b[0] == 'flip' and a[1] == b[1] and a[2] == b[2]:
            yield 'one-bit-flipped-right-after-the-intact-bag-in-the-same-form'
            break
    for a, b in zip(steps, steps[1:]):
        if a[0] == b[0] == 'intact' and a[1] != b[1] and a[2] == b[2]:
            yield 'another-bag-of-the-same-length-in-the-same-form-next'
            break
    if 'name' in case:
        yield case['name']


def st_enc():
    return st.fixed_dictionaries({
        'magic': st.sampled_from(['generic', 'generic', 'generic', 'idx', 'idx_crc']),
        'size_extra': st.sampled_from([0, 0, 1, 2, 3]),
        'off_extra': st.sampled_from([0, 0, 1, 3, 7]),
        'idx': st.booleans(), 'cache': st.booleans(), 'crc': st.booleans(),
        'hashes': st.one_of(st.just([]), st.lists(st.integers(0, 1000), min_size=1, max_size=6)),
        'cachesel': st.lists(st.integers(0, 1000), max_size=3),
        'prio': st.lists(st.integers(0, 1000), min_size=1, max_size=12),
    })


def st_roots():
    return st.one_of(st.just([-1]), st.just([-1]), st.lists(st.integers(0, 1000), min_size=1, max_size=4))


def strat_pos(tier):
    return st.fixed_dictionaries({'spec': boccases.st_spec(tier), 'enc': st_enc(), 'roots': st_roots()})


def strat_neg(tier):
    small = st.one_of(dag.st_ord_dag(max_nodes=8, max_len=40), dag.st_exotic_dag(max_nodes=8, max_len=40),
                      dag.st_ord_dag(max_nodes=30, max_len=300))
    return st.fixed_dictionaries({'spec': small, 'enc': st_enc(), 'roots': st_roots(),
                                  'fam': st.sampled_from(['prefix', 'extend', 'bitflip', 'dangling', 'backward', 'self',
                                                          'dangling', 'backward', 'self', 'orphan', 'orphan', 'declared', 'declared']),
                                  'pos': st.lists(st.integers(0, 10 ** 6), min_size=2, max_size=40)})


def strat_fuzz(tier):
    small = st.one_of(dag.st_ord_dag(max_nodes=6, max_len=24), dag.st_exotic_dag(max_nodes=6, max_len=24))
    return st.fixed_dictionaries({'spec': small, 'enc': st_enc(), 'roots': st_roots(),
                                  'edits': st.lists(st.tuples(st.integers(0, 400), st.integers(0, 255)).map(list), min_size=1, max_size=3),
                                  'fixcrc': st.booleans()})


def classify(case):
    e = case['enc']
    yield 'magic=' + e['magic']
    if e['size_extra']:
        yield 'size-slack'
    if e['off_extra']:
        yield 'off-slack'
    if e.get('hashes'):
        yield 'stored-hashes'
    if len(case['roots']) > 1:
        yield 'multi-root'
    if 'fam' in case:
        yield 'fam=' + case['fam']
    kinds, sharing = boccases.spec_stats(case['spec'])
    yield 'exotic' if kinds - {'o'} else 'ordinary'


def nt(case):
    e = case['enc']
    return ('fam' in case or 'edits' in case or e['magic'] != 'generic' or e['size_extra'] or e['off_extra'] or bool(e.get('hashes'))
            or len(case['roots']) > 1 or len(e.get('prio', [])) > 1)


SUBCHECKS = [
    Sub('foreign-encodings', check_pos, strategy=strat_pos, classify=classify, nontrivial=nt, n=(1500, 40000), shards=(16, 32)),
    Sub('maximal-cells-with-stored-hashes-and-exact-length-bags', check_pos, enum=enum_special_bags, classify=classify, nontrivial=nt, shards=(16, 16),
        case_cpu_s=300, note='1023/1016/993-bit cells x masks 1..7 x 1/2/4 refs with stored hashes, 1- and 4-byte reference indexes; CRC-protected '
                             'bags of exactly 65 537 / 131 073 / 2^20 bytes before the checksum'),
    Sub('corruptions', check_neg, strategy=strat_neg, classify=classify, nontrivial=nt, n=(900, 20000), shards=(16, 32), case_cpu_s=60),
    Sub('byte-mutations-one-directional', check_fuzz, strategy=strat_fuzz, classify=classify, nontrivial=nt, n=(1500, 60000), shards=(8, 32)),
    Sub('temporaries-of-equal-size', check_temporaries, enum=enum_temporaries, classify=classify_temporaries, shards=(12, 16), case_cpu_s=300,
        note='programs of parses whose input objects (bytes copy / hex / base64 text of intact encodings of 2 same-length bags and of '
             'their one-bit, cut and extended corruptions; 0.5 KB .. 550 KB) each die before the next is made; classes temporaries:* '
             'count how often the next object really got the address of the dead one'),
    Sub('temporaries-random', check_temporaries, strategy=strat_temporaries, classify=classify_temporaries, n=(120, 5000), shards=(4, 16)),
    Sub('raw-bytes', check_raw, enum=enum_raw, shards=(2, 2), note='plain byte strings: the campaign corpus and its 1-byte truncations/extensions; '
        'inputs found by the Atheris campaign replay through this sub-check'),
    Sub('atheris-campaign', check_campaign, enum=enum_campaigns, shards=(8, 8), tiers=('thorough',), case_cpu_s=3600,
        note='8 coverage-guided libFuzzer campaigns x 120000 executions (7 seeded with reference encodings, 1 from an empty corpus); '
             'oracle = raw-bytes inside the target; executions are reported under classes atheris:executions'),
]

# the same generated cases, several at a time, checked by threads that run at the same time (core.run_overlapping): per-call state
# kept in a place two calls share shows only there
SUBCHECKS.append(__import__('harness.core', fromlist=['overlapped']).overlapped(next(s for s in SUBCHECKS if s.name == 'foreign-encodings'), k=3, n=(40, 1500)))
