"""C14 — TL serialisation inverts TL parsing and follows TL framing for the bundled schemas; block-id helpers.

How the library is driven (grounded in tests/test_tl.py, examples/tl/tl.py):
    schemas = TlGenerator.with_default_schemas().generate()
    schemas.serialize(schemas.get_by_name(NAME), data)      data = {field: value}; nested objects are dicts carrying
                                                            '@type'; int128/int256 are hex strings; a `bytes` field takes
                                                            bytes or a dict with '@type' (a nested boxed object)
    schemas.deserialize(bytes) -> (dict with '@type', consumed)

Oracle per case (constructor NAME, well-typed value V):
  (a) serialize(NAME, V) == reftl.encode(NAME, V)                         (reftl: independent model, harness/ref/reftl.py)
  (b) deserialize(reftl.encode(NAME, V)) == (V, len)  modulo representation only:
        '@type' of a *bare* object is ignored (the parser adds it on bare fields, not on bare vector elements),
        a `cond?true` field is compared on presence only, an absent optional field may be missing or None,
        int128/int256 are compared as lower-case hex, `bytes` holding a nested boxed object comes back as that object.
  (b) is evaluated on the reference bytes, so it stays meaningful when (a) fails.
Histories (plain data in the case, see _earlier_calls): case['before'] lists calls the same process made EARLIER - the value's
  bool/int/float twin serialised (1 for a Bool, False for the integer 0, 7.0 for 7: values of another type that compare and hash
  equal; the library accepts them silently, they are not well-typed and nothing is asserted about THEIR result), the value
  itself serialised, its bytes parsed, the schema printed, the same on another TlSchemas object. Afterwards (a) and (b) must hold
  for the well-typed value exactly as without them. case['fresh'] re-imports pytoniq_core.tl first, so module-level state
  starts as in a new process (needed for the few values - True/False/0/1 - every process meets early). A failure that disappears
  when the case is repeated without its history in a fresh import gets the suffix /after-earlier-calls.
Designed coincidences: integers whose wire bytes equal a constructor id (boolTrue, boolFalse, any known id) in int, #, long,
  int128, int256 fields, vector elements and flags words (sub-check words-equal-to-constructor-ids; also 1 in 6 generated
  integers).
Block ids: BlockIdExt.from_bytes(to_bytes(x)) == x, from_dict(to_dict(x)) == x, hash(x) works, equal ids hash equally and
  find each other in dicts/sets (built now and built earlier); equality is checked in both directions.  BlockId (which defines no
  __eq__) is compared field by field and only has to be hashable and retrievable by the same object.  All of it is checked three
  times: before anything was formatted, after the caller formatted (repr / str / f-string / % / all of them) the ids named in
  case['printed'] - mostly exactly ONE of several equal ids -, and after those in case['printed_late'] too; to_bytes / to_dict /
  hash of an id do not change when it is formatted.

Deliberately NOT asserted
  * anything about the byte layout of BlockIdExt.to_bytes (the example documents it as big-endian, not TL);
  * the deserialize(..., boxed=False, args=...) entry point;
  * int128/int256 passed as bytes or int (only the hex-string form the parser itself returns is used);
  * opaque `bytes`/`string` contents that start with a known constructor id (documented auto-deserialisation turns them
    into objects; generated opaque data never starts with one), and nested objects inside the two documented
    "untouchable" fields (adnl.message.part.data, overlay.broadcastFec.data);
  * the RESULT of serialising ill-typed values (they only occur as earlier calls whose outcome is ignored), strings longer than 2^24-1 bytes, `double` and the other pseudo types;
  * constructors of tonlib_api.tl (not part of the statement) and names declared differently in several bundled files
    (ton.blockId): which declaration wins depends on os.listdir order, not on the code alone;
  * BlockIdExt.__eq__ against foreign types, BlockId value equality.

Development aid: VERIF_IGNORE_SIG='sig1,sig2' makes this module skip those signatures (default: none).
"""
import hashlib
import os

from hypothesis import strategies as st

from harness.core import Sub, Fail, call, exc_sig, REPO, BudgetExceeded, HarnessError, load_known
from harness.ref import reftl

SCH = reftl.bundled(REPO)
reftl.self_check(SCH)
SUPPORTED, EXCLUDED = SCH.partition()
SUPPORTED_SET = set(SUPPORTED)
AVOID = SCH.avoid_prefixes()
UNTOUCHABLE = {('adnl.message.part', 'data'), ('overlay.broadcastFec', 'data')}   # documented in TlSchemas.__init__
NESTED_POOL = [n for n in SUPPORTED if not SCH.ctor(n).inner_comment and SCH.depths()[n] <= 2]
_IGNORE = {s.strip() for s in os.environ.get('VERIF_IGNORE_SIG', '').split(',') if s.strip()}


def _excl_summary():
    from collections import Counter
    c = Counter(v.split(':')[0] for v in EXCLUDED.values())
    return ', '.join(f'{k}={v}' for k, v in sorted(c.items()))


RULE = (f'case = (constructor name, value tree). reftl parses lite_api.tl + ton_api.tl itself: {len(SUPPORTED)} supported '
        f'constructors (types and functions), {len(EXCLUDED)} excluded ({_excl_summary()}; names: '
        f'{", ".join(sorted(EXCLUDED))}). Sub-check enum-all-constructors visits EVERY supported constructor k times '
        '(k=8 quick / 150 thorough: minimal value, maximal value, then hash-seeded values), flags-all-combinations '
        'visits every combination of the flag bits a constructor uses (all when <=6 bits, else 64/4096 sampled), '
        'random draws constructor and value with Hypothesis (nesting <= 4, vectors 0..3 and 15..40, byte/text lengths '
        '0..12, 252..257, 1000, 70000; ints over the full range with boundary bias; polymorphic fields through every '
        'supported alternative; bytes fields opaque - never starting with a known constructor id - or a nested boxed '
        'object; 1 in 6 integers is a word that equals boolTrue / boolFalse / another constructor id). Every 5th random case and '
        '3 of the k values per constructor carry a history of earlier calls (bool/int/float twin of the value serialised first, '
        'the value itself, a parse, a printed schema); earlier-calls-in-a-fresh-library does the same with the TL modules '
        're-imported per case and values made of True/False/0/1; words-equal-to-constructor-ids is the grid of every known id x '
        'int/#/long hosts (every 16th: vectors, int128/256, flags words). block-id-helpers: random ids, hex or bytes arguments, '
        'and which of the equal ids were formatted (and how) before the comparisons. '
        'classes: ctor=<name> histogram = constructors hit, earlier-call=<op>, formatted-first=<who>. non-trivial = value '
        'contains a string, bytes, vector, nested object or conditional field; distinct = distinct case')
ASSUMPTIONS = ['harness/ref/reftl.py: own parser of the .tl text, CRC-32 ids (anchored on tcp.ping, pub.ed25519, '
               'ton.blockId, liteServer.getMasterchainInfo, boolTrue/boolFalse and the ids pinned in tests/test_tl.py), '
               'TL binary encoding per core.telegram.org/mtproto/serialize', 'zlib.crc32, hashlib']


# --------------------------------------------------------------------------------------------------
# value trees (plain data) -> (reference value, library value)

def _blob(v):
    return bytes.fromhex(v['x']) + bytes.fromhex(v.get('fill', '00')) * v.get('rep', 0)


def _text(v):
    return v['s'] + v.get('fill', 'a') * v.get('rep', 0)


def mat_obj(name, tree, info):
    """returns (ref_value, lib_value) of an object tree {'@type': name, field: subtree}"""
    c = SCH.ctor(name)
    info['ctors'].add(name)
    ref, lib = {'@type': name}, {'@type': name}
    for a in c.args:
        if a.name not in tree:
            continue
        r, l = mat(a.type, tree[a.name], info, (name, a.name))
        ref[a.name], lib[a.name] = r, l
        if a.cond is not None:
            info['kinds'].add('conditional')
    for k in tree:
        if k != '@type' and not any(a.name == k for a in c.args):
            raise HarnessError(f'case has field {k} unknown to {name}')
    return ref, lib


def mat(t, v, info, where):
    k = t[0]
    if k == 'prim':
        p = t[1]
        if p in ('int', 'long', '#'):
            if p == '#' and v >= 1 << 31:
                info['kinds'].add('nat-bit31')
            return v, v
        if p in ('int128', 'int256'):
            return bytes.fromhex(v), v
        if p in ('Bool', 'true'):
            return v, v
        if p == 'string':
            s = _text(v)
            info['kinds'].add('string')
            info['lens'].append(len(s.encode()))
            if s.encode()[:4] in AVOID:
                raise HarnessError('case outside the domain: string starts with a known constructor id')
            return s, s
        if p == 'bytes':
            if '@type' in v:
                if where in UNTOUCHABLE:
                    raise HarnessError('case outside the domain: nested object in an untouchable field')
                info['kinds'].add('bytes-nested')
                return mat_obj(v['@type'], v, info)
            b = _blob(v)
            info['kinds'].add('bytes')
            info['lens'].append(len(b))
            if b[:4] in AVOID:
                raise HarnessError('case outside the domain: opaque bytes start with a known constructor id')
            return b, b
    if k == 'vector':
        info['kinds'].add('vector')
        info['veclens'].append(len(v))
        if v and (t[1][0] == 'prim' or t[1] == ('boxed', 'Bool')):
            info['kinds'].add('vector-of-builtin-nonempty')
        pairs = [mat(t[1], e, info, where) for e in v]
        return [p[0] for p in pairs], [p[1] for p in pairs]
    if k == 'bare':
        info['kinds'].add('nested')
        return mat_obj(t[1], v, info)
    if k == 'boxed':
        if t[1] == 'Bool':
            return v, v
        info['kinds'].add('nested')
        info['kinds'].add('polymorphic' if len(SCH.classes.get(t[1], [])) > 1 else 'boxed-single')
        return mat_obj(v['@type'], v, info)
    raise HarnessError(f'type {t} in case')


def new_info():
    return {'ctors': set(), 'kinds': set(), 'lens': [], 'veclens': []}


# --------------------------------------------------------------------------------------------------
# comparison of a parsed value with the reference value

def tclass(t, ref=None):
    if t[0] == 'prim':
        if t[1] == '#':
            return 'nat-bit31' if isinstance(ref, int) and ref >= 1 << 31 else 'nat'
        return t[1]
    if t[0] == 'vector':
        return 'vector-of-builtin' if t[1][0] == 'prim' or t[1] == ('boxed', 'Bool') else 'vector-of-' + t[1][0]
    if t == ('boxed', 'Bool'):
        return 'Bool'
    return t[0]


def cmp_obj(name, ref, got, boxed, path):
    """None or (kind, type-class, path, detail)"""
    if not isinstance(got, dict):
        return ('not-an-object', 'boxed' if boxed else 'bare', path, f'{type(got).__name__}: {str(got)[:80]}')
    if '@type' in got or boxed:
        if got.get('@type') != name:
            return ('wrong-@type', 'boxed' if boxed else 'bare', path, f'{got.get("@type")!r} != {name!r}')
    c = SCH.ctor(name)
    names = set()
    for a in c.args:
        names.add(a.name)
        p = f'{path}.{a.name}'
        if a.name not in ref:
            if got.get(a.name) is not None:
                return ('unexpected-optional-field', tclass(a.type), p, str(got[a.name])[:80])
            continue
        if a.name not in got:
            return ('missing-field', tclass(a.type, ref[a.name]), p, '')
        if a.type == ('prim', 'true'):
            continue                                            # presence only
        d = cmp_val(a.type, ref[a.name], got[a.name], p)
        if d:
            return d
    extra = set(got) - names - {'@type'}
    if extra:
        return ('extra-key', 'boxed' if boxed else 'bare', path, str(sorted(extra)))
    return None


def cmp_val(t, ref, got, path):
    k = t[0]
    if k == 'prim':
        p = t[1]
        if p in ('int', 'long', '#'):
            ok = isinstance(got, int) and not isinstance(got, bool) and got == ref
        elif p in ('int128', 'int256'):
            ok = isinstance(got, str) and got.lower() == ref.hex()
        elif p == 'Bool':
            ok = isinstance(got, bool) and got == ref
        elif p == 'string':
            ok = isinstance(got, str) and got == ref
        elif p == 'bytes':
            if isinstance(ref, dict):
                d = cmp_obj(ref['@type'], ref, got, True, path)
                return ('nested-' + d[0], 'bytes-nested', d[2], d[3]) if d else None
            ok = isinstance(got, (bytes, bytearray)) and bytes(got) == ref
        else:
            ok = True
        return None if ok else ('value-differs', tclass(t, ref), path, f'{str(got)[:80]!r} != {str(ref)[:80]!r}')
    if k == 'vector':
        if not isinstance(got, list) or len(got) != len(ref):
            return ('vector-length', tclass(t), path, f'{str(got)[:80]} vs {len(ref)} elements')
        for i, (r, g) in enumerate(zip(ref, got)):
            d = cmp_val(t[1], r, g, f'{path}[{i}]')
            if d:
                if t[1][0] == 'prim':
                    return (d[0], tclass(t), d[2], d[3])
                return d
        return None
    if k == 'bare':
        return cmp_obj(t[1], ref, got, False, path)
    if k == 'boxed':
        if t[1] == 'Bool':
            return cmp_val(('prim', 'Bool'), ref, got, path)
        return cmp_obj(ref['@type'], ref, got, True, path)
    raise HarnessError(str(t))


# --------------------------------------------------------------------------------------------------
# the check

_LIB = {}


def _schemas():
    import pytoniq_core.tl.generator as g
    if _LIB.get('mod') is not g:
        _LIB['mod'] = g
        _LIB['schemas'] = g.TlGenerator.with_default_schemas().generate()
    return g, _LIB['schemas']


def budgeted_deserialize(g, schemas, data):
    """TlSchemas.deserialize(data) with every (recursive) invocation counted; more than 4*len+64 -> BudgetExceeded"""
    import threading
    if threading.current_thread() is not threading.main_thread():
        return call(schemas.deserialize, data)        # the counting wrapper patches the class: main thread only (two-threads runs uncounted)
    orig = g.TlSchemas.deserialize
    limit = 4 * len(data) + 64
    n = [0]

    def counted(self, *a, **k):
        n[0] += 1
        if n[0] > limit:
            raise BudgetExceeded('tl-deserialize')
        return orig(self, *a, **k)

    g.TlSchemas.deserialize = counted
    try:
        return call(schemas.deserialize, data)
    finally:
        g.TlSchemas.deserialize = orig


def first_difference(pieces, lib):
    """kind of the reference leaf in which the library's bytes first differ from the reference bytes"""
    pos = 0
    for kind, b in pieces:
        seg = lib[pos:pos + len(b)]
        if seg != b:
            return kind, pos
        pos += len(b)
    return 'trailing-bytes', pos


def _pick(fails, prop='C14'):
    """first failure that is neither ignored (dev aid) nor a listed known finding; else the first known one"""
    fails = [f for f in fails if f.signature not in _IGNORE]
    if not fails:
        return None
    known = load_known(prop)
    for f in fails:
        if f.signature not in known:
            return f
    return fails[0]


BEFORE_OPS = ('twin-bool', 'twin-float', 'same', 'parse', 'look-schema', 'other-instance:twin-bool', 'other-instance:twin-float')


def map_leaves(name, tree, leaf):
    """copy of a value tree with every fixed-width leaf v replaced by leaf(prim, v, is_flags_field)"""
    def val(t, v, fl):
        k = t[0]
        if k == 'prim':
            if t[1] == 'bytes' and isinstance(v, dict) and '@type' in v:
                return obj(v['@type'], v)
            return leaf(t[1], v, fl) if t[1] in ('int', 'long', '#', 'Bool', 'int128', 'int256') else v
        if k == 'vector':
            return [val(t[1], e, False) for e in v]
        if k == 'bare':
            return obj(t[1], v)
        if k == 'boxed':
            return leaf('Bool', v, False) if t[1] == 'Bool' else obj(v['@type'], v)
        return v

    def obj(n, tr):
        c = SCH.ctor(n)
        cond_fields = {a.cond[0] for a in c.args if a.cond is not None}
        out = {'@type': n}
        for a in c.args:
            if a.name in tr:
                out[a.name] = val(a.type, tr[a.name], a.name in cond_fields)
        return out
    return obj(name, tree)


def twin_tree(name, tree, mode):
    """the value tree with every fixed-width leaf replaced by a value of ANOTHER type that compares (and hashes) equal to it:
    mode 'bool': Bool True/False -> 1/0, int/long/# 1/0 -> True/False;  mode 'float': int/long/#/Bool v -> float(v) where exact.
    These spellings are not well-typed, the library takes them without complaint; they are only ever used as an EARLIER call."""
    def leaf(p, v, fl):
        if p in ('int', 'long', '#'):
            if mode == 'bool':
                return bool(v) if v in (0, 1) else v
            return float(v) if abs(v) < 1 << 53 else v
        if p == 'Bool':
            return int(v) if mode == 'bool' else float(v)
        return v
    return map_leaves(name, tree, leaf)


def _forget_library():
    """the TL modules are imported afresh: module-level state starts as in a new process (the next _schemas() call rebuilds)"""
    import sys
    for k in [k for k in sys.modules if k == 'pytoniq_core.tl' or k.startswith('pytoniq_core.tl.')]:
        del sys.modules[k]
    _LIB.clear()


def _earlier_calls(case, name, g, schemas, exp):
    """case['before']: calls the process made EARLIER (results and exceptions ignored). What they leave behind must not change
    what the well-typed call computes afterwards."""
    from harness.core import look
    for op in case.get('before', ()):
        sc = schemas
        if op.startswith('other-instance:'):
            op = op.split(':', 1)[1]
            ok, sc = call(lambda: g.TlGenerator.with_default_schemas().generate())
            if not ok:
                continue
        sch = sc.get_by_name(name)
        if op in ('twin-bool', 'twin-float'):
            _, sloppy = mat_obj(name, twin_tree(name, case['v'], op[5:]), new_info())
            call(sc.serialize, sch, sloppy)
        elif op == 'same':
            call(sc.serialize, sch, mat_obj(name, case['v'], new_info())[1])
        elif op == 'parse':
            try:
                budgeted_deserialize(g, sc, exp)
            except BudgetExceeded:
                pass
        elif op == 'look-schema':
            look(sch)
        else:
            raise HarnessError(f'unknown earlier call {op!r}')


def check_ctor(case):
    if case.get('fresh'):
        _forget_library()
    g, schemas = _schemas()
    name = case['ctor']
    if name not in SUPPORTED_SET:
        raise HarnessError(f'{name} is not a supported constructor')
    info = new_info()
    ref, lib = mat_obj(name, case['v'], info)
    pieces = SCH.pieces(name, ref)
    exp = b''.join(b for _, b in pieces)
    back, end = SCH.decode(exp)                       # the model must invert itself, else the harness is wrong
    if end != len(exp) or SCH.encode(name, back) != exp:
        raise HarnessError(f'reftl does not invert itself on {name}')
    inner = any(SCH.ctor(n).inner_comment for n in info['ctors'])
    fails = []

    # every 5th case runs with the library's trace logging switched ON (logger 'TL' at level 5, output discarded): what is logged
    # must not change what is computed
    import logging as _logging
    _lg = _logging.getLogger('TL')
    _old_level, _trace = _lg.level, (len(exp) % 5 == 0)
    if _trace:
        if not any(isinstance(h_, _logging.NullHandler) for h_ in _lg.handlers):
            _lg.addHandler(_logging.NullHandler())
        _lg.propagate = False
        _lg.setLevel(5)
    try:
        if case.get('before'):
            _earlier_calls(case, name, g, schemas, exp)
            f_ = _check_ctor_body(case, name, info, ref, lib, pieces, exp, inner, fails, g, schemas)
            if f_ is None:
                return None
            # was it the earlier calls? the same case without them, in freshly imported TL modules
            _forget_library()
            g, schemas = _schemas()
            f0 = _check_ctor_body(case, name, info, ref, lib, pieces, exp, inner, [], g, schemas)
            return f0 if f0 is not None else Fail(f_.signature + '/after-earlier-calls', f'after {case["before"]}: {f_.detail}')
        return _check_ctor_body(case, name, info, ref, lib, pieces, exp, inner, fails, g, schemas)
    finally:
        _lg.setLevel(_old_level)


def _check_ctor_body(case, name, info, ref, lib, pieces, exp, inner, fails, g, schemas):
    # (a) serialisation equals the TL encoding
    sch = schemas.get_by_name(name)
    if sch is None:
        fails.append(Fail('schema/constructor-not-registered', name))
    else:
        ok, out = call(schemas.serialize, sch, lib)
        if not ok:
            if isinstance(out, OverflowError) and 'nat-bit31' in info['kinds']:
                fails.append(Fail('serialize/nat-bit31-overflow', f'{name}: {out!r} for a # field >= 2^31'))
            elif inner:
                fails.append(Fail('schema/inline-comment-truncates-declaration', f'{name}: {out!r}'))
            else:
                fails.append(Fail(f'serialize/raises/{exc_sig(out)}', f'{name}: {out!r}'))
        elif not isinstance(out, (bytes, bytearray)):
            fails.append(Fail('serialize/not-bytes', f'{name}: {type(out)}'))
        elif bytes(out) != exp:
            out = bytes(out)
            kind, pos = first_difference(pieces, out)
            nostr = SCH.encode(name, ref, omit=('string',)) if 'string' in info['kinds'] else None
            det = f'{name}: first difference at byte {pos} (in {kind}); got {out[:pos + 12].hex()}.. ({len(out)} bytes) ' \
                  f'expected {exp[:pos + 12].hex()}.. ({len(exp)} bytes)'
            if inner:
                fails.append(Fail('schema/inline-comment-truncates-declaration', det))
            elif out == nostr:
                fails.append(Fail('serialize/string-field-dropped', det))
            else:
                fails.append(Fail(f'serialize/differs-at/{kind}', det))

    # (a') the other ways to name the same constructor give the same bytes: its name as a string, its id (big-endian bytes,
    # little-endian bytes, int); without the id prefix (boxed=False) the bytes are the same minus the 4 id bytes
    if sch is not None and not fails:
        ok, out2 = call(schemas.serialize, name, lib)
        if not ok or bytes(out2) != exp:
            fails.append(Fail('serialize/by-name-string-differs', f'{name}: {out2!r}'[:300]))
        ok, out3 = call(schemas.serialize, sch, lib, False)
        if not ok or bytes(out3) != exp[4:]:
            fails.append(Fail('serialize/boxed-false-differs', f'{name}: {out3!r}'[:300]))
        be = exp[:4][::-1]
        for how, f_ in (('bytes-big', lambda: schemas.get_by_id(be)), ('bytes-little', lambda: schemas.get_by_id(exp[:4], 'little')),
                        ('int-big', lambda: schemas.get_by_id(int.from_bytes(be, 'big'))),
                        ('int-little', lambda: schemas.get_by_id(int.from_bytes(be, 'little'), 'little'))):
            ok, got = call(f_)
            if not ok or got is None or getattr(got, 'name', None) != sch.name:
                fails.append(Fail(f'schema/get_by_id-{how}-finds-another-constructor', f'{name}: {got!r}'[:300]))
                break

    # (b) parsing the TL encoding gives the value back and consumes everything
    try:
        ok, res = budgeted_deserialize(g, schemas, exp)
    except BudgetExceeded:
        ok, res = None, None
    f = None
    if ok is None:
        f = Fail('budget/tl-deserialize', f'{name}: more than 4*{len(exp)}+64 deserialize invocations on {exp[:60].hex()}')
    elif not ok:
        f = Fail(f'deserialize/raises/{exc_sig(res)}', f'{name}: {res!r} on {exp[:60].hex()}')
    elif not (isinstance(res, tuple) and len(res) == 2):
        f = Fail('deserialize/not-a-pair', str(type(res)))
    else:
        val, used = res
        d = cmp_obj(name, ref, val, True, name)
        if d:
            f = Fail(f'deserialize/{d[0]}/{d[1]}', f'at {d[2]}: {d[3]}; input {exp[:60].hex()} ({len(exp)} bytes)')
        elif used != len(exp):
            f = Fail('deserialize/consumed-length', f'{name}: consumed {used} of {len(exp)}')
        else:
            # the caller empties / edits the dictionaries it was given; the same bytes parsed again give the same value
            from harness.core import scramble
            scramble(val)
            ok2, res2 = call(schemas.deserialize, exp)
            if not ok2 or not (isinstance(res2, tuple) and len(res2) == 2):
                f = Fail('deserialize/second-parse-raises-after-the-first-result-was-edited', f'{name}: {res2!r}'[:300])
            else:
                d = cmp_obj(name, ref, res2[0], True, name)
                if d or res2[1] != len(exp):
                    f = Fail(f'deserialize/second-parse-differs-after-the-first-result-was-edited/{d[0] if d else "length"}', f'{name}: {d}')
    if f is not None:
        # input classes whose mis-parse shifts the framing of everything behind it: one root cause, one signature
        if 'vector-of-builtin-nonempty' in info['kinds']:
            f = Fail('deserialize/vector-of-builtin-elements', f'[{f.signature}] {f.detail}')
        elif 'nat-bit31' in info['kinds']:
            f = Fail('deserialize/nat-bit31-read-signed', f'[{f.signature}] {f.detail}')
        elif inner:
            f = Fail('schema/inline-comment-truncates-declaration', f'[{f.signature}] {f.detail}')
        fails.append(f)
    return _pick(fails)


# --------------------------------------------------------------------------------------------------
# arbitrary byte strings (Atheris campaign inputs replay through here)

def _value_in_domain(t, v, where):
    """True iff the reference value lies in the domain of this property's oracle (see 'NOT asserted' in the docstring)"""
    k = t[0]
    if k == 'prim':
        p = t[1]
        if p in ('string', 'bytes'):
            b = v.encode('utf-8') if isinstance(v, str) else bytes(v)
            return b[:4] not in AVOID or where in UNTOUCHABLE
        return True
    if k == 'vector':
        return all(_value_in_domain(t[1], e, where) for e in v)
    if k in ('bare', 'boxed'):
        if t == ('boxed', 'Bool'):
            return True
        name = v['@type'] if k == 'boxed' else t[1]
        if name not in SUPPORTED_SET and k == 'boxed':
            return False
        c = SCH.ctor(name)
        return all(_value_in_domain(a.type, v[a.name], (name, a.name)) for a in c.args if a.name in v)
    return False


def _top_in_domain(name, v):
    c = SCH.ctor(name)
    return all(_value_in_domain(a.type, v[a.name], (name, a.name)) for a in c.args if a.name in v)


def check_raw(case):
    """reference decoder reads the whole input as one supported, in-domain, canonically encoded object  =>  the library
    returns the same value and consumes everything; for every input the parser stays within the operation budget."""
    from harness.opcount import counted
    from harness.core import note
    g, schemas = _schemas()
    data = bytes.fromhex(case['raw'])
    ref = None
    try:
        v, end = SCH.decode(data)
        name = v['@type']
        if end == len(data) and name in SUPPORTED_SET and SCH.encode(name, v) == data \
                and _top_in_domain(name, v):
            ref = v
    except (reftl.TlRefError, UnicodeDecodeError, KeyError, ValueError, OverflowError, RecursionError):
        ref = None
    ok, res, _ = counted(lambda: schemas.deserialize(data), 150 * len(data) + 3000, 'tl-deserialize')
    if ref is None:
        return None
    note('raw:reference-accepts')
    name = ref['@type']
    if not ok:
        return Fail(f'deserialize/raises/{exc_sig(res)}/raw', f'{name}: {res!r} on {data[:60].hex()}')
    val, used = res
    d = cmp_obj(name, ref, val, True, name)
    if d:
        return Fail(f'deserialize/{d[0]}/{d[1]}/raw', f'at {d[2]}: {d[3]}; input {data[:80].hex()} ({len(data)} bytes)')
    if used != len(data):
        return Fail('deserialize/consumed-length/raw', f'{name}: consumed {used} of {len(data)}')
    return None


def _campaign_corpus():
    out = []
    for i, name in enumerate(SUPPORTED):
        if i % 7 == 0 or any(a.type[0] == 'vector' or a.cond is not None for a in SCH.ctor(name).args):
            tree = gen_obj(HashChooser(f'corpus/{name}'), name, 2, False, bit31=False)
            ref, _ = mat_obj(name, tree, new_info())
            out.append(SCH.encode(name, ref))
    return out[:400]


def check_campaign(case):
    from harness import fuzz
    from harness.core import note
    res = fuzz.run_campaign('C14', 'raw-bytes', case['runs'], case['seed'], _campaign_corpus(), max_len=case.get('max_len', 400),
                            use_empty_corpus=case.get('empty_corpus', False))
    if 'skipped' in res:
        note('atheris:skipped (' + res['skipped'][:60] + ')')
        return None
    note('atheris:executions', res.get('execs', 0))
    note('atheris:coverage-edges(last campaign)', res.get('cov', 0))
    if res.get('found'):
        f = res['found']
        return Fail(f['signature'], f['detail'], replay=('raw-bytes', f['case']))
    if res.get('target_error'):
        raise HarnessError('fuzz target failed: ' + res['target_error'])
    return None


def enum_campaigns(tier):
    from harness.core import SEED
    for k in range(8):
        yield {'runs': 60000, 'seed': SEED * 100 + k + 1, 'empty_corpus': k == 7, 'max_len': 400 if k % 2 == 0 else 120}


def enum_raw(tier):
    for b in _campaign_corpus()[:120]:
        yield {'raw': b.hex()}
        yield {'raw': b[:-1].hex()}
        yield {'raw': (b + b'\x00\x00\x00\x00').hex()}


BID_WHO = ('x', 'twin', 'y', 'z', 'b')
BID_HOW = ('describe', 'look', 'repr', 'str', 'fstring', 'percent')


def _show(o, how):
    """what a caller's logging does with a block id it holds; results and exceptions are nobody's property"""
    from harness.core import describe, look
    try:
        if how == 'describe':
            describe(o)
        elif how == 'look':
            look(o)
        elif how == 'repr':
            repr(o)
        elif how == 'str':
            str(o)
        elif how == 'fstring':
            f'got {o}'
        else:
            'got %s' % (o,)
    except Exception:
        pass


def check_blockid(case):
    """three rounds of the same relations: (0) nothing was ever formatted, (1) after the objects named in case['printed'] were
    formatted the way case['how'] says, (2) after those in case['printed_late'] were formatted as well.  A relation that holds in
    round 0 and fails later gets the suffix /after-formatting (formatting an object is not an operation on it)."""
    from pytoniq_core.tl.block import BlockId, BlockIdExt
    wc, shard, seqno = case['wc'], case['shard'], case['seqno']
    root, file = bytes.fromhex(case['root']), bytes.fromhex(case['file'])
    eff_shard = -2 ** 63 if shard is None else shard
    how = case.get('how', 'describe')
    fails = []

    def mk():
        if case['hex_args']:
            return BlockIdExt(wc, shard, seqno, root.hex(), file.hex())
        return BlockIdExt(wc, shard, seqno, root, file)

    def fields(b):
        return (b.workchain, b.shard, b.seqno, bytes(b.root_hash), bytes(b.file_hash))

    ok, x = call(mk)
    if not ok:
        return _pick([Fail(f'blockidext/constructor-raises/{exc_sig(x)}', repr(x))])
    if fields(x) != (wc, eff_shard, seqno, root, file):
        fails.append(Fail('blockidext/constructor-fields', str(fields(x))))
    twin = mk()
    # from_dict gets the caller's dictionary (as the parser returns it, '@type' included): read, not edited
    import copy as _copy
    for cls_, dct in ((BlockIdExt, dict(x.to_dict(), **{'@type': 'tonNode.blockIdExt'})), (BlockId, {'@type': 'tonNode.blockId', 'workchain': wc, 'shard': eff_shard, 'seqno': seqno})):
        before = _copy.deepcopy(dct)
        okd, _o = call(cls_.from_dict, dct)
        if okd and dct != before:
            fails.append(Fail('blockid/from_dict-edits-the-callers-dictionary', f'{cls_.__name__}: {sorted(before)} -> {sorted(dct)}'))
    ok, b = call(BlockId, wc, shard, seqno)
    if not ok:
        fails.append(Fail(f'blockid/constructor-raises/{exc_sig(b)}', repr(b)))
        b = None
    if fails:
        return _pick(fails)

    # long-lived objects: made once, BEFORE anything is formatted; containers keyed by x likewise
    held = {'x': x, 'twin': twin, 'b': b}
    for nm, f_ in (('y', lambda: BlockIdExt.from_bytes(x.to_bytes())), ('z', lambda: BlockIdExt.from_dict(x.to_dict()))):
        ok, o = call(f_)
        held[nm] = o if ok else None                   # a raising round trip is reported by relations()
    ok, h0 = call(hash, x)
    d0, s0 = ({x: 'v'}, {x}) if ok else (None, None)
    bytes0, dict0 = x.to_bytes(), x.to_dict()
    bd0 = {b: 1} if b is not None and call(hash, b)[0] else None
    bdict0 = b.to_dict() if b is not None else None

    def relations():
        out = []
        ok, y = call(lambda: BlockIdExt.from_bytes(x.to_bytes()))          # fresh copies, made now
        if not ok:
            out.append(Fail(f'blockidext/bytes-roundtrip-raises/{exc_sig(y)}', repr(y)))
            y = None
        elif not (y == x) or not (x == y) or fields(y) != fields(x):
            out.append(Fail('blockidext/bytes-roundtrip-differs', f'{fields(y)} != {fields(x)}'))
        ok, z = call(lambda: BlockIdExt.from_dict(x.to_dict()))
        if not ok:
            out.append(Fail(f'blockidext/dict-roundtrip-raises/{exc_sig(z)}', repr(z)))
            z = None
        elif not (z == x) or not (x == z) or fields(z) != fields(x):
            out.append(Fail('blockidext/dict-roundtrip-differs', f'{fields(z)} != {fields(x)}'))
        if x.to_bytes() != bytes0 or x.to_dict() != dict0:
            out.append(Fail('blockidext/to_bytes-or-to_dict-changed', f'{x.to_dict()} != {dict0}'))
        others = [o for o in (twin, held['y'], held['z'], y, z) if o is not None]
        for o in others:
            for p_, q_ in ((o, x), (x, o)):
                okc, r = call(lambda: p_ == q_)
                if not okc or not r:
                    out.append(Fail('blockidext/equal-ids-compare-unequal', f'{fields(p_)} == {fields(q_)} -> {r!r}'))
                    break
                if o.to_bytes() != bytes0 or o.to_dict() != dict0:
                    out.append(Fail('blockidext/equal-ids-convert-differently', f'{o.to_dict()} != {dict0}'))
                    break
        ok, h = call(hash, x)
        if not ok:
            out.append(Fail('blockidext/hash-raises', f'hash of {fields(x)} -> {h!r}'))
        else:
            if h != h0:
                out.append(Fail('blockidext/hash-changed', f'{h0} -> {h}'))
            ok, hs = call(lambda: [hash(o) for o in others])
            if not ok or any(v != h for v in hs):
                out.append(Fail('blockidext/equal-ids-hash-differently', f'{h} vs {hs!r}'))
            # containers built now and containers built before anything was formatted
            ok, r = call(lambda: all({x: 'v'}.get(o) == 'v' and {o: 'v'}.get(x) == 'v' and d0.get(o) == 'v' and o in s0
                                     for o in others + [x]) and len({x, *others}) == 1 and len(s0 | set(others)) == 1)
            if not ok or not r:
                out.append(Fail('blockidext/dict-key-lookup', f'equal ids do not find each other in a dict/set: {r!r}'))
        # BlockId: no __eq__ -> field-wise
        if b is not None:
            ok, b2 = call(lambda: BlockId.from_dict(b.to_dict()))
            if not ok:
                out.append(Fail(f'blockid/dict-roundtrip-raises/{exc_sig(b2)}', repr(b2)))
            elif (b2.workchain, b2.shard, b2.seqno) != (wc, eff_shard, seqno) or b2.to_dict() != b.to_dict() or b.to_dict() != bdict0:
                out.append(Fail('blockid/dict-roundtrip-differs', f'{b2.to_dict()} != {bdict0}'))
            ok, r = call(lambda: {b: 1}[b] == 1 and isinstance(hash(b), int) and (bd0 is None or bd0[b] == 1))
            if not ok or not r:
                out.append(Fail('blockid/not-usable-as-dict-key', repr(r)))
        return out

    fails = relations()
    if fails:
        return _pick(fails)
    for stage in ('printed', 'printed_late'):
        who = [w for w in case.get(stage, []) if held.get(w) is not None]
        if not who:
            continue
        for w in who:
            _show(held[w], how)
        fails = relations()
        if fails:
            return _pick([Fail(f_.signature + '/after-formatting', f'after {how} of {who}: {f_.detail}') for f_ in fails])
    return None


# --------------------------------------------------------------------------------------------------
# generation: one builder, two sources of choices (hash stream for the enumeration, Hypothesis for the random search)

class HashChooser:
    def __init__(self, seed):
        self.seed = seed if isinstance(seed, bytes) else str(seed).encode()
        self.n = 0

    def _next(self):
        self.n += 1
        return int.from_bytes(hashlib.sha256(self.seed + self.n.to_bytes(4, 'big')).digest(), 'big')

    def int(self, lo, hi):
        return lo + self._next() % (hi - lo + 1)

    def pick(self, seq):
        return seq[self._next() % len(seq)]

    def bytes(self, n):
        out = b''
        while len(out) < n:
            out += self._next().to_bytes(32, 'big')
        return out[:n]


class HypChooser:
    def __init__(self, draw):
        self.draw = draw

    def int(self, lo, hi):
        return self.draw(st.integers(lo, hi))

    def pick(self, seq):
        return self.draw(st.sampled_from(list(seq)))

    def bytes(self, n):
        return self.draw(st.binary(min_size=n, max_size=n))


class FixedChooser:
    """'min': always the first/lowest choice; 'max': always the last/highest"""

    def __init__(self, mode):
        self.mode = mode

    def int(self, lo, hi):
        return lo if self.mode == 'min' else hi

    def pick(self, seq):
        return seq[0] if self.mode == 'min' else seq[-1]

    def bytes(self, n):
        return (b'\x00' if self.mode == 'min' else b'\xff') * n


SMALL_LENS = [0, 1, 2, 3, 4, 5, 6, 7, 8, 11, 12]
EDGE_LENS = [252, 253, 254, 255, 256, 257]
TEXT_POOL = ['a', 'Z', '0', ' ', '\n', 'é', '€', '\U0001F600', '\x00', '\x7f', '߿', '￿', '\ufeff', '\ufeff', '\u200b']


def gen_len(ch, big):
    r = ch.int(0, 39)
    if r < 24:
        return ch.pick(SMALL_LENS)
    if r < 37:
        return ch.pick(EDGE_LENS)
    if r < 39 or not big:
        return 1000
    return 70000


BOOL_TRUE_LE, BOOL_FALSE_LE = bytes.fromhex('b5757299'), bytes.fromhex('379779bc')
IDS_LE = sorted(AVOID)


def magic_word(ch):
    """4 wire bytes that mean something elsewhere in TL: the boolTrue / boolFalse constructor ids, any other known constructor id"""
    r = ch.int(0, 2)
    return BOOL_TRUE_LE if r == 0 else BOOL_FALSE_LE if r == 1 else ch.pick(IDS_LE)


def magic_int(ch, bits, signed):
    """an integer whose little-endian wire bytes are (32 bit) or contain, word-aligned (64 bit), such a word"""
    w = magic_word(ch)
    if bits == 64:
        other = ch.pick([b'\x00' * 4, b'\xff' * 4, w, ch.bytes(4)])
        w = w + other if ch.int(0, 1) else other + w
    return int.from_bytes(w, 'little', signed=signed)


def gen_int(ch, bits, signed=True):
    lo, hi = (-(1 << (bits - 1)), (1 << (bits - 1)) - 1) if signed else (0, (1 << bits) - 1)
    r = ch.int(0, 11)
    if r >= 10 and bits >= 32:
        return magic_int(ch, bits, signed)
    if r < 4:
        return ch.pick([lo, lo + 1, -1, 0, 1, 255, 256, hi - 1, hi] if signed else [0, 1, 255, 256, hi >> 1, hi])
    if r < 6:
        return max(lo, min(hi, (1 << ch.int(0, bits - 1)) + ch.int(-1, 1)))
    return ch.int(lo, hi)


def gen_blob(ch, big):
    n = gen_len(ch, big)
    head = ch.bytes(min(n, ch.pick([0, 4, 8])))
    fill = ch.pick([0x00, 0xff, 0xfe, 0x41, ch.int(0, 255)])
    if n and not head:
        head = bytes([fill])
    v = {'x': head.hex(), 'fill': '%02x' % fill, 'rep': n - len(head)}
    while _blob(v)[:4] in AVOID:                    # construct, do not filter: nudge the first byte
        head = bytes([(head[0] + 1) & 0xff]) + head[1:]
        v['x'] = head.hex()
    return v


def gen_text(ch, big):
    n = gen_len(ch, big)                            # target length in bytes
    s = ''
    for _ in range(ch.pick([0, 1, 3])):
        c = ch.pick(TEXT_POOL)
        if len((s + c).encode()) <= n:
            s += c
    fill = ch.pick(['a', 'b', '~'])
    if n and not s:
        s = fill
    v = {'s': s, 'fill': fill, 'rep': n - len(s.encode())}
    k = 0
    while _text(v).encode()[:4] in AVOID:           # replace the first character, keeping the byte length
        w = len(s[0].encode())
        s = chr(0x63 + k) * w + s[1:]
        k += 1
        v['s'] = s
    return v


def flag_bits(c, fname):
    return sorted({a.cond[1] for a in c.args if a.cond is not None and a.cond[0] == fname})


def gen_obj(ch, name, budget, big, flags=None, bit31=True):
    """value tree of constructor `name`; budget bounds nesting; flags: forced value of the flags field(s)"""
    c = SCH.ctor(name)
    tree = {'@type': name}
    cond_fields = {a.cond[0] for a in c.args if a.cond is not None}
    for a in c.args:
        if a.cond is not None and not (tree[a.cond[0]] >> a.cond[1]) & 1:
            continue
        if a.type == ('prim', '#'):
            if a.name in cond_fields:
                bits = flag_bits(c, a.name)
                if flags is not None:
                    v = flags
                elif budget <= 0:
                    v = 0
                else:
                    v = 0
                    r = ch.int(0, 5)
                    for b in bits:
                        if r == 0 or (r != 1 and ch.int(0, 1)):
                            v |= 1 << b
                    r = ch.int(0, 15)
                    if r < 3:                                   # extra bits no field depends on
                        free = [b for b in range(31) if b not in bits]
                        v |= 1 << ch.pick(free)
                    if r == 15 and bit31:
                        v |= 1 << 31
            else:
                v = ch.pick([0, 1, 2, 3, 255, (1 << 31) - 1, ch.int(0, (1 << 31) - 1),
                             ch.int(0, (1 << 31) - 1)] + ([1 << 31, (1 << 32) - 1, int.from_bytes(BOOL_TRUE_LE, 'little'),
                                                           int.from_bytes(BOOL_FALSE_LE, 'little')] if bit31 else []))
            tree[a.name] = v
            continue
        tree[a.name] = gen_val(ch, a.type, budget, big, (name, a.name), bit31)
    return tree


def gen_val(ch, t, budget, big, where, bit31):
    k = t[0]
    if k == 'prim':
        p = t[1]
        if p == 'int':
            return gen_int(ch, 32)
        if p == 'long':
            return gen_int(ch, 64)
        if p == '#':
            return gen_int(ch, 31, signed=False)
        if p in ('int128', 'int256'):
            n = reftl.FIXED[p]
            r = ch.int(0, 7)
            if r >= 6:                                   # begins (6) / ends (7) with a word that is a constructor id
                w = magic_word(ch)
                return (w + ch.bytes(n - 4) if r == 6 else ch.bytes(n - 4) + w).hex()
            return (b'\x00' * n if r == 0 else b'\xff' * n if r == 1 else ch.bytes(n)).hex()
        if p == 'Bool':
            return bool(ch.int(0, 1))
        if p == 'true':
            return True
        if p == 'string':
            return gen_text(ch, big)
        if p == 'bytes':
            if where not in UNTOUCHABLE and (getattr(ch, 'nest_always', False) or (budget > 0 and ch.int(0, 5) == 0)):
                return gen_obj(ch, ch.pick(NESTED_POOL), budget - 2, False, bit31=bit31)
            return gen_blob(ch, big)
    if k == 'vector':
        forced = getattr(ch, 'vec_n', None)
        if forced is not None and budget > 0:
            n = forced                               # long vectors: small elements (their byte fields still may hold objects)
            return [gen_val(ch, t[1], min(budget - 1, 1), False, where, bit31) for _ in range(n)]
        n = 0 if budget <= 0 else ch.pick([0, 1, 1, 2, 3, 3, 2, ch.pick([15, 16, 17, 33])])
        return [gen_val(ch, t[1], budget - 1 if n <= 3 else min(budget - 1, 1), False, where, bit31) for _ in range(n)]
    if k == 'bare':
        return gen_obj(ch, t[1], budget - 1, big, bit31=bit31)
    if k == 'boxed':
        if t[1] == 'Bool':
            return bool(ch.int(0, 1))
        alts = SCH.alternatives(t[1])
        depth = SCH.depths()
        if budget <= 1:
            m = min(depth[n] for n in alts)
            alts = [n for n in alts if depth[n] == m]
        return gen_obj(ch, ch.pick(alts), budget - 1, big, bit31=bit31)
    raise HarnessError(str(t))


def all_flag_fields(c):
    return sorted({a.cond[0] for a in c.args if a.cond is not None})


ENUM_ALL_BEFORE = {3: ('twin-bool',), 4: ('twin-float',), 5: ('look-schema', 'same', 'parse')}


def enum_all(tier):
    k = 8 if tier == 'quick' else 150
    for name in SUPPORTED:
        c = SCH.ctor(name)
        for j in range(k):
            if j == 0:
                tree = gen_obj(FixedChooser('min'), name, 0, False, flags=0 if all_flag_fields(c) else None, bit31=False)
            elif j == 1:
                allbits = 0
                for f in all_flag_fields(c):
                    for b in flag_bits(c, f):
                        allbits |= 1 << b
                tree = gen_obj(FixedChooser('max'), name, 3, False, flags=allbits if all_flag_fields(c) else None,
                               bit31=False)
            else:
                tree = gen_obj(HashChooser(f'{name}/{j}'), name, 3, tier != 'quick' and j % 10 == 9, bit31=(j % 6 == 5))
            case = {'ctor': name, 'v': tree}
            if j in ENUM_ALL_BEFORE:
                case['before'] = list(ENUM_ALL_BEFORE[j])
            yield case
        if any(a.type[0] == 'vector' for a in c.args):
            # long vectors (16, 17, 40 elements) whose elements' byte fields hold nested objects wherever the schema allows
            for n in (16, 17, 40):
                ch = HashChooser(f'{name}/longvec/{n}')
                ch.vec_n, ch.nest_always = n, True
                yield {'ctor': name, 'v': gen_obj(ch, name, 2, False, bit31=False)}


def enum_id_prefixes(tier):
    """opaque byte strings of 1..3 bytes that are the FIRST bytes of a known constructor id (and 4..7 byte strings that start with an
    id's first 3 bytes followed by another byte): they are too short to be, or do not start with, a boxed object - the parser
    has to hand them back as the bytes they are. Every known id is used, in two host constructors with a single `bytes` field."""
    hosts = [n for n in ('adnl.message.custom', 'liteServer.query', 'pk.unenc') if n in SUPPORTED]
    ids = sorted(AVOID)
    for i, le in enumerate(ids):
        if tier == 'quick' and le[3] not in (0, 0xff) and i % 4:
            continue                                     # quick: every 4th id, and every id whose last byte is 00 / ff
        host = hosts[i % len(hosts)]
        fld = SCH.ctor(host).args[0].name
        outs = [le[:1], le[:2], le[:3]]
        tail = bytes([(le[3] + 1) & 0xff])
        if (le[:3] + tail) not in AVOID:
            outs += [le[:3] + tail, le[:3] + tail + b'\x00\x00\x00']
        for payload in outs:
            yield {'ctor': host, 'v': {'@type': host, fld: {'x': payload.hex(), 'fill': '00', 'rep': 0}}}


def enum_huge_strings(tier):
    """byte and text strings whose 3-byte length has its top bit set (2^23 .. 2^24 - 1 bytes) and their neighbours"""
    hosts = [('adnl.message.custom', 'data', 'blob'), ('liteServer.error', 'message', 'text')]
    for n in (2 ** 23 - 1, 2 ** 23, 2 ** 23 + 5, 2 ** 24 - 1) if tier != 'quick' else (2 ** 23 - 1, 2 ** 23, 2 ** 24 - 4):
        for host, fld, kind in hosts:
            if host not in SUPPORTED_SET:
                continue
            tree = gen_obj(FixedChooser('min'), host, 0, False, bit31=False)
            tree[fld] = {'x': '41', 'fill': '42', 'rep': n - 1} if kind == 'blob' else {'s': 'A', 'fill': 'b', 'rep': n - 1}
            yield {'ctor': host, 'v': tree}


def _s(u, bits):
    return u - (1 << bits) if u >= 1 << (bits - 1) else u


def enum_magic_words(tier):
    """designed coincidences: 32-bit words of int / # / long / int128 / int256 fields (alone, in vectors, as a flags word) whose
    wire bytes equal a constructor id - boolTrue, boolFalse, their neighbours and byte-reversals, every known id"""
    special = [int.from_bytes(w, o) + d for w in (BOOL_TRUE_LE, BOOL_FALSE_LE) for o in ('little', 'big') for d in (0, -1, 1)]
    ids = [int.from_bytes(w, 'little') for w in IDS_LE]
    flag_hosts = [n for n in SUPPORTED if all_flag_fields(SCH.ctor(n))]
    flag_hosts = flag_hosts[::max(1, len(flag_hosts) // 6)][:6]

    def host(name, **fields):
        if name not in SUPPORTED_SET:
            return None
        tree = gen_obj(FixedChooser('min'), name, 1, False, bit31=False)
        for k, v in fields.items():
            if k not in tree:
                raise HarnessError(f'{name} has no field {k}')
            tree[k] = v
        return {'ctor': name, 'v': tree}

    for i, u in enumerate(special + ids):
        w = u.to_bytes(4, 'little')
        out = [host('liteServer.currentTime', now=_s(u, 32)),
               host('liteServer.version', mode=u, version=_s(u, 32), capabilities=_s(u << 32 | u, 64), now=0),
               host('liteServer.version', mode=0, version=0, capabilities=_s(u, 64) if i % 2 else _s(u << 32, 64), now=_s(u, 32))]
        if i < len(special) or i % 16 == 0:
            z = bytes(range(1, 29))
            out += [host('catchain.difference', sent_upto=[5, _s(u, 32), 6, _s(u, 32)]),
                    host('hashable.vector', value=[_s(u, 32)]),
                    host('storage.db.piecesInDb', pieces=[u, _s(u << 32, 64), _s(u << 32 | u, 64)]),
                    host('adnl.address.udp6', ip=(w + z[:12]).hex(), port=_s(u, 32)),
                    host('adnl.address.udp6', ip=(z[:12] + w).hex(), port=0),
                    host('engine.gc', ids=[(w + z).hex(), (z + w).hex()]),
                    host('pub.ed25519', key=(w + z).hex())]
            for n in flag_hosts:                         # the word as a flags value: the fields its bits select are present
                out.append({'ctor': n, 'v': gen_obj(HashChooser(f'magic/{n}/{u}'), n, 2, False, flags=u, bit31=True)})
        for c in out:
            if c is not None:
                yield c


def enum_earlier_calls(tier):
    """histories in a freshly imported library (case['fresh']): BEFORE the well-typed value is serialised and parsed, the process
    serialised its bool/int/float twin (1 for True, False for 0, 7.0 for 7: accepted, not well-typed), the value itself, parsed its
    bytes, printed the schema - on the same TlSchemas object or on another one. Values: Bool fields both ways and integers 0/1
    (both assignments; every constructor with a Bool field x a third of the programs, four integer hosts x all programs), and
    hash-seeded values with their float twins (those plus every 12th other constructor; no fresh import needed)."""
    programs = [['twin-bool'], ['twin-float'], ['same', 'twin-bool', 'same'], ['parse', 'twin-float', 'twin-bool'],
                ['other-instance:twin-bool'], ['other-instance:twin-float'], ['look-schema', 'twin-bool', 'twin-float']]
    has_bool = [n for n in SUPPORTED if any(a.type in (('prim', 'Bool'), ('boxed', 'Bool'), ('vector', ('prim', 'Bool')),
                                                        ('vector', ('boxed', 'Bool'))) for a in SCH.ctor(n).args)]
    ints = [n for n in ('liteServer.currentTime', 'liteServer.version', 'catchain.difference', 'storage.db.piecesInDb')
            if n in SUPPORTED_SET]
    rest = [n for i, n in enumerate(SUPPORTED) if i % 12 == 0 and n not in has_bool and n not in ints]
    for idx, name in enumerate(has_bool + ints + rest):
        base = gen_obj(HashChooser(f'earlier/{name}'), name, 2, False, bit31=False)
        # hash-seeded integers: their float twins are values this process has not met, no fresh import needed
        yield {'ctor': name, 'v': base, 'before': programs[1]}
        if idx % 4 == 0:
            yield {'ctor': name, 'v': base, 'before': programs[5]}
        if name in rest:
            continue
        for variant in (0, 1):
            cnt = [variant]

            def small(p, v, fl):
                if fl or p in ('int128', 'int256'):
                    return v
                cnt[0] += 1
                return bool(cnt[0] % 2) if p == 'Bool' else cnt[0] % 2
            tree = map_leaves(name, base, small)
            for k, prog in enumerate(programs):
                if name in ints or (k + idx + variant) % 3 == 0:
                    yield {'ctor': name, 'v': tree, 'before': prog, 'fresh': True}


def enum_flags(tier):
    cap = 64 if tier == 'quick' else 4096
    for name in SUPPORTED:
        c = SCH.ctor(name)
        ff = all_flag_fields(c)
        if not ff:
            continue
        bits = sorted({b for f in ff for b in flag_bits(c, f)})
        total = 1 << len(bits)
        if total <= cap:
            combos = range(total)
        else:
            hc = HashChooser(f'flags/{name}')
            combos = sorted({0, total - 1} | {hc.int(0, total - 1) for _ in range(cap - 2)})
        for m in combos:
            v = 0
            for i, b in enumerate(bits):
                if (m >> i) & 1:
                    v |= 1 << b
            yield {'ctor': name, 'v': gen_obj(HashChooser(f'flags/{name}/{m}'), name, 2, False, flags=v, bit31=False)}


@st.composite
def _random_case(draw, big):
    name = draw(st.sampled_from(SUPPORTED))
    budget = draw(st.sampled_from([1, 2, 3, 4]))
    bit31 = draw(st.integers(0, 7)) == 0
    tree = gen_obj(HypChooser(draw), name, budget, big, bit31=bit31)
    case = {'ctor': name, 'v': tree}
    if draw(st.integers(0, 4)) == 0:                    # every 5th case: earlier calls of the same process (cheap ones)
        case['before'] = draw(st.lists(st.sampled_from(BEFORE_OPS[:5]), min_size=1, max_size=3))
    return case


def strat_random(tier):
    return _random_case(tier != 'quick')


def strat_strings(tier):
    """constructors that carry a string/bytes field directly, lengths around the framing boundaries"""
    names = [n for n in SUPPORTED if any(a.type in (('prim', 'string'), ('prim', 'bytes')) for a in SCH.ctor(n).args)]

    @st.composite
    def s(draw):
        name = draw(st.sampled_from(names))
        return {'ctor': name, 'v': gen_obj(HypChooser(draw), name, 1, True, bit31=False)}
    return s()


def strat_blockid(tier):
    h = st.one_of(st.binary(min_size=32, max_size=32), st.sampled_from([b'\x00' * 32, b'\xff' * 32]))
    i32 = st.one_of(st.sampled_from([0, -1, 1, -2 ** 31, 2 ** 31 - 1]), st.integers(-2 ** 31, 2 ** 31 - 1))
    i64 = st.one_of(st.none(), st.sampled_from([0, -1, -2 ** 63, 2 ** 63 - 1, 1 << 62]), st.integers(-2 ** 63, 2 ** 63 - 1))
    # history: which of the held ids (x, its twin, its bytes / dict round trips y / z, the BlockId b) the caller formatted before
    # comparing / looking up - mostly exactly one of them, sometimes several, sometimes none - and how
    who = st.one_of(st.sampled_from(BID_WHO).map(lambda w: [w]), st.lists(st.sampled_from(BID_WHO), max_size=4, unique=True))
    return st.fixed_dictionaries({'wc': i32, 'shard': i64, 'seqno': i32, 'root': h.map(bytes.hex),
                                  'file': h.map(bytes.hex), 'hex_args': st.booleans(),
                                  'printed': who, 'printed_late': who, 'how': st.sampled_from(BID_HOW)})


# --------------------------------------------------------------------------------------------------
# evidence

def classify(case):
    name = case['ctor']
    c = SCH.ctor(name)
    yield f'ctor={name}'
    yield f'file={c.file}/{c.section}'
    info = new_info()
    try:
        mat_obj(name, case['v'], info)
    except Exception:
        yield 'unmaterialisable'
        return
    for k in sorted(info['kinds']):
        yield 'has=' + k
    for n in set(info['lens']):
        yield 'len=' + ('0' if n == 0 else '1..251' if n < 252 else str(n) if n <= 257 else '>257' if n < 70000 else '70000')
        yield f'len%4={n % 4}'
    for n in set(info['veclens']):
        yield f'veclen={n}'
    yield f'ctors-in-value={min(len(info["ctors"]), 5)}'
    for op in case.get('before', ()):
        yield 'earlier-call=' + op
    if case.get('fresh'):
        yield 'fresh-library'


def nontrivial(case):
    info = new_info()
    try:
        mat_obj(case['ctor'], case['v'], info)
    except Exception:
        return False
    return bool(info['kinds'] & {'string', 'bytes', 'bytes-nested', 'vector', 'nested', 'conditional'})


def classify_bid(case):
    yield 'shard=None' if case['shard'] is None else 'shard<0' if case['shard'] < 0 else 'shard>=0'
    yield 'hex-args' if case['hex_args'] else 'bytes-args'
    yield 'wc<0' if case['wc'] < 0 else 'wc>=0'
    yield 'formatted-first=' + ('none' if not case.get('printed') else case['printed'][0] if len(case['printed']) == 1 else 'several')
    yield 'formatted-later=' + ('none' if not case.get('printed_late') else 'some')
    yield 'how=' + case.get('how', '-')


SUBCHECKS = [
    Sub('enum-all-constructors', check_ctor, enum=enum_all, classify=classify, nontrivial=nontrivial, shards=(16, 32),
        note=f'every one of the {len(SUPPORTED)} supported constructors x k values (k=8 quick, 150 thorough)'),
    Sub('flags-all-combinations', check_ctor, enum=enum_flags, classify=classify, nontrivial=nontrivial, shards=(8, 16),
        note='every constructor with conditional fields x every combination of its flag bits (capped 64 / 4096)'),
    Sub('bytes-that-begin-like-a-constructor-id', check_ctor, enum=enum_id_prefixes, classify=classify, nontrivial=nontrivial, shards=(8, 16),
        note='1..3-byte (and 4..7-byte) opaque payloads sharing their first bytes with every known constructor id (quick: every 4th id)'),
    Sub('strings-of-8-to-16-MiB', check_ctor, enum=enum_huge_strings, classify=classify, nontrivial=nontrivial, shards=(6, 8), case_cpu_s=120,
        note='lengths 2^23-1, 2^23, 2^24-4 (thorough: 2^23+5, 2^24-1): the 3-byte length field with its top bit set'),
    Sub('words-equal-to-constructor-ids', check_ctor, enum=enum_magic_words, classify=classify, nontrivial=nontrivial, shards=(8, 8),
        note='int / # / long / int128 / int256 fields, vector elements and flags words whose wire bytes are boolTrue, boolFalse (and '
             'neighbours, byte-reversals) or any other known constructor id'),
    Sub('earlier-calls-in-a-fresh-library', check_ctor, enum=enum_earlier_calls, classify=classify, nontrivial=nontrivial, shards=(8, 8),
        note='TL modules imported afresh per case; earlier calls with equal-but-differently-typed (bool/int/float) values, the same '
             'value, a parse, a printed schema, on this or another TlSchemas object; then the well-typed call'),
    Sub('random', check_ctor, strategy=strat_random, classify=classify, nontrivial=nontrivial,
        n=(12000, 600000), shards=(16, 48)),
    Sub('string-framing', check_ctor, strategy=strat_strings, classify=classify, nontrivial=nontrivial,
        n=(4000, 150000), shards=(8, 32)),
    Sub('block-id-helpers', check_blockid, strategy=strat_blockid, classify=classify_bid, n=(1000, 50000), shards=(4, 8)),
    Sub('raw-bytes', check_raw, enum=enum_raw, shards=(4, 4), note='plain byte strings (reference encodings, truncated and extended by '
        'one word); inputs found by the Atheris campaign replay through this sub-check'),
    Sub('atheris-campaign', check_campaign, enum=enum_campaigns, shards=(8, 8), tiers=('thorough',), case_cpu_s=3600,
        note='8 coverage-guided libFuzzer campaigns x 60000 executions over TlSchemas.deserialize (7 seeded with reference '
             'encodings of up to 400 constructors, 1 from an empty corpus); oracle = raw-bytes inside the target'),
]

# the same generated cases, several at a time, checked by threads that run at the same time (core.run_overlapping): per-call state
# kept in a place two calls share shows only there
SUBCHECKS.append(__import__('harness.core', fromlist=['overlapped']).overlapped(next(s for s in SUBCHECKS if s.name == 'random'), k=4, n=(80, 4000)))
SUBCHECKS.append(__import__('harness.core', fromlist=['overlapped']).overlapped(next(s for s in SUBCHECKS if s.name == 'string-framing'), k=4, n=(40, 2000), name='two-threads-strings'))


def check_hammer(case):
    """block ids and TL values prepared one after the other; their conversions are then made by 4 threads in tight loops at the same
    time (core.hammer): each call returns what it returns alone"""
    from harness.core import hammer
    from pytoniq_core.tl.block import BlockId, BlockIdExt
    calls = []
    for c in case['ids']:
        wc, shard, seqno = c['wc'], c['shard'], c['seqno']
        root, file = bytes.fromhex(c['root']), bytes.fromhex(c['file'])
        ok, x = call(BlockIdExt, wc, shard, seqno, root, file)
        if not ok:
            continue
        ok, raw = call(x.to_bytes)
        calls.append(('BlockIdExt.to_bytes', lambda x=x: bytes(x.to_bytes())))
        calls.append(('BlockIdExt.to_dict', lambda x=x: sorted((k, v if not isinstance(v, (bytes, bytearray)) else bytes(v).hex()) for k, v in x.to_dict().items())))
        calls.append(('hash(BlockIdExt)', lambda x=x: hash(x)))
        if ok:
            calls.append(('BlockIdExt.from_bytes', lambda raw=bytes(raw): (lambda y: (y.workchain, y.shard, y.seqno, bytes(y.root_hash), bytes(y.file_hash)))(BlockIdExt.from_bytes(raw))))
        ok, b = call(BlockId, wc, shard, seqno)
        if ok:
            calls.append(('BlockId.to_dict', lambda b=b: sorted(b.to_dict().items())))
    g, schemas = _schemas()
    for c in case['ids'][:2]:
        blk = {'workchain': c['wc'], 'shard': -2 ** 63 if c['shard'] is None else c['shard'], 'seqno': c['seqno'], 'root_hash': c['root'], 'file_hash': c['file']}
        ok, data = call(lambda: schemas.serialize(schemas.get_by_name('tonNode.blockIdExt'), blk))
        calls.append(('TlSchemas.serialize', lambda blk=blk: bytes(schemas.serialize(schemas.get_by_name('tonNode.blockIdExt'), dict(blk)))))
        if ok:
            calls.append(('TlSchemas.deserialize', lambda data=bytes(data): repr(schemas.deserialize(data))))
    if len(calls) < 2:
        return None
    return hammer(calls, threads=4, rounds=25)


SUBCHECKS.append(Sub('two-threads-conversions', check_hammer,
                     strategy=lambda tier: st.lists(strat_blockid(tier), min_size=3, max_size=4).map(lambda cs: {'ids': cs}),
                     classify=lambda case: ['ids=%d' % len(case['ids'])], nontrivial=lambda case: True, n=(60, 2000), shards=(8, 16),
                     note='to_bytes / from_bytes / to_dict / hash of 3-4 block ids and TL (de)serialisation of two of them, made by 4 threads '
                          'in tight loops at the same time; oracle = what each call returns alone'))
