"""C18 — CRC-16/XMODEM and CRC-32C equal their bitwise definitions."""
from hypothesis import strategies as st
from harness.core import Sub, Fail
from harness.ref import refcrc

RULE = ('cases are byte strings (hex). exhaustive sub-check: every string of length 0,1,2 (65 793); generated: '
        'random strings 0..4096 bytes, runs of one byte, strings ending in every byte value, long inputs (4 KiB..64 KiB, thorough 1 MiB) around power-of-two sizes; '
        'non-trivial = length >= 1; distinct = distinct byte string')
ASSUMPTIONS = ['harness/ref/refcrc.py bitwise definitions (self-checked against the "123456789" check values)']


def _try(f, *a):
    try:
        return True, f(*a)
    except Exception as e:        # a buffer type the library does not take is not a checksum error
        return False, e


def check(case):
    from pytoniq_core.crypto.crc import crc16, crc32c
    data = bytes.fromhex(case['data'])
    r16 = refcrc.crc16_xmodem(data)
    # calls that are refused part-way (an element that is no byte, a byte order that does not exist) come first: whatever
    # they raise, the checksum of the next byte string is still a function of that byte string alone
    junk = list(data[:1 + len(data) // 2]) + ['x']
    for f in (lambda: crc32c(junk), lambda: crc16(junk), lambda: crc32c(data, 'middle'),
              lambda: crc32c(iter(junk), 'big'), lambda: crc16(iter(junk))):
        try:
            f()
        except Exception:
            pass
    got = crc16(data)
    if got != r16.to_bytes(2, 'big'):
        return Fail('crc16/mismatch', f'crc16({data.hex()[:80]})={got!r} expected {r16:04x}')
    r32 = refcrc.crc32c(data)
    for order in ('little', 'big', ''.join(['lit', 'tle'][::1]).lower().strip(), 'BIG'.lower()):
        got = crc32c(data, order)
        if got != r32.to_bytes(4, order):
            return Fail(f'crc32c/mismatch-{order}', f'crc32c({data.hex()[:80]},{order})={got!r} expected {r32:08x}')
    if crc32c(data) != r32.to_bytes(4, 'little'):
        return Fail('crc32c/default-byteorder', 'default byte order is not little-endian')
    # the same input again with the byte order given by keyword, in both call orders (a result must not depend on earlier calls)
    for order in ('big', 'little', 'big'):
        order = ''.join(list(order))            # an equal string that is not the interned literal (as read from a file or a config)
        got = crc32c(data, byteorder=order)
        if got != r32.to_bytes(4, order):
            return Fail(f'crc32c/depends-on-earlier-calls/keyword-{order}', f'crc32c({data.hex()[:40]}, byteorder={order!r})={got!r} '
                        f'expected {r32.to_bytes(4, order).hex()}')
    if crc32c(data) != r32.to_bytes(4, 'little') or crc16(data) != r16.to_bytes(2, 'big'):
        return Fail('crc/depends-on-earlier-calls/repeat', data.hex()[:80])
    # the same byte string behind the other buffer types Python has for bytes (memoryview.tobytes() == data for each of them,
    # the signed-char view yields items -128..127 for the same bytes)
    if data:
        pad = b'\xa5' * 3
        for name, d in (('memoryview', memoryview(data)), ('memoryview-signed-char', memoryview(data).cast('b')),
                        ('memoryview-of-bytearray', memoryview(bytearray(data))),
                        ('memoryview-slice-of-a-larger-buffer', memoryview(pad + data + pad)[3:3 + len(data)]),
                        ('memoryview-slice-of-a-larger-bytearray', memoryview(bytearray(pad + data + pad))[3:-3])):
            ok16, g16 = _try(crc16, d)
            ok32, g32 = _try(crc32c, d)
            if (ok16 and g16 != r16.to_bytes(2, 'big')) or (ok32 and g32 != r32.to_bytes(4, 'little')):
                return Fail(f'crc/{name}-input-differs', f'{data.hex()[:80]}: crc16={g16!r} crc32c={g32!r} '
                            f'expected {r16:04x} / {r32.to_bytes(4, "little").hex()}')
    # a computation that starts while another one is still consuming its input (the byte source of the outer call computes
    # checksums itself half-way): each call's result is a function of its own input
    if len(data) >= 2:
        inner = bytes(data[::-1][:7]) or b'x'

        def src():
            for i, x in enumerate(data):
                if i == len(data) // 2:
                    crc16(inner), crc32c(inner), crc32c(inner, 'big')
                yield x
        ok16, g16 = _try(crc16, src())
        ok32, g32 = _try(crc32c, src())
        if (ok16 and g16 != r16.to_bytes(2, 'big')) or (ok32 and g32 != r32.to_bytes(4, 'little')):
            return Fail('crc/nested-call-disturbs-the-outer-one', f'{data.hex()[:80]}: crc16={g16!r} crc32c={g32!r}')
        if crc16(inner) != refcrc.crc16_xmodem(inner).to_bytes(2, 'big') or crc32c(inner) != refcrc.crc32c(inner).to_bytes(4, 'little'):
            return Fail('crc/depends-on-earlier-calls/after-nested', inner.hex())
    # a mutable byte string that is changed in place between two calls
    if data:
        ba = bytearray(data)
        if crc16(ba) != r16.to_bytes(2, 'big') or crc32c(ba) != r32.to_bytes(4, 'little'):
            return Fail('crc/bytearray-input-differs', data.hex()[:80])
        ba[len(ba) // 2] ^= 0x01
        m16, m32 = refcrc.crc16_xmodem(bytes(ba)), refcrc.crc32c(bytes(ba))
        if crc16(ba) != m16.to_bytes(2, 'big'):
            return Fail('crc16/stale-after-in-place-change', f'bytearray changed in place between two calls: {bytes(ba).hex()[:80]}')
        if crc32c(ba) != m32.to_bytes(4, 'little'):
            return Fail('crc32c/stale-after-in-place-change', f'bytearray changed in place between two calls: {bytes(ba).hex()[:80]}')
    return None


def check_long(case):
    """long inputs described compactly: n bytes of a SHA-256 counter stream (or one repeated byte); reference = table-driven
    implementation generated from the bitwise definition (refcrc self-checks it against the bitwise loops)"""
    import hashlib
    from pytoniq_core.crypto.crc import crc16, crc32c
    n = case['n']
    if 'fill' in case:
        data = bytes([case['fill']]) * n
    else:
        out = bytearray()
        c = 0
        while len(out) < n:
            out += hashlib.sha256(b'c18/%d/%d' % (case['seed'], c)).digest()
            c += 1
        data = bytes(out[:n])
    if 'zero_at' in case:
        # the running register of each checksum is forced to ZERO exactly at offset zero_at (a place where an implementation
        # that works block by block hands the register from one block to the next): for the reflected CRC-32C, appending the
        # register's own 4 bytes (little-endian) clears it; for CRC-16/XMODEM (initial value 0) appending the 2 big-endian
        # bytes of the checksum so far does. One input serves both: [P | crc16 fix] for crc16 is checked on data16.
        z = case['zero_at']
        p32 = data[:z - 4]
        raw = refcrc.crc32c_fast(p32) ^ 0xffffffff
        data32 = p32 + raw.to_bytes(4, 'little') + data[z:]
        if refcrc.crc32c_fast(data32[:z]) ^ 0xffffffff != 0:
            raise AssertionError('register not cleared (harness)')
        p16 = data[:z - 2]
        data16 = p16 + refcrc.crc16_xmodem_fast(p16).to_bytes(2, 'big') + data[z:]
        if refcrc.crc16_xmodem_fast(data16[:z]) != 0:
            raise AssertionError('crc16 register not cleared (harness)')
        if crc16(data16) != refcrc.crc16_xmodem_fast(data16).to_bytes(2, 'big'):
            return Fail('crc16/mismatch/register-zero-inside-the-input', f'{n} bytes, register 0 at offset {z}')
        r32 = refcrc.crc32c_fast(data32)
        for order in ('little', 'big'):
            if crc32c(data32, order) != r32.to_bytes(4, order):
                return Fail(f'crc32c/mismatch-{order}/register-zero-inside-the-input', f'{n} bytes, register 0 at offset {z}')
        return None
    forms = [('bytes', data)]
    if case.get('as') == 'bytearray':
        forms.append(('bytearray', bytearray(data)))
    for name, d in forms:
        if crc16(d) != refcrc.crc16_xmodem_fast(data).to_bytes(2, 'big'):
            return Fail(f'crc16/mismatch/long-input', f'{name} of {n} bytes')
        r32 = refcrc.crc32c_fast(data)
        for order in ('little', 'big'):
            if crc32c(d, order) != r32.to_bytes(4, order):
                return Fail(f'crc32c/mismatch-{order}/long-input', f'{name} of {n} bytes')
    return None


def enum_long(tier):
    sizes = [4095, 4096, 4097, 8191, 8192, 8193, 16384, 32767, 32768, 32769, 65535, 65536, 65537, 131072, 262143, 262144, 262145,
             524288, 1048575, 1048576, 1048577,
             # round decimal sizes and odd multiples of 64 KiB: block sizes a programmer may pick
             10000, 100000, 1000000, 999999, 1000001, 3 * 65536, 5 * 65536, 3 * 262144, 200000, 500000]
    if tier != 'quick':
        sizes += [131071, 131073, 3 * 262144, 2097152, 2097153, 4194304]
    for i, n in enumerate(sizes):
        yield {'n': n, 'seed': i, 'as': 'bytearray' if i % 3 == 0 else 'bytes'}
        yield {'n': n, 'fill': (0x00, 0xFF, 0xA5)[i % 3]}
    # register forced to zero at every power-of-two offset 8 .. 2^17 (thorough 2^20) and a few multiples, with short and long tails
    offs = [1 << k for k in range(3, 18 if tier == 'quick' else 21)] + [3 * 4096, 2 * 65536 if tier != 'quick' else 3 * 1024, 5 * 512, 1000, 65535]
    for j, z in enumerate(offs):
        for tail in (1, 9, 4097):
            yield {'n': z + tail, 'seed': 1000 + j, 'zero_at': z}


def enum_short(tier):
    yield {'data': ''}
    for a in range(256):
        yield {'data': '%02x' % a}
    for a in range(256):
        for b in range(256):
            yield {'data': '%02x%02x' % (a, b)}


def enum_structured(tier):
    # every byte value after prefixes that drive the high byte of the state through many values
    for pre in (b'\xff' * 3, b'\x00' * 5, bytes(range(256)), b'\xa5' * 64, bytes(range(255, -1, -1)) * 2):
        for b in range(256):
            yield {'data': (pre + bytes([b])).hex()}
            yield {'data': (bytes([b]) + pre).hex()}
    for n in (3, 4, 63, 64, 65, 255, 256, 257, 1023, 1024, 4095, 4096):
        for fill in (0, 0xFF, 0x80, 0x01):
            yield {'data': (bytes([fill]) * n).hex()}


def strat(tier):
    mx = 4096
    return st.one_of(
        st.binary(min_size=0, max_size=64),
        st.binary(min_size=0, max_size=mx),
        st.builds(lambda b, n: bytes([b]) * n, st.integers(0, 255), st.integers(0, mx)),
    ).map(lambda b: {'data': b.hex()})


def classify(case):
    n = len(case['data']) // 2
    yield 'len=0' if n == 0 else 'len=1' if n == 1 else 'len=2' if n == 2 else 'len<=64' if n <= 64 else 'len>64'


SUBCHECKS = [
    Sub('all-len-0-1-2', check, enum=enum_short, classify=classify, nontrivial=lambda c: len(c['data']) >= 2,
        shards=(16, 16), exhaustive=True),
    Sub('structured', check, enum=enum_structured, classify=classify, nontrivial=lambda c: len(c['data']) >= 2,
        shards=(4, 4)),
    Sub('long-inputs', check_long, enum=enum_long, shards=(13, 16), classify=lambda c: ['len=%d' % c['n']] if 'zero_at' not in c else ['register-zero-at=%d' % c['zero_at']],
        note='4095..65537 bytes (thorough: up to 1 MiB + 1) around block-size boundaries; bytes and bytearray'),
    Sub('random', check, strategy=strat, classify=classify, nontrivial=lambda c: len(c['data']) >= 2,
        n=(3000, 200000), shards=(8, 32)),
]
