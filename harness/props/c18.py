"""C18 — CRC-16/XMODEM and CRC-32C equal their bitwise definitions.

Asserted: whenever crc16 / crc32c RETURN a value for an argument, it is the checksum (per harness/ref/refcrc.py) of the bytes that
argument holds at the moment of the call, in the requested byte order - whatever was computed before in the process, whatever other
library entry point used the checksums before, and whichever Python buffer type carries the bytes. For a memoryview "the bytes it
holds" are the bytes it READS (tobytes()): with a step, backwards, from an offset, as rows of a 2-D / 3-D shape, in format 'b' / 'c' -
not the bytes of the object it looks into. Inputs that CONTAIN the checksum of their own front part (a record followed by its checksum,
then padding or the next record) are byte strings like any other: sub-checks 'own-checksum-inside*' place that word at every alignment.
Not asserted: that a given buffer type is accepted at all (a refusal by exception is fine for anything but bytes / bytearray /
whole-object memoryviews of them: a strided view refused with BufferError is a refusal, not a wrong checksum), anything about Cell.to_boc / from_boc / Address themselves (they only appear as earlier history), speed.
"""
from hypothesis import strategies as st
from harness.core import overlapped, Sub, Fail
from harness.ref import refcrc

RULE = ('cases are byte strings (hex). exhaustive sub-check: every string of length 0,1,2 (65 793); generated: '
        'random strings 0..4096 bytes, runs of one byte, strings ending in every byte value, long inputs (4 KiB..64 KiB, thorough 1 MiB) around power-of-two sizes; '
        'every case is also asked through memoryviews, a nested call and a bytearray edited in place. '
        'edited-in-place: ONE buffer object of 16 kinds (bytearray, hashable bytearray subclass, anonymous mmap, read-only file mapping written '
        'through a second handle, array, ctypes array, and writable / read-only / sliced / signed-char / re-created memoryviews of them) asked '
        'before and after 1..3 in-place edits and after the original content is restored, plus short-lived equal copies; '
        'views: the string is what a memoryview reads, laid out inside a larger / differently ordered object of 8 kinds (bytes, bytes subclass, '
        'bytearray, view of a view, array B / H, mmap, ctypes array) by 1..3 slicings on top of each other (steps 1, -1, 2, -2, 3, -3, 7, -7; 0..5 '
        'filler items before / after; open-ended bounds; also full-span reversed and double-reversed), 1-D or rows of a 2-D / 3-D cast, formats '
        'B / b / c, read-only or not; asked: the view, the object under it, the view again, the view read the other way round, a second equal '
        'view, and all of these again after one byte was changed through the view; '
        'designed-pairs: two different strings (16 B .. 70 kB, thorough 300 kB) asked alternately that agree in length and in IEEE CRC-32 '
        '(generator polynomial or a multiple of it xored into the bit stream at start / middle / end), Adler-32, the other one of the two '
        'checksums, CRC-32 and byte sum together, the multiset of bytes, everything but the first / last byte / one middle bit, or that '
        'have different lengths and equal IEEE CRC-32 (forged tail); '
        'own-checksum-inside: the string contains the running checksum of everything before it (CRC-16 big / little-endian; the CRC-32C shift '
        'register before the final inversion - the word that clears it - or the finished CRC-32C, little / big-endian), grid: after every '
        'prefix length 0..40 (every alignment mod 16) and around 64, 256, 1024, 4096, 8192, 65536 (thorough 2^18, 2^20), followed by 0..16 zero '
        'bytes / 0xFF / 0x01 / 0x80 bytes and a tail of 0..9 bytes, with one bit of the word flipped, after constant prefixes, three such words '
        'in one input; generated: random prefix 0..160 bytes, 1..4 such words each followed by 0..17 filler bytes, random tail; asked: the '
        'whole string as bytes / bytearray / memoryview and every prefix of it from inside the word to 8 bytes past it; '
        'after-other-entry-points: programs of 1..4 ordinary calls (Cell.to_boc with/without hash_crc32, has_idx, has_cache_bits; Cell.from_boc of a '
        'reference-built bag, sound or with one bit flipped, as bytes / hex / base64; Address rendered, printed, hashed; friendly address parsed, sound '
        'or with one bit flipped) and after each step and at the end the checksums of the byte strings involved (the bag, the bag without '
        'trailer, the trailer, the 34 / 36 address bytes, each also followed by its own checksum) as the very object, an equal copy, a '
        'memoryview, a bytearray; '
        'non-trivial = length >= 1; distinct = distinct byte string / distinct program')
ASSUMPTIONS = ['harness/ref/refcrc.py bitwise definitions (self-checked against the "123456789" check values)']


def _try(f, *a):
    try:
        return True, f(*a)
    except Exception as e:        # a buffer type the library does not take is not a checksum error
        return False, e


def check(case):
    from pytoniq_core.crypto.crc import crc16, crc32c
    data = bytes.fromhex(case['data'])
    r16 = refcrc.crc16_xmodem(data)
    # calls that are refused part-way (an element that is no byte, a byte order that does not exist) come first: whatever
    # they raise, the checksum of the next byte string is still a function of that byte string alone
    junk = list(data[:1 + len(data) // 2]) + ['x']
    for f in (lambda: crc32c(junk), lambda: crc16(junk), lambda: crc32c(data, 'middle'),
              lambda: crc32c(iter(junk), 'big'), lambda: crc16(iter(junk))):
        try:
            f()
        except Exception:
            pass
    got = crc16(data)
    if got != r16.to_bytes(2, 'big'):
        return Fail('crc16/mismatch', f'crc16({data.hex()[:80]})={got!r} expected {r16:04x}')
    r32 = refcrc.crc32c(data)
    for order in ('little', 'big', ''.join(['lit', 'tle'][::1]).lower().strip(), 'BIG'.lower()):
        got = crc32c(data, order)
        if got != r32.to_bytes(4, order):
            return Fail(f'crc32c/mismatch-{order}', f'crc32c({data.hex()[:80]},{order})={got!r} expected {r32:08x}')
    if crc32c(data) != r32.to_bytes(4, 'little'):
        return Fail('crc32c/default-byteorder', 'default byte order is not little-endian')
    # the same input again with the byte order given by keyword, in both call orders (a result must not depend on earlier calls)
    for order in ('big', 'little', 'big'):
        order = ''.join(list(order))            # an equal string that is not the interned literal (as read from a file or a config)
        got = crc32c(data, byteorder=order)
        if got != r32.to_bytes(4, order):
            return Fail(f'crc32c/depends-on-earlier-calls/keyword-{order}', f'crc32c({data.hex()[:40]}, byteorder={order!r})={got!r} '
                        f'expected {r32.to_bytes(4, order).hex()}')
    if crc32c(data) != r32.to_bytes(4, 'little') or crc16(data) != r16.to_bytes(2, 'big'):
        return Fail('crc/depends-on-earlier-calls/repeat', data.hex()[:80])
    # the same byte string behind the other buffer types Python has for bytes (memoryview.tobytes() == data for each of them,
    # the signed-char view yields items -128..127 for the same bytes)
    if data:
        pad = b'\xa5' * 3
        for name, d in (('memoryview', memoryview(data)), ('memoryview-signed-char', memoryview(data).cast('b')),
                        ('memoryview-of-bytearray', memoryview(bytearray(data))),
                        ('memoryview-slice-of-a-larger-buffer', memoryview(pad + data + pad)[3:3 + len(data)]),
                        ('memoryview-slice-of-a-larger-bytearray', memoryview(bytearray(pad + data + pad))[3:-3]),
                        # views that do not read their object front to back (more of them: sub-check 'views')
                        ('memoryview-reading-backwards', memoryview(data[::-1])[::-1]),
                        ('memoryview-reading-every-second-byte', memoryview(bytearray(b'\x5a'.join(bytes([x]) for x in data)))[::2])):
            ok16, g16 = _try(crc16, d)
            ok32, g32 = _try(crc32c, d)
            if (ok16 and g16 != r16.to_bytes(2, 'big')) or (ok32 and g32 != r32.to_bytes(4, 'little')):
                return Fail(f'crc/{name}-input-differs', f'{data.hex()[:80]}: crc16={g16!r} crc32c={g32!r} '
                            f'expected {r16:04x} / {r32.to_bytes(4, "little").hex()}')
    # a computation that starts while another one is still consuming its input (the byte source of the outer call computes
    # checksums itself half-way): each call's result is a function of its own input
    if len(data) >= 2:
        inner = bytes(data[::-1][:7]) or b'x'

        def src():
            for i, x in enumerate(data):
                if i == len(data) // 2:
                    crc16(inner), crc32c(inner), crc32c(inner, 'big')
                yield x
        ok16, g16 = _try(crc16, src())
        ok32, g32 = _try(crc32c, src())
        if (ok16 and g16 != r16.to_bytes(2, 'big')) or (ok32 and g32 != r32.to_bytes(4, 'little')):
            return Fail('crc/nested-call-disturbs-the-outer-one', f'{data.hex()[:80]}: crc16={g16!r} crc32c={g32!r}')
        if crc16(inner) != refcrc.crc16_xmodem(inner).to_bytes(2, 'big') or crc32c(inner) != refcrc.crc32c(inner).to_bytes(4, 'little'):
            return Fail('crc/depends-on-earlier-calls/after-nested', inner.hex())
    # a mutable byte string that is changed in place between two calls
    if data:
        ba = bytearray(data)
        if crc16(ba) != r16.to_bytes(2, 'big') or crc32c(ba) != r32.to_bytes(4, 'little'):
            return Fail('crc/bytearray-input-differs', data.hex()[:80])
        ba[len(ba) // 2] ^= 0x01
        m16, m32 = refcrc.crc16_xmodem(bytes(ba)), refcrc.crc32c(bytes(ba))
        if crc16(ba) != m16.to_bytes(2, 'big'):
            return Fail('crc16/stale-after-in-place-change', f'bytearray changed in place between two calls: {bytes(ba).hex()[:80]}')
        if crc32c(ba) != m32.to_bytes(4, 'little'):
            return Fail('crc32c/stale-after-in-place-change', f'bytearray changed in place between two calls: {bytes(ba).hex()[:80]}')
    return None


def check_long(case):
    """long inputs described compactly: n bytes of a SHA-256 counter stream (or one repeated byte); reference = table-driven
    implementation generated from the bitwise definition (refcrc self-checks it against the bitwise loops)"""
    import hashlib
    from pytoniq_core.crypto.crc import crc16, crc32c
    n = case['n']
    if 'fill' in case:
        data = bytes([case['fill']]) * n
    else:
        out = bytearray()
        c = 0
        while len(out) < n:
            out += hashlib.sha256(b'c18/%d/%d' % (case['seed'], c)).digest()
            c += 1
        data = bytes(out[:n])
    if 'zero_at' in case:
        # the running register of each checksum is forced to ZERO exactly at offset zero_at (a place where an implementation
        # that works block by block hands the register from one block to the next): for the reflected CRC-32C, appending the
        # register's own 4 bytes (little-endian) clears it; for CRC-16/XMODEM (initial value 0) appending the 2 big-endian
        # bytes of the checksum so far does. One input serves both: [P | crc16 fix] for crc16 is checked on data16.
        z = case['zero_at']
        p32 = data[:z - 4]
        raw = refcrc.crc32c_fast(p32) ^ 0xffffffff
        data32 = p32 + raw.to_bytes(4, 'little') + data[z:]
        if refcrc.crc32c_fast(data32[:z]) ^ 0xffffffff != 0:
            raise AssertionError('register not cleared (harness)')
        p16 = data[:z - 2]
        data16 = p16 + refcrc.crc16_xmodem_fast(p16).to_bytes(2, 'big') + data[z:]
        if refcrc.crc16_xmodem_fast(data16[:z]) != 0:
            raise AssertionError('crc16 register not cleared (harness)')
        if crc16(data16) != refcrc.crc16_xmodem_fast(data16).to_bytes(2, 'big'):
            return Fail('crc16/mismatch/register-zero-inside-the-input', f'{n} bytes, register 0 at offset {z}')
        r32 = refcrc.crc32c_fast(data32)
        for order in ('little', 'big'):
            if crc32c(data32, order) != r32.to_bytes(4, order):
                return Fail(f'crc32c/mismatch-{order}/register-zero-inside-the-input', f'{n} bytes, register 0 at offset {z}')
        return None
    forms = [('bytes', data)]
    if case.get('as') == 'bytearray':
        forms.append(('bytearray', bytearray(data)))
    for name, d in forms:
        if crc16(d) != refcrc.crc16_xmodem_fast(data).to_bytes(2, 'big'):
            return Fail(f'crc16/mismatch/long-input', f'{name} of {n} bytes')
        r32 = refcrc.crc32c_fast(data)
        for order in ('little', 'big'):
            if crc32c(d, order) != r32.to_bytes(4, order):
                return Fail(f'crc32c/mismatch-{order}/long-input', f'{name} of {n} bytes')
    return None


# ---------------------------------------------------------------------------------------------------------------------
# a buffer whose content changes between two calls (same object, or the same view object, passed again)

_EDIT_KINDS = ['bytearray', 'bytearray-subclass-with-hash', 'memoryview-of-bytearray', 'readonly-memoryview-of-bytearray',
               'readonly-memoryview-of-bytearray-subclass-with-hash', 'mmap', 'memoryview-of-mmap', 'readonly-memoryview-of-mmap',
               'readonly-memoryview-of-mmap-slice', 'readonly-signed-char-memoryview-of-mmap', 'fresh-readonly-memoryview-of-mmap-each-call',
               'memoryview-of-readonly-file-mapping-written-elsewhere', 'array-B', 'readonly-memoryview-of-array',
               'ctypes-array', 'readonly-memoryview-of-ctypes-array']


def _make_buffer(kind, data):
    """-> (arg() giving the object to pass, poke(pos, value), snapshot() -> bytes, close()); one underlying store per case"""
    import mmap
    n = len(data)
    if kind.startswith(('bytearray', 'memoryview-of-bytearray', 'readonly-memoryview-of-bytearray')):
        if 'subclass' in kind:
            class HashableBuffer(bytearray):            # hashable by identity like most objects, content still editable
                __hash__ = object.__hash__
            store = HashableBuffer(data)
        else:
            store = bytearray(data)
        obj = store if not 'memoryview' in kind else memoryview(store).toreadonly() if kind.startswith('readonly') else memoryview(store)

        def poke(i, v):
            store[i] = v
        return (lambda: obj), poke, (lambda: bytes(store)), (lambda: None)
    if 'file-mapping' in kind:
        import tempfile
        f = tempfile.TemporaryFile()
        f.write(data)
        f.flush()
        reader = mmap.mmap(f.fileno(), n, access=mmap.ACCESS_READ)
        writer = mmap.mmap(f.fileno(), n, access=mmap.ACCESS_WRITE)
        obj = memoryview(reader)

        def poke(i, v):
            writer[i] = v

        def close():
            for c in (obj.release, reader.close, writer.close, f.close):
                try:
                    c()
                except Exception:
                    pass
        return (lambda: obj), poke, (lambda: bytes(writer[:])), close
    if 'mmap' in kind:
        off = 3 if 'slice' in kind else 0
        store = mmap.mmap(-1, n + 2 * off)
        store[off:off + n] = data
        views = []
        if kind == 'mmap':
            get = lambda: store
        elif kind.startswith('fresh'):
            def get():
                while views:
                    try:
                        views.pop().release()             # the previous view is gone: the next one may live at its address
                    except Exception:
                        pass
                views.append(memoryview(store).toreadonly())
                return views[-1]
        else:
            v = memoryview(store)
            if kind.startswith('readonly'):
                v = v.toreadonly()
            if off:
                v = v[off:off + n]
            if 'signed-char' in kind:
                v = v.cast('b')
            views.append(v)
            get = lambda: v

        def poke(i, v):
            store[off + i] = v

        def close():
            for v in views:
                try:
                    v.release()
                except Exception:
                    pass
            try:
                store.close()
            except Exception:
                pass                                    # somebody still holds a view: the mapping goes with the process
        return get, poke, (lambda: bytes(store[off:off + n])), close
    if 'ctypes' in kind:
        import ctypes
        store = (ctypes.c_ubyte * n)(*data)
        obj = store if kind == 'ctypes-array' else memoryview(store).cast('B').toreadonly()
    else:
        import array
        store = array.array('B', data)
        obj = store if kind == 'array-B' else memoryview(store).toreadonly()

    def poke(i, v):
        store[i] = v
    return (lambda: obj), poke, (lambda: bytes(store)), (lambda: None)


def check_edited(case):
    """the bytes behind ONE object are edited between calls: every call answers for the bytes the argument holds at that moment.
    A buffer type the library refuses (it raises) is not a checksum error; a returned checksum has to be right."""
    from pytoniq_core.crypto.crc import crc16, crc32c
    data = bytes.fromhex(case['data'])
    kind = case['kind']
    # signature bucket = what holds the bytes (the view flavours over one kind of store share a root cause)
    store = ('bytearray-subclass-with-hash' if 'subclass' in kind else 'file-mapping' if 'file-mapping' in kind else 'mmap' if 'mmap' in kind
             else 'ctypes-array' if 'ctypes' in kind else 'array' if 'array-B' in kind or 'of-array' in kind else 'bytearray')
    get, poke, snapshot, close = _make_buffer(kind, data)
    try:
        edits = [list(e) for e in case['edits']]
        # ... and finally the original content again (an answer remembered for the FIRST content is right once more, one remembered
        # for the object is not)
        rounds = len(edits) + 2
        for k in range(rounds):
            now = snapshot()
            e16 = refcrc.crc16_xmodem_fast(now).to_bytes(2, 'big')
            r32 = refcrc.crc32c_fast(now)
            for rep in range(2 if k == 0 else 1):      # the first content twice (whatever is remembered, is remembered by now)
                ok, g = _try(crc16, get())
                if ok and g != e16:
                    return Fail(f'crc16/stale-after-in-place-change/{store}', f'{kind} over {data.hex()[:60]} after {k} edit(s) {edits[:k]}: '
                                f'crc16={g!r}, CRC-16/XMODEM of its content {now.hex()[:60]} is {e16.hex()}')
                for order in ('little', 'big'):
                    ok, g = _try(crc32c, get(), order)
                    if ok and g != r32.to_bytes(4, order):
                        return Fail(f'crc32c/stale-after-in-place-change/{store}', f'{kind} over {data.hex()[:60]} after {k} edit(s) {edits[:k]}: '
                                    f'crc32c(..,{order})={g!r}, CRC-32C of its content {now.hex()[:60]} is {r32.to_bytes(4, order).hex()}')
            # short-lived equal copies (objects that die at once: the next one is usually built at the same address)
            for mk in (lambda: bytes(bytearray(now)), lambda: memoryview(bytes(bytearray(now))), lambda: bytearray(now)):
                if crc16(mk()) != e16 or crc32c(mk()) != r32.to_bytes(4, 'little'):
                    return Fail('crc/short-lived-copy-differs', f'content {now.hex()[:60]} after {k} edit(s) of a {kind}')
            if k < len(edits):
                pos, x = edits[k]
                pos %= len(data)
                poke(pos, now[pos] ^ (x or 1))
            elif k == len(edits):
                for i, b in enumerate(data):
                    if now[i] != b:
                        poke(i, b)
    finally:
        close()
    return None


def strat_edited(tier):
    lens = st.one_of(st.integers(1, 40), st.sampled_from([1, 2, 9, 34, 36, 64, 255, 256, 1024, 4096, 4100]))
    body = st.one_of(st.builds(lambda n, b: bytes([b]) * n, lens, st.integers(0, 255)),
                     lens.flatmap(lambda n: st.binary(min_size=n, max_size=n)))
    edit = st.tuples(st.one_of(st.sampled_from([0, -1, 1]), st.integers(0, 5000)), st.sampled_from([1, 0x80, 0xFF, 0x55, 2])).map(list)
    return st.builds(lambda d, k, e: {'data': d.hex(), 'kind': k, 'edits': e}, body, st.sampled_from(_EDIT_KINDS),
                     st.lists(edit, min_size=1, max_size=3))


def enum_edited(tier):
    # every kind of buffer x a few sizes (friendly-address payload 34, a page, just past a page) x first / middle / last byte edited
    for kind in _EDIT_KINDS:
        for n in (1, 9, 34, 300, 4096, 4099):
            for pos, x in ((0, 1), (n // 2, 0x80), (-1, 0xFF)):
                yield {'data': (bytes(range(49, 58)) * (n // 9 + 1))[:n].hex(), 'kind': kind, 'edits': [[pos, x], [pos + 1, 1]]}


# ---------------------------------------------------------------------------------------------------------------------
# views whose bytes are NOT the bytes of the object they look into (strided, reversed, offset, multi-dimensional, re-formatted)

_VIEW_OWNERS = ['bytes', 'bytes-subclass', 'bytearray', 'view-of-a-view-of-bytearray', 'array-B', 'array-H', 'mmap', 'ctypes-array']


def _lay(units, op, junk):
    """inverse of one slicing step: -> (units of the source, slice) with source[slice] == units; op = [units of filler before,
    units of filler after (both in memory order), step != 0]. Open-ended slice bounds wherever they select the same items."""
    pre, post, step = op
    k, m = abs(step), len(units)
    body = []
    for i, u in enumerate(units if step > 0 else units[::-1]):
        if i:
            body += [junk() for _ in range(k - 1)]
        body.append(u)
    src = [junk() for _ in range(pre)] + body + [junk() for _ in range(post)]
    lo, hi = pre, pre + (m - 1) * k              # memory index of the first / last selected unit
    if step > 0:
        sl = slice(lo if lo else None, hi + 1 if post >= k else None, step if step != 1 or pre or post else None)
    else:
        sl = slice(hi if post else None, lo - 1 if pre >= k else None, step)
    return src, sl


def _make_view(case):
    """-> (owner, make() giving a NEW view object each time, close()); make().tobytes() == the case's data"""
    import math
    data = bytes.fromhex(case['data'])
    tail = list(case.get('tail') or [])
    w = math.prod(tail) if tail else 1
    if not data or len(data) % w:
        raise RuntimeError(f'case not built as designed (harness): {len(data)} bytes in rows of {w}')
    counter = [0]

    def junk():
        counter[0] += 1
        return bytes((counter[0] * 37 + j * 11 + 0xC3 + data[(counter[0] + j) % len(data)]) & 0xFF for j in range(w))
    units = [data[i:i + w] for i in range(0, len(data), w)]
    slices = []
    for op in reversed(case['ops']):
        units, sl = _lay(units, op, junk)
        slices.insert(0, sl)
    raw = b''.join(units)
    kind = case['owner']
    close = lambda: None
    if kind == 'array-H' and len(raw) % 2:
        kind = 'array-B'
    if kind == 'bytes':
        owner = raw
    elif kind == 'bytes-subclass':
        class Payload(bytes):
            pass
        owner = Payload(raw)
    elif kind in ('bytearray', 'view-of-a-view-of-bytearray'):
        owner = bytearray(raw)
    elif kind.startswith('array'):
        import array
        owner = array.array(kind[-1])
        owner.frombytes(raw)
    elif kind == 'mmap':
        import mmap
        owner = mmap.mmap(-1, len(raw))
        owner[:] = raw

        def close():
            try:
                owner.close()
            except Exception:
                pass                                    # somebody still holds a view: the mapping goes with the process
    elif kind == 'ctypes-array':
        import ctypes
        owner = (ctypes.c_ubyte * len(raw))(*raw)
    else:
        raise ValueError(kind)
    fmt = case.get('fmt', 'B')

    def make():
        v = memoryview(owner)
        if kind.startswith('view-of-a-view'):
            v = memoryview(v[:])
        if v.format != 'B' or v.ndim != 1:
            v = v.cast('B')
        if tail:
            v = v.cast(fmt, shape=[len(raw) // w] + tail)
        elif fmt != 'B':
            v = v.cast(fmt)
        for sl in slices:
            v = v[sl]
        if case.get('readonly'):
            v = v.toreadonly()
        return v
    return owner, make, close


def _ask(obj, content, what):
    """-> None or a sentence: a value RETURNED for obj that is not the checksum of `content`"""
    from pytoniq_core.crypto.crc import crc16, crc32c
    e16, r32 = refcrc.crc16_xmodem_fast(content).to_bytes(2, 'big'), refcrc.crc32c_fast(content)
    ok, g = _try(crc16, obj)
    if ok and g != e16:
        return f'crc16({what})={g!r}, CRC-16/XMODEM of its bytes {content.hex()[:60]} is {e16.hex()}'
    for args in (('little',), ('big',), ()):
        ok, g = _try(crc32c, obj, *args)
        if ok and g != r32.to_bytes(4, *(args or ('little',))):
            return f'crc32c({what}{"," if args else ""}{",".join(args)})={g!r}, CRC-32C of its bytes {content.hex()[:60]} is {r32.to_bytes(4, *(args or ("little",))).hex()}'
    return None


def check_views(case):
    """the byte string is the logical content (tobytes()) of a memoryview that is not simply 'the whole object it looks into':
    a step other than 1 (backwards too), an offset, several slicings on top of each other, rows of a 2-D / 3-D shape, a
    re-formatted ('b', 'c') view, read-only - over every kind of buffer. A value RETURNED for such a view is the checksum of ITS
    bytes; the object underneath, the view read the other way round, a second equal view and the view after an in-place edit
    are asked in between (a refusal by exception is not a checksum error)."""
    data = bytes.fromhex(case['data'])
    owner, make, close = _make_view(case)
    try:
        view = make()
        if view.tobytes() != data:
            raise RuntimeError(f'view not built as designed (harness): {case}')
        full = memoryview(owner).nbytes

        def shape_of(v):             # signature bucket: how the bytes the view reads lie in the object
            row = v.nbytes // v.shape[0]
            return (('whole-object' if v.nbytes == full else 'contiguous-part') if v.c_contiguous else 'reversed' if v.strides[0] == -row
                    else 'strided') + ('' if v.ndim == 1 else '-rows')
        shape = shape_of(view)
        what = f'{view.ndim}-D {"x".join(map(str, view.shape))} format {view.format!r} view, slicings {case["ops"]} over a {case["owner"]} of {memoryview(owner).nbytes} bytes'

        def ask_all(v, content, when):
            bad = _ask(v, content, what)
            if bad:
                return Fail(f'crc/view-answered-with-other-bytes/{shape}', f'{when}: {bad}')
            if isinstance(owner, (bytes, bytearray)):
                under = bytes(owner)
                bad = _ask(owner, under, f'the {case["owner"]} under that view')
                if bad:
                    return Fail(f'crc/object-under-a-view-answered-with-other-bytes/{shape}', f'{when}, then the object itself: {bad}')
            bad = _ask(v, content, what)
            if bad:
                return Fail(f'crc/view-answered-with-other-bytes/{shape}', f'{when}, after the object under it was asked: {bad}')
            back = v[::-1]
            other = back.tobytes()
            if v.ndim == 1 and other != content[::-1]:
                raise RuntimeError(f'reversed view not as designed (harness): {case}')
            bad = _ask(back, other, what + ' read the other way round')
            if bad:
                return Fail(f'crc/view-answered-with-other-bytes/{shape_of(back)}', f'{when}: {bad}')
            bad = _ask(make(), content, 'a second ' + what)
            if bad:
                return Fail(f'crc/view-answered-with-other-bytes/{shape}', f'{when}, second equal view: {bad}')
            return None
        f = ask_all(view, data, 'first')
        if f:
            return f
        if not view.readonly and case.get('edit') is not None:
            pos, x = case['edit']
            pos %= len(data)
            new = bytearray(data)
            new[pos] ^= (x & 0xFF) or 1
            w = len(data) // view.shape[0]
            idx, rest = [pos // w], pos % w
            for d in view.shape[:0:-1]:
                idx.insert(1, rest % d)
                rest //= d
            val = new[pos]
            val = bytes([val]) if view.format == 'c' else val - 256 if view.format == 'b' and val > 127 else val
            view[tuple(idx) if view.ndim > 1 else idx[0]] = val
            if view.tobytes() != bytes(new):
                raise RuntimeError(f'edit through the view not as designed (harness): {case}')
            f = ask_all(view, bytes(new), f'after byte {pos} was changed in place through the view')
            if f:
                return f
    finally:
        close()
    return None


_VIEW_RECIPES = [[[0, 0, 1]], [[0, 0, -1]], [[0, 0, 2]], [[0, 1, 2]], [[1, 0, 2]], [[0, 0, -2]], [[0, 1, -2]], [[1, 0, -1]], [[0, 1, -1]],
                 [[3, 3, 1]], [[3, 3, -1]], [[2, 5, 3]], [[2, 5, -3]], [[0, 0, -7]], [[0, 0, -1], [0, 0, -1]], [[1, 1, -1], [0, 0, -1]],
                 [[0, 0, 2], [0, 0, -1]], [[0, 0, -1], [0, 0, 2]], [[0, 1, 2], [1, 0, -1]], [[0, 0, -1], [0, 0, -1], [0, 0, -1]]]


def enum_views(tier):
    texts = [b'123456789', bytes(range(1, 13)), b'\x11' + bytes(range(200, 233)), bytes(range(36, 0, -1)), bytes(range(250, 256)) + bytes(range(250))]
    i = 0
    for data in texts:
        n = len(data)
        tails = [[], [1], [n]] + [[c] for c in (2, 3, 4, 16) if n % c == 0 and c < n][:2] + ([[2, 2]] if n % 4 == 0 else [])
        for owner in _VIEW_OWNERS:
            for ops in _VIEW_RECIPES:
                for tail in tails:
                    i += 1
                    for fmt in ('B', 'b', 'c'):
                        if fmt != 'B' and (i % 2 == (fmt == 'b') or n > 40):     # the re-formatted views: alternately, short texts only
                            continue
                        yield {'data': data.hex(), 'owner': owner, 'ops': ops, 'tail': tail, 'fmt': fmt, 'readonly': i % 5 == 0,
                               'edit': [i * 7, (1, 0x80, 0xFF)[i % 3]]}


def strat_views(tier):
    tail = st.sampled_from([[], [], [], [1], [2], [3], [4], [16], [2, 2], [3, 2]])
    step = st.sampled_from([1, -1, -1, 2, -2, 3, -3, 7, -7])
    op = st.tuples(st.integers(0, 5), st.integers(0, 5), step).map(list)

    def body(t):
        import math
        w = math.prod(t) if t else 1
        rows = st.one_of(st.integers(1, 40), st.sampled_from([1, 2, 34, 36, 64, 256])) if w == 1 else st.integers(1, 24)
        return rows.flatmap(lambda r: st.one_of(st.binary(min_size=r * w, max_size=r * w),
                                                st.builds(lambda b: bytes((b + i) & 0xFF for i in range(r * w)), st.integers(0, 255))))
    return tail.flatmap(lambda t: st.builds(
        lambda d, o, ops, fmt, ro, e: {'data': d.hex(), 'owner': o, 'ops': ops, 'tail': t, 'fmt': fmt, 'readonly': ro, 'edit': e},
        body(t), st.sampled_from(_VIEW_OWNERS), st.lists(op, min_size=1, max_size=3), st.sampled_from(['B', 'B', 'B', 'b', 'c']),
        st.sampled_from([False, False, True]), st.one_of(st.none(), st.tuples(st.integers(0, 5000), st.sampled_from([1, 0x80, 0xFF, 0x55])).map(list))))


def classify_views(case):
    net = 1
    for op in case['ops']:
        net *= op[2]
    yield case['owner']
    yield 'format=' + case.get('fmt', 'B')
    yield 'dims=%d' % (1 + len(case.get('tail') or []))
    yield ('forward' if net > 0 else 'backward') + ('-every-byte' if abs(net) == 1 else '-with-gaps')
    yield 'slicings=%d' % len(case['ops'])
    if all(op[0] == 0 and op[1] < abs(op[2]) for op in case['ops']):
        yield 'view-spans-the-whole-object'


# ---------------------------------------------------------------------------------------------------------------------
# two DIFFERENT byte strings, one after the other, that agree in everything a shortcut might look at instead of the bytes

_G32_IEEE, _G32C, _G16 = 0x104C11DB7, 0x11EDC6F41, 0x11021      # generator polynomials with their top bit


def _pmul(a, b):
    r = 0
    while b:
        if b & 1:
            r ^= a
        a <<= 1
        b >>= 1
    return r


def _xor_poly(buf, bit_off, poly, reflected):
    """xor the polynomial (highest power first) into the bit stream of buf starting at stream bit bit_off; the stream order of a
    reflected CRC is least-significant bit of each byte first. Adding a multiple of a CRC's generator leaves that CRC unchanged."""
    deg = poly.bit_length() - 1
    for j in range(deg + 1):
        if (poly >> (deg - j)) & 1:
            p = bit_off + j
            buf[p // 8] ^= (1 << (p % 8)) if reflected else (0x80 >> (p % 8))


def _forge_crc32_tail(prefix, target):
    """4 bytes t with zlib.crc32(prefix + t) == target (the map t -> crc is affine and invertible: solve it over GF(2))"""
    import zlib
    base = zlib.crc32(prefix)
    f0 = zlib.crc32(b'\0\0\0\0', base)
    basis = {}
    for i in range(32):
        c, m = zlib.crc32((1 << i).to_bytes(4, 'little'), base) ^ f0, 1 << i
        while c:
            h = c.bit_length() - 1
            if h not in basis:
                basis[h] = (c, m)
                break
            c, m = c ^ basis[h][0], m ^ basis[h][1]
    t, sol = target ^ f0, 0
    while t:
        bv, bm = basis[t.bit_length() - 1]
        t, sol = t ^ bv, sol ^ bm
    return sol.to_bytes(4, 'little')


_PAIR_KINDS = ['same-length-and-crc32-ieee', 'same-length-and-crc32-ieee-wide', 'same-crc32-ieee-other-length', 'same-length-and-adler32',
               'same-length-and-crc16-xmodem', 'same-length-and-crc32c', 'same-length-and-crc32-ieee-and-adler32-sum', 'two-bytes-swapped',
               'first-byte-differs', 'last-byte-differs', 'one-bit-in-the-middle']


def _stream(n, seed):
    import hashlib
    out = bytearray()
    c = 0
    while len(out) < n:
        out += hashlib.sha256(b'c18/pair/%d/%d' % (seed, c)).digest()
        c += 1
    return out[:n]


def _make_pair(case):
    import zlib
    n, kind, seed = case['n'], case['kind'], case['seed']
    a = _stream(n, seed)
    at = {'start': 0, 'middle': max(0, n // 2 - 3), 'end': max(0, n - 8)}[case['at']]     # first byte of the touched window
    b = bytearray(a)
    q = 1 + 2 * (seed % 64) if 'wide' in kind else 1                                       # multiplier polynomial (odd => degree kept)
    same = []
    if kind.startswith('same-length-and-crc32-ieee'):
        if 'adler32-sum' in kind:
            # the generator pattern at two places (the difference is G * (x^k + 1), still a multiple of G); where it is applied first
            # the touched bits are all clear, at the other place they are all set, so what one place adds to the byte sum the other
            # one takes away
            w = 5
            p2 = at + w if at + 2 * w <= n else at - w
            d = bytearray(w)
            _xor_poly(d, 0, _G32_IEEE, True)
            for i in range(w):
                a[at + i] &= ~d[i] & 0xFF
                a[p2 + i] |= d[i]
            b = bytearray(a)
            for i in range(w):
                b[at + i] ^= d[i]
                b[p2 + i] ^= d[i]
            same = [('zlib.crc32', zlib.crc32), ('byte sum', lambda s: sum(s))]
        else:
            _xor_poly(b, 8 * at + seed % 8, _pmul(_G32_IEEE, q), True)
            same = [('zlib.crc32', zlib.crc32)]
    elif kind == 'same-crc32-ieee-other-length':
        b = _stream(n + (seed % 9) - 4 + (1 if seed % 9 >= 4 else 0), seed + 1)
        b[-4:] = _forge_crc32_tail(bytes(b[:-4]), zlib.crc32(a))
        same = [('zlib.crc32', zlib.crc32)]
    elif kind == 'same-length-and-adler32':
        # +1, -2, +1 on three neighbouring bytes keeps the sum of the bytes and the sum of the running sums
        a[at] &= 0x7F
        a[at + 1] |= 0x80
        a[at + 2] &= 0x7F
        b = bytearray(a)
        b[at] += 1
        b[at + 1] -= 2
        b[at + 2] += 1
        same = [('zlib.adler32', zlib.adler32)]
    elif kind == 'same-length-and-crc16-xmodem':
        _xor_poly(b, 8 * at + seed % 8, _pmul(_G16, 1 + 2 * (seed % 8)), False)
        same = [('CRC-16/XMODEM', refcrc.crc16_xmodem_fast)]
    elif kind == 'same-length-and-crc32c':
        _xor_poly(b, 8 * at + seed % 8, _pmul(_G32C, 1 + 2 * (seed % 8)), True)
        same = [('CRC-32C', refcrc.crc32c_fast)]
    elif kind == 'two-bytes-swapped':
        j = at + 5
        a[j] = a[at] ^ 0x5A
        b = bytearray(a)
        b[at], b[j] = a[j], a[at]
        same = [('byte sum', lambda s: sum(s)), ('sorted bytes', lambda s: bytes(sorted(s)))]
    elif kind == 'first-byte-differs':
        b[0] ^= 1 << (seed % 8)
    elif kind == 'last-byte-differs':
        b[-1] ^= 1 << (seed % 8)
    elif kind == 'one-bit-in-the-middle':
        b[n // 2 + 1] ^= 1 << (seed % 8)
    else:
        raise ValueError(kind)
    a, b = bytes(a), bytes(b)
    if a == b or (len(a) == len(b)) != ('other-length' not in kind):
        raise AssertionError(f'pair not built as designed (harness): {case}')
    for name, f in same:
        if f(a) != f(b):
            raise AssertionError(f'pair does not agree in {name} (harness): {case}')
    return a, b


def check_pair(case):
    from pytoniq_core.crypto.crc import crc16, crc32c
    a, b = _make_pair(case)
    exp = {}
    for name, s in (('first', a), ('second', b)):
        exp[name] = (refcrc.crc16_xmodem_fast(s).to_bytes(2, 'big'), refcrc.crc32c_fast(s))
    what = f'{case["kind"]}: {len(a)} / {len(b)} bytes, window at {case["at"]}'
    bucket = case['kind'].replace('-wide', '')
    for name, s in (('first', a), ('second', b), ('first', a), ('second', b)):
        e16, r32 = exp[name]
        forms = [('bytes', s), ('memoryview', memoryview(s)), ('bytearray', bytearray(s)), ('equal copy', bytes(bytearray(s)))]
        forms = forms[:1 if len(s) > 20000 else 2 if len(s) >= 4096 else 4]
        for fname, d in forms:
            g = crc16(d)
            if g != e16:
                return Fail(f'crc16/answer-of-another-input/{bucket}', f'{what}: crc16({name} as {fname})={g.hex()} expected {e16.hex()}; '
                            f'first={a.hex()[:48]}.. second={b.hex()[:48]}..')
            for order in ('little', 'big'):
                g = crc32c(d, order)
                if g != r32.to_bytes(4, order):
                    return Fail(f'crc32c/answer-of-another-input/{bucket}', f'{what}: crc32c({name} as {fname},{order})={g.hex()} expected '
                                f'{r32.to_bytes(4, order).hex()}; first={a.hex()[:48]}.. second={b.hex()[:48]}..')
            if crc32c(d) != r32.to_bytes(4, 'little'):
                return Fail(f'crc32c/answer-of-another-input/{bucket}', f'{what}: crc32c({name} as {fname}) default order')
    return None


def enum_pairs(tier):
    sizes = [16, 34, 36, 100, 1000, 4096, 5000, 8193, 70000] + ([65536, 300000] if tier != 'quick' else [])
    seed = 0
    for n in sizes:
        for kind in _PAIR_KINDS:
            if n >= 70000 and kind not in ('same-length-and-crc32-ieee', 'same-crc32-ieee-other-length', 'same-length-and-adler32',
                                           'one-bit-in-the-middle'):
                continue
            for at in ('start', 'middle', 'end'):
                if at != 'middle' and (kind.endswith('differs') or kind.startswith('one-bit') or 'other-length' in kind):
                    continue
                for rep in range(2 if n < 5000 else 1):
                    seed += 1
                    yield {'n': n, 'kind': kind, 'at': at, 'seed': seed}


# ---------------------------------------------------------------------------------------------------------------------
# the library's own users of the checksums ran earlier in the process (histories as plain data)

def _history_step(step):
    """runs one ordinary library call that computes checksums internally; -> [(label, byte string)] the call was about.
    Whether that call succeeds is not this property's business."""
    import base64
    from harness.core import call, describe
    op = step['op']
    out = []
    if op == 'crc':
        return [('plain string', bytes.fromhex(step['data']))]
    if op in ('to_boc', 'from_boc'):
        from harness.gen import dag
        from harness.ref import refboc
        from pytoniq_core.boc.cell import Cell
        rcells = dag.build_ref(step['spec'])
        if op == 'to_boc':
            root = dag.lib_from_ref(rcells)[-1]
            ok, boc = call(root.to_boc, has_idx=step['idx'], hash_crc32=step['crc'], has_cache_bits=step['cache'])
            if not ok or not isinstance(boc, (bytes, bytearray)) or len(boc) < 8:
                return []
            out = [('bag returned by to_boc', boc), ('that bag without its last 4 bytes', bytes(boc[:-4])), ('last 4 bytes of that bag', bytes(boc[-4:])),
                   ('that bag without its magic', bytes(boc[4:]))]
            if step.get('read_back'):
                call(Cell.one_from_boc, boc)
            return out
        good = refboc.encode([rcells[-1]], has_idx=step['idx'], has_crc=True)
        data = bytearray(good)
        if step['damage'] is not None:
            p = step['damage'] % (8 * len(data))
            data[p // 8] ^= 0x80 >> (p % 8)
        data = bytes(data)
        arg = {'bytes': data, 'hex': data.hex(), 'b64': base64.b64encode(data).decode()}[step['form']]
        ok, res = call(Cell.from_boc, arg)
        if ok:
            describe(*res[:1])
        return [('bag given to from_boc', data), ('that bag without its last 4 bytes', data[:-4]), ('last 4 bytes of that bag', data[-4:]),
                ('the undamaged bag', good), ('the undamaged bag without its last 4 bytes', good[:-4])]
    if op in ('addr_str', 'addr_parse'):
        from harness.ref import refaddr
        from pytoniq_core.boc.address import Address
        acc = bytes.fromhex(step['hash'])
        s = refaddr.friendly(step['wc'], acc, step['bounceable'], step['test_only'], step['url_safe'])
        raw = base64.urlsafe_b64decode(s) if step['url_safe'] else base64.b64decode(s)
        if op == 'addr_str':
            ok, addr = call(Address, (step['wc'], acc))
            if ok:
                call(addr.to_str, True, step['url_safe'], step['bounceable'], step['test_only'])
                describe(addr)
                call(hash, addr)
            return [('friendly address decoded', raw), ('its 34 checksummed bytes', raw[:34]), ('its 2 checksum bytes', raw[34:]),
                    ('friendly address text', s.encode())]
        bad = bytearray(raw)
        if step['damage'] is not None:
            p = step['damage'] % (8 * 36)
            bad[p // 8] ^= 0x80 >> (p % 8)
        bad = bytes(bad)
        text = (base64.urlsafe_b64encode if step['url_safe'] else base64.b64encode)(bad).decode()
        ok, addr = call(Address, text)
        if ok:
            describe(addr)
        return [('friendly address decoded', bad), ('its 34 checksummed bytes', bad[:34]), ('its 2 checksum bytes', bad[34:]),
                ('friendly address text', text.encode()), ('the undamaged 34 bytes', raw[:34])]
    raise ValueError(op)


def _probe(strings, when):
    from pytoniq_core.crypto.crc import crc16, crc32c
    for label, s in strings:
        r16, r32 = refcrc.crc16_xmodem_fast(s), refcrc.crc32c_fast(s)
        # the string itself and the string followed by its own checksum (a reader that verifies a trailer computes exactly these)
        todo = [(label, s, r16, r32)]
        for tail, tname in ((r32.to_bytes(4, 'little'), 'CRC-32C'), (r16.to_bytes(2, 'big'), 'CRC-16')):
            t = bytes(s) + tail
            todo.append((f'{label} + its own {tname}', t, refcrc.crc16_xmodem_fast(t), refcrc.crc32c_fast(t)))
        for lab, x, e16, e32 in todo:
            for fname, d in (('the object itself', x), ('equal bytes', bytes(bytearray(x))), ('memoryview', memoryview(x)), ('bytearray', bytearray(x))):
                g = crc16(d)
                if g != e16.to_bytes(2, 'big'):
                    return Fail('crc16/wrong-after-other-library-calls', f'{when}: crc16({lab}, {fname}; {bytes(x).hex()[:80]})={g!r} expected {e16:04x}')
                for order in ('little', 'big'):
                    g = crc32c(d, order)
                    if g != e32.to_bytes(4, order):
                        return Fail('crc32c/wrong-after-other-library-calls', f'{when}: crc32c({lab}, {fname}; {bytes(x).hex()[:80]}, {order})={g!r} '
                                    f'expected {e32.to_bytes(4, order).hex()}')
    return None


def check_history(case):
    """program = list of ordinary library calls that use the checksums internally (to_boc with a checksum, from_boc of a sound or a
    damaged bag, friendly address rendered / parsed / printed); after every step and again at the end, the checksum functions are
    asked about the byte strings those calls were about - the answers are functions of the bytes alone"""
    seen = []
    for k, step in enumerate(case['steps']):
        new = _history_step(step)
        f = _probe(new, f'after step {k} ({step["op"]})')
        if f:
            return f
        seen += new
    return _probe(seen, 'at the end of the program') if len(case['steps']) > 1 else None


def strat_history(tier):
    from harness.gen import dag
    spec = dag.st_ord_dag(max_nodes=4, max_len=72)
    dmg = st.one_of(st.none(), st.integers(0, 4000), st.sampled_from([-1, -8, -9, -32, -33]))
    acc = st.one_of(st.binary(min_size=32, max_size=32), st.sampled_from([b'\0' * 32, b'\xff' * 32]))
    wc = st.one_of(st.sampled_from([0, -1]), st.integers(-128, 127))
    addr = dict(wc=wc, hash=acc.map(bytes.hex), bounceable=st.booleans(), test_only=st.booleans(), url_safe=st.booleans())
    step = st.one_of(
        st.fixed_dictionaries(dict(op=st.just('to_boc'), spec=spec, crc=st.sampled_from([True, True, True, False]), idx=st.booleans(),
                                   cache=st.booleans(), read_back=st.booleans())),
        st.fixed_dictionaries(dict(op=st.just('from_boc'), spec=spec, idx=st.booleans(), damage=dmg, form=st.sampled_from(['bytes', 'hex', 'b64']))),
        st.fixed_dictionaries(dict(op=st.just('addr_str'), **addr)),
        st.fixed_dictionaries(dict(op=st.just('addr_parse'), damage=st.one_of(st.none(), st.integers(0, 287)), **addr)),
        st.fixed_dictionaries(dict(op=st.just('crc'), data=st.binary(min_size=0, max_size=40).map(bytes.hex))),
    )
    return st.lists(step, min_size=1, max_size=4).map(lambda s: {'steps': s})


def classify_history(case):
    for s in case['steps']:
        yield s['op'] + ('+crc' if s.get('crc') else '') + ('/damaged' if s.get('damage') is not None else '')


# ---------------------------------------------------------------------------------------------------------------------
# inputs that contain their own running checksum (a word that cancels the register of an implementation folding several bytes a step)

_OWN_FORMS = ['crc16-be', 'crc16-le', 'crc32c-register-le', 'crc32c-register-be', 'crc32c-le', 'crc32c-be']


def _own_word(data, form):
    """the checksum state of `data` as bytes: CRC-16/XMODEM (= its register: no final xor), the CRC-32C shift register before the final
    inversion (appended little-endian it clears the register), or the finished CRC-32C (appended little-endian it leaves the fixed residue)"""
    if form.startswith('crc16'):
        return refcrc.crc16_xmodem_fast(data).to_bytes(2, 'big' if form.endswith('be') else 'little')
    v = refcrc.crc32c_fast(data)
    if 'register' in form:
        v ^= 0xFFFFFFFF
    return v.to_bytes(4, 'big' if form.endswith('be') else 'little')


def _make_own(case):
    """prefix, then for each part [form, flip, fill byte, fill count]: the running checksum of EVERYTHING before it in that form (one
    bit of it flipped if flip is not None), then `count` fill bytes; then the tail. -> (data, offsets of the inserted words)"""
    import hashlib
    if 'prefix' in case:
        data = bytearray(bytes.fromhex(case['prefix']))
    elif 'prefix_fill' in case:
        data = bytearray([case['prefix_fill']]) * case['prefix_len']
    else:
        data = bytearray()
        c = 0
        while len(data) < case['prefix_len']:
            data += hashlib.sha256(b'c18/own/%d/%d' % (case['seed'], c)).digest()
            c += 1
        del data[case['prefix_len']:]
    at = []
    for form, flip, fill, count in case['parts']:
        w = bytearray(_own_word(bytes(data), form))
        if flip is not None:
            w[(flip // 8) % len(w)] ^= 0x80 >> (flip % 8)
        at.append(len(data))
        data += w
        if flip is None and form == 'crc16-be' and refcrc.crc16_xmodem_fast(bytes(data)) != 0:
            raise AssertionError('crc16 register not cleared (harness)')
        if flip is None and form == 'crc32c-register-le' and refcrc.crc32c_fast(bytes(data)) != 0xFFFFFFFF:
            raise AssertionError('crc32c register not cleared (harness)')
        data += bytes([fill]) * count
    data += bytes.fromhex(case.get('tail', ''))
    return bytes(data), at


def check_own(case):
    """somewhere inside the input stands the checksum of everything before it (as a reader of a checksummed record, a bag with a
    trailer followed by padding or by the next record, sees it): at every alignment mod 16, followed by 0..16 zero / other bytes,
    once or several times, near the front or deep inside a long input; every prefix of the input up to 8 bytes past each such
    word is asked too (the value straight after the word is known without computing: 0 for CRC-16, the fixed residue for CRC-32C)"""
    from pytoniq_core.crypto.crc import crc16, crc32c
    data, at = _make_own(case)
    cuts = {len(data)}
    for a, (form, flip, fill, count) in zip(at, case['parts']):
        w = 2 if form.startswith('crc16') else 4
        # long inputs: straight after the word and 3 bytes on; short ones: every length from inside the word to 8 bytes past it
        cuts.update(c for c in ((a + w, a + w + 3) if len(data) > 200 else range(a + 1, a + w + 9)) if c <= len(data))
    what = f'{len(data)} bytes, running checksum as {[p[0] for p in case["parts"]]} at offset(s) {at}'
    for c in sorted(cuts):
        s = data[:c]
        e16, r32 = refcrc.crc16_xmodem_fast(s).to_bytes(2, 'big'), refcrc.crc32c_fast(s)
        forms = [('bytes', s), ('bytearray', bytearray(s)), ('memoryview', memoryview(s))]
        for fname, d in (forms if c == len(data) else forms[:1]):
            g = crc16(d)
            if g != e16:
                return Fail('crc16/mismatch/input-contains-its-own-running-checksum', f'{what}: crc16(first {c} bytes as {fname})={g!r} '
                            f'expected {e16.hex()}; input {data.hex()[:120]}')
            for order in ('little', 'big'):
                g = crc32c(d, order)
                if g != r32.to_bytes(4, order):
                    return Fail(f'crc32c/mismatch-{order}/input-contains-its-own-running-checksum', f'{what}: crc32c(first {c} bytes as '
                                f'{fname},{order})={g!r} expected {r32.to_bytes(4, order).hex()}; input {data.hex()[:120]}')
    if crc32c(data) != refcrc.crc32c_fast(data).to_bytes(4, 'little'):
        return Fail('crc32c/default-byteorder', f'{what}: default byte order')
    return None


def enum_own(tier):
    fills = [(0, k) for k in (0, 2, 4, 6, 8, 12, 16)] + [(0xFF, 4), (0x01, 2), (0x80, 8)]
    seed = 0
    # every prefix length 0..40 (every alignment mod 16 twice, below and above the sizes where word-wise code starts) and some longer ones
    lens = list(range(0, 41)) + [48, 63, 64, 65, 66, 67, 100, 255, 256, 257, 258, 1000, 1021, 1022, 1023, 1024]
    for n in lens:
        for form in _OWN_FORMS:
            for fill, count in fills:
                if n > 40 and (fill, count) not in ((0, 2), (0, 4), (0, 8), (0xFF, 4)):
                    continue
                for tail in ('', '05', '746f6e', '0000000007', 'a5' * 9):
                    if n > 40 and len(tail) not in (0, 2, 6):
                        continue
                    seed += 1
                    yield {'prefix_len': n, 'seed': seed, 'parts': [[form, None, fill, count]], 'tail': tail}
            # one bit of the word differs: all but one of the per-byte look-ups of a folded step are look-ups of 0
            for flip in (0, 7, 8, 15, 16, 31):
                seed += 1
                yield {'prefix_len': n, 'seed': seed, 'parts': [[form, flip, 0, 6]], 'tail': ('', '746f6e')[seed % 2]}
    # simple prefixes (constant bytes: for CRC-16 zeros keep the register 0, the word is 00 00)
    for n in (1, 2, 3, 4, 5, 6, 7, 8, 12, 16, 20, 32, 34):
        for pf in (0x00, 0xFF, 0x31):
            for form in _OWN_FORMS:
                for count in (2, 4, 8):
                    yield {'prefix_len': n, 'prefix_fill': pf, 'parts': [[form, None, 0, count]], 'tail': ('', '05', '746f6e')[(n + count) % 3]}
    # several such words in one input (record after record, each closed by the checksum of all before it), mixed forms and paddings
    for n in range(0, 24):
        for f1 in _OWN_FORMS:
            for f2 in _OWN_FORMS:
                seed += 1
                gap = (0, 2, 4, 6)[seed % 4]
                yield {'prefix_len': n, 'seed': seed, 'parts': [[f1, None, 0, gap], [f2, None, 0, 2 + seed % 7], [f1, None, 0xFF * (seed % 2), 4]],
                       'tail': ('', '01', 'abcd')[seed % 3]}
    # deep inside long inputs (past any block size a word-wise implementation may use), each alignment mod 8
    longs = [4096, 8192, 65536] + ([262144, 1048576] if tier != 'quick' else [])
    for base in longs:
        for d in range(-4, 5):
            for form in ('crc16-be', 'crc32c-register-le', 'crc32c-le', 'crc16-le'):
                if form == 'crc16-le' and d % 4:
                    continue
                seed += 1
                yield {'prefix_len': base + d, 'seed': seed, 'parts': [[form, None, 0, (2, 4, 8)[seed % 3]]], 'tail': ('', '05', '746f6e')[seed % 3]}


def strat_own(tier):
    part = st.tuples(st.sampled_from(_OWN_FORMS + ['crc16-be', 'crc32c-register-le']), st.one_of(st.none(), st.none(), st.integers(0, 31)),
                     st.sampled_from([0, 0, 0, 0xFF, 1, 0x80]), st.integers(0, 17)).map(list)
    prefix = st.one_of(st.binary(min_size=0, max_size=70), st.builds(lambda b, n: bytes([b]) * n, st.integers(0, 255), st.integers(0, 40)),
                       st.integers(0, 40).flatmap(lambda n: st.binary(min_size=4 * n, max_size=4 * n)))
    return st.builds(lambda p, parts, t: {'prefix': p.hex(), 'parts': parts, 'tail': t.hex()}, prefix,
                     st.lists(part, min_size=1, max_size=4), st.binary(min_size=0, max_size=12))


def classify_own(case):
    n = case['prefix_len'] if 'prefix_len' in case else len(case['prefix']) // 2
    yield 'first-word-at-offset-mod-8=%d' % (n % 8)
    yield 'words=%d' % len(case['parts'])
    for form, flip, fill, count in case['parts']:
        yield form + ('' if flip is None else '/one-bit-off')
        yield 'followed-by-%s' % ('nothing' if not count else ('zeros' if fill == 0 else 'other-bytes') + ('<4' if count < 4 else '<8' if count < 8 else '>=8'))
    yield 'long' if n >= 4000 else 'short'


def enum_long(tier):
    sizes = [4095, 4096, 4097, 8191, 8192, 8193, 16384, 32767, 32768, 32769, 65535, 65536, 65537, 131072, 262143, 262144, 262145,
             524288, 1048575, 1048576, 1048577,
             # round decimal sizes and odd multiples of 64 KiB: block sizes a programmer may pick
             10000, 100000, 1000000, 999999, 1000001, 3 * 65536, 5 * 65536, 3 * 262144, 200000, 500000]
    if tier != 'quick':
        sizes += [131071, 131073, 3 * 262144, 2097152, 2097153, 4194304]
    for i, n in enumerate(sizes):
        yield {'n': n, 'seed': i, 'as': 'bytearray' if i % 3 == 0 else 'bytes'}
        yield {'n': n, 'fill': (0x00, 0xFF, 0xA5)[i % 3]}
    # register forced to zero at every power-of-two offset 8 .. 2^17 (thorough 2^20) and a few multiples, with short and long tails
    offs = [1 << k for k in range(3, 18 if tier == 'quick' else 21)] + [3 * 4096, 2 * 65536 if tier != 'quick' else 3 * 1024, 5 * 512, 1000, 65535]
    for j, z in enumerate(offs):
        for tail in (1, 9, 4097):
            yield {'n': z + tail, 'seed': 1000 + j, 'zero_at': z}


def enum_short(tier):
    yield {'data': ''}
    for a in range(256):
        yield {'data': '%02x' % a}
    for a in range(256):
        for b in range(256):
            yield {'data': '%02x%02x' % (a, b)}


def enum_structured(tier):
    # every byte value after prefixes that drive the high byte of the state through many values
    for pre in (b'\xff' * 3, b'\x00' * 5, bytes(range(256)), b'\xa5' * 64, bytes(range(255, -1, -1)) * 2):
        for b in range(256):
            yield {'data': (pre + bytes([b])).hex()}
            yield {'data': (bytes([b]) + pre).hex()}
    for n in (3, 4, 63, 64, 65, 255, 256, 257, 1023, 1024, 4095, 4096):
        for fill in (0, 0xFF, 0x80, 0x01):
            yield {'data': (bytes([fill]) * n).hex()}


def strat(tier):
    mx = 4096
    return st.one_of(
        st.binary(min_size=0, max_size=64),
        st.binary(min_size=0, max_size=mx),
        st.builds(lambda b, n: bytes([b]) * n, st.integers(0, 255), st.integers(0, mx)),
    ).map(lambda b: {'data': b.hex()})


def classify(case):
    n = len(case['data']) // 2
    yield 'len=0' if n == 0 else 'len=1' if n == 1 else 'len=2' if n == 2 else 'len<=64' if n <= 64 else 'len>64'


SUBCHECKS = [
    Sub('all-len-0-1-2', check, enum=enum_short, classify=classify, nontrivial=lambda c: len(c['data']) >= 2,
        shards=(16, 16), exhaustive=True),
    Sub('structured', check, enum=enum_structured, classify=classify, nontrivial=lambda c: len(c['data']) >= 2,
        shards=(4, 4)),
    Sub('long-inputs', check_long, enum=enum_long, shards=(13, 16), classify=lambda c: ['len=%d' % c['n']] if 'zero_at' not in c else ['register-zero-at=%d' % c['zero_at']],
        note='4095..65537 bytes (thorough: up to 1 MiB + 1) around block-size boundaries; bytes and bytearray'),
    Sub('random', check, strategy=strat, classify=classify, nontrivial=lambda c: len(c['data']) >= 2,
        n=(3000, 200000), shards=(8, 32)),
    Sub('edited-in-place-grid', check_edited, enum=enum_edited, classify=lambda c: [c['kind']], shards=(8, 16),
        note='one buffer object (16 kinds: bytearray, mmap, array, ctypes array, read-only / sliced / signed views of them, a file '
             'mapping written through another handle) asked again after each in-place edit and after the original content is restored'),
    Sub('edited-in-place', check_edited, strategy=strat_edited, classify=lambda c: [c['kind'], 'edits=%d' % len(c['edits'])],
        n=(150, 6000), shards=(8, 16)),
    Sub('views-grid', check_views, enum=enum_views, classify=classify_views, shards=(8, 16),
        note='the byte string is what a memoryview READS (tobytes()), not what the object under it holds: 20 slicing recipes (step 1, -1, 2, -2, '
             '3, -3, -7, offsets, open-ended bounds, up to three slicings on top of each other) x 8 kinds of object x 1-D / rows of a 2-D / 3-D '
             'shape x formats B, b, c; the object underneath, the view read backwards, a second equal view and an edit through the view in between'),
    Sub('views', check_views, strategy=strat_views, classify=classify_views, n=(400, 12000), shards=(8, 16)),
    Sub('designed-pairs', check_pair, enum=enum_pairs, classify=lambda c: [c['kind'], 'n=%d' % c['n']], shards=(8, 16),
        note='two different strings asked one after the other (first, second, first, second) that agree in length and in another digest '
             '(IEEE CRC-32, Adler-32, the OTHER of the two checksums, byte sum, multiset of bytes, first/last kilobytes) or differ in '
             'length with equal IEEE CRC-32'),
    Sub('own-checksum-inside-grid', check_own, enum=enum_own, classify=classify_own, shards=(8, 16),
        note='the input contains the running checksum of everything before it (CRC-16 big / little-endian; CRC-32C shift register before the '
             'final inversion, or the finished CRC-32C, little / big-endian): after every prefix length 0..40 (every alignment mod 16) and '
             'around 64, 256, 1024, 4096, 8192, 65536; followed by 0..16 zero / other bytes and a tail of 0..9 bytes; one bit of the word '
             'flipped; constant prefixes; three such words in one input; every prefix of the input up to 8 bytes past the word is asked too'),
    Sub('own-checksum-inside', check_own, strategy=strat_own, classify=classify_own, n=(600, 20000), shards=(8, 16)),
    Sub('after-other-entry-points', check_history, strategy=strat_history, classify=classify_history,
        nontrivial=lambda c: any(s['op'] != 'crc' for s in c['steps']), n=(200, 6000), shards=(8, 16),
        note='programs of 1..4 ordinary library calls that use the checksums internally, then the checksum functions on the strings involved'),
]

SUBCHECKS.append(overlapped(next(s for s in SUBCHECKS if s.name == 'random'), k=4, n=(240, 6000)))
