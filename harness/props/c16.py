"""
C16 — transaction, account and block parsers read exactly what block.tlb specifies.

Aggregator: the sub-checks live in two modules built on the declarative TL-B reference model (harness/ref/reftlb.py):
  c16_tx.py   transactions (7 descriptions, all phases), accounts, in/out message descriptors, envelopes   (tlb/transaction.py, tlb/account.py)
  c16_blk.py  block header & co, value flow, shard descriptors, validator sets, catchain config, state extras,
              the bundled main-net block                                                                     (tlb/block.py, tlb/config.py)
Oracle (both): a value generated and encoded by the reference model (+ a sentinel tail of extra bits and references) is parsed
by the library; every schema field must be readable from the parsed object with the encoded value (unsigned stays unsigned) and
the slice left after parsing must be exactly the sentinel tail.
Two threads: two-threads-tx / two-threads-blk overlap whole random cases (core.overlapped); two-threads-tx-parsers /
two-threads-blk-parsers (in the two modules) prepare 3 values per covered type x constructor as cells and let 4 threads parse them in
tight loops at the same time (core.hammer) - a parser that collects fields in a place two calls share is inside its window there.
VERIF_C16_PART=tx|blk restricts the import to one part (development aid).
"""
import os

_part = os.environ.get('VERIF_C16_PART', '')
PARTIAL = bool(_part)
SUBCHECKS = []
RULE_PARTS = []
ASSUMPTIONS = ['harness/ref/reftlb.py generic TL-B interpreter (self-checked on hand-assembled bit strings) and the schema tables '
               'transcribed from pytoniq_core/tlb/schemas/block.tlb', 'harness/ref/refcell.py, refdict.py, refbits.py']
if _part in ('', 'tx'):
    from harness.props import c16_tx
    SUBCHECKS += c16_tx.SUBCHECKS
    RULE_PARTS.append(c16_tx.RULE)
if _part in ('', 'blk'):
    from harness.props import c16_blk
    SUBCHECKS += c16_blk.SUBCHECKS
    RULE_PARTS.append(c16_blk.RULE)
RULE = ' || '.join(RULE_PARTS)

# the same generated cases, several at a time, checked by threads that run at the same time (core.run_overlapping): per-call state
# kept in a place two calls share shows only there
from harness.core import overlapped as _overlapped
for _b, _n in (('tx-random', 'two-threads-tx'), ('blk-random', 'two-threads-blk')):
    _base = next((s for s in SUBCHECKS if s.name == _b), None)
    if _base is not None:
        SUBCHECKS.append(_overlapped(_base, name=_n, k=3, n=(30, 1000)))
