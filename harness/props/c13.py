"""C13 — address text forms round-trip; friendly-form checksum enforced; equal addresses hash equally.

What is generated (see RULE) and what is asserted:
  * round trip (check_roundtrip): rendering equals the independent TEP-2 reference character for character, both text forms parse
    back into an equal address with the same flags, equal addresses hash equally / collapse in sets, whatever was rendered before.
    The enumerated part also contains DESIGNED addresses whose 48 friendly characters are all hexadecimal digits (a text that is
    well-formed under two readings: base64 and a hex number).
  * substitutions (check_subst): every single-character replacement is rejected (any exception).
  * origins (check_origins): the statement's "equal addresses hash equally" does not say where the address objects came from.
    The same (workchain, account) is obtained in every way the library hands out an Address - tuple, raw text, friendly text with
    these and with the opposite flags, Address(Address), Slice.load_address() of addr_std without and WITH an anycast prefix,
    to_cell()/store_address() and back, set_anycast() on a built / parsed address, a subclass instance, copy.deepcopy / pickle,
    an object that was printed - and every two of them that compare == must hash equally and be one key of a set / dict; each of
    them renders as the reference says and its text parses back into an address equal to it (both directions) with the same hash.
    An origin that cannot be built (exception in Builder / Slice) or that does not compare == to the tuple-built address is left
    out: cells are other properties' business, and the statement only speaks about EQUAL addresses.
  * histories (check_history): the case carries a list of earlier, sloppy-but-accepted or failing uses of the class in the same
    process - an account id that is not 32 bytes long (the constructor takes any length) rendered / printed / hashed / stored,
    a workchain outside int8, texts that are rejected (bad checksum, truncated, extended, the text of an odd-length account,
    garbage, non-strings), to_str with non-boolean flags, set_anycast, a parsed result whose attributes the caller edited.
    Results and exceptions of those uses are ignored (none of them is promised anything). After EVERY step the valid address of
    the case must still round-trip in all 8 variants + raw form (fresh objects and two objects made before the history), and the
    complete round-trip check runs at the end.  Signature = kind of the step after which it stopped holding + violated clause.
  * flag values (check_flag_values): to_str called with a value of ANOTHER KIND where True / False is meant - even / odd / huge /
    negative integers, int subclasses, IntFlag / IntEnum members (a masked configuration bit passed straight through), floats,
    Fraction, Decimal, complex, None, strings, bytes, containers, objects that define only __bool__ / __len__ / __index__ - in each
    of the four flag positions, positional / keyword / sparse keyword; also an int-subclass / IntEnum workchain, a bytes-subclass
    account id, a str-subclass text. "Bounceable or not, test-only or not, URL-safe or standard, raw or friendly" is read as the
    truth value of the argument (what `if flag:` in to_str always meant). A call that raises is not judged; a call that returns a
    text must return the reference text of that variant, which must parse back equal with exactly those flags.
  * re-used objects (check_reuse): one OBJECT that holds several addresses in its life. It is obtained (tuple / raw text / friendly
    text / copy / cell / subclass), used as the first address (any of the 8 renderings in three call styles, repr, hash, ==, cell,
    raw form, printed), optionally cloned (copy.copy / deepcopy / pickle / Address(a)), and then re-pointed 1..5 times to another
    VALID address: is_hex() / is_b64() - the two parsers are public methods that parse INTO the object they are called on - with
    another address's text, assignment of wc / hash_part (one, both, in either order with a rendering in between), __init__ called
    again, a parse that fails half-way (bad checksum, odd-length hex, garbage). Targets: another workchain only, another account
    only, the same int(account)+workchain, one bit, the same address, there and back. After EVERY step the object must round-trip
    as the address it holds now (raw + 8 variants equal the reference, parse back == it with the same hash and the variant's
    flags, ==/hash/set agreement with a new object) and its untouched clone / source as the address that one still holds. After a
    failed attempt the object is judged by what its public attributes say (only if that is a valid address).
  * first use (check_first_use): a FRESH child interpreter in which the first address operations of the process are made by 2..8
    threads released together (render / parse / reject a substituted text / repr / raw form / through a cell; own or the same
    address per thread; library imported before or inside the threads; default or warnings-are-errors + logging environment;
    sys.byteorder as is or flipped), then every variant again in the child's main thread. Everything the child reports is compared
    with the reference HERE. What a library builds lazily at first use (a table, a pattern, a cache) is reached by no check that
    runs after any earlier call in the same process - every other sub-check, including the two-threads one, runs "warm".
    A child that times out / is killed gives no verdict.

Deliberately NOT asserted: two copies of the package imported under different names in one process (an address of one copy compared
with an address of the other - a second import is outside the statement's "equal address"); a bool as workchain id (prints as
'True:..' in raw form); that a non-bool flag value is ACCEPTED by to_str (only: if it is, its truth value decides); anything about
addresses whose account id is not 32 bytes or whose workchain is outside -128..127 (only that using them does not disturb valid
ones); that a text which is not a rendering of an address (e.g. 48 x 'A') is rejected; which exception type a rejected text raises;
the cell form of an address (C-properties on Builder/Slice); the is_bounceable / is_test_only attributes of an object after is_b64()
was called on it a second time (is_b64 only ever sets them); what an object holds after a parse into it failed.
"""
import hashlib

from hypothesis import strategies as st
from harness.core import Sub, Fail, call, describe, look, scramble
from harness.ref import refaddr

RULE = ('case = (workchain -128..127, 32-byte account id, bounceable, test_only, url_safe) and, for substitution '
        'cases, (position 0..47, replacement character of the base64 alphabet in use). round-trip sub-check covers all '
        '256 workchains x 8 variants plus designed addresses whose friendly text consists of hex digits only; substitution '
        'sub-check enumerates all 48x63 single-character replacements of generated addresses (one of them all-hex). '
        'origins cases add (anycast depth 1..30, prefix < 2^depth): the same address obtained through ~20 origins (tuple, raw / '
        'friendly text, copy, load_address with and without anycast, to_cell/store_address and back, set_anycast, subclass, '
        'deepcopy, pickle, printed) - pairwise ==/hash/set/dict agreement and text round trip of each. history cases add a list '
        'of 0..4 earlier uses (odd-length account ids 0..70 bytes, workchains outside int8, rejected texts, non-boolean flags, '
        'anycast, edited parse results; each with 1..3 follow-up uses: friendly/raw/repr/hash/eq/cell/reparse/copy/tl) after each '
        'of which the valid address must still round-trip; the grid part enumerates every single-step history over all '
        'lengths 0..40, 48, 64 x (tuple, raw text, edited parse result) x use. flag-value cases = (address, 4 flag arguments each '
        'a descriptor of a bool or of a value of another kind: ints even/odd/huge/negative, int subclass, IntFlag/IntEnum, float, '
        'Fraction, Decimal, complex, None, str, bytes, containers, __bool__/__len__/__index__-only objects; call style; kinds of '
        'workchain / account / text object; origin of the address): the grid puts each of ~100 values into each flag position. '
        're-used-object cases = (origin of the object, uses before: renderings 0..7 / repr / hash / eq / cell / raw / printed, clone kind and '
        'which of the two is re-pointed, call style, 1..5 steps each (way of re-pointing: is_hex / is_b64 on the object, assignment of '
        'wc / hash_part / both, __init__ again with tuple / raw / friendly / Address, failed parses; kind of target address; variant of '
        'the text; uses in between; variant rendered first afterwards)): the grid = 14 ways x 7 target kinds x 6 earlier renderings, '
        '6 origins x 4 clone kinds x 2 x 6 ways, lives of five addresses. '
        'first-use cases = (2..8 thread specs: address, variant, 1..2 first operations; repetitions; import inside threads; '
        'environment; byte order) run in a fresh child interpreter. non-trivial = non-default flags, negative '
        'workchain, a substitution, an anycast prefix or a non-empty history (flag-value, re-used-object and first-use cases: all); distinct = distinct case')
ASSUMPTIONS = ['harness/ref/refaddr.py (TEP-2 rendering) and refcrc bitwise CRC-16; python base64',
               'flag values: bool(x) of the interpreter is the truth value of x; first use: subprocess + json carry the child\'s results',
               'origins: Builder.store_bits/store_bit/store_uint/store_int/store_bytes and Slice.load_address only PRODUCE '
               'address objects (an origin that fails to build or is not == to the tuple-built address is skipped, not reported)']

STD = 'ABCDEFGHIJKLMNOPQRSTUVWXYZabcdefghijklmnopqrstuvwxyz0123456789+/'
URL = STD[:62] + '-_'


def _addr_eq(a, wc, acc):
    return a.wc == wc and a.hash_part == acc


def check_roundtrip(case):
    from pytoniq_core.boc.address import Address
    wc, acc = case['wc'], bytes.fromhex(case['acc'])
    b, t, u = case['bounce'], case['test'], case['url']
    base = Address((wc, acc))
    # rendering equals the reference, character for character
    ok, text = call(base.to_str, True, u, b, t)
    if not ok:
        return Fail('to_str/raises', repr(text))
    exp = refaddr.friendly(wc, acc, b, t, u)
    if text != exp:
        return Fail('to_str/friendly-differs-from-TEP2', f'{text} != {exp}')
    ok, rawtext = call(base.to_str, False)
    if not ok or rawtext != refaddr.raw(wc, acc):
        return Fail('to_str/raw-differs', f'{rawtext!r} != {refaddr.raw(wc, acc)}')
    # parsing either form yields an equal address with the same flags
    ok, p = call(Address, exp)
    if not ok:
        return Fail('parse/friendly-rejected', f'{exp}: {p!r}')
    if not _addr_eq(p, wc, acc) or not (p == base) or not (base == p):
        return Fail('parse/friendly-not-equal', f'{exp} -> wc={p.wc} hash={p.hash_part.hex()}')
    if bool(p.is_bounceable) != b or bool(p.is_test_only) != t:
        return Fail('parse/flags-lost', f'{exp}: bounceable={p.is_bounceable} test_only={p.is_test_only}, expected {b},{t}')
    ok, q = call(Address, refaddr.raw(wc, acc))
    if not ok:
        return Fail('parse/raw-rejected', f'{refaddr.raw(wc, acc)}: {q!r}')
    if not _addr_eq(q, wc, acc) or not (q == base):
        return Fail('parse/raw-not-equal', f'{refaddr.raw(wc, acc)} -> wc={q.wc} hash={q.hash_part.hex()}')
    if bool(q.is_bounceable) != bool(base.is_bounceable) or bool(q.is_test_only) != bool(base.is_test_only):
        return Fail('parse/raw-form-invents-flags', f'{refaddr.raw(wc, acc)}: bounceable={q.is_bounceable} test_only={q.is_test_only} '
                    f'(the raw form carries no flags; the address it was rendered from has {base.is_bounceable}, {base.is_test_only})')
    # equal addresses hash equally and collapse in sets
    ok, hs = call(lambda: (hash(base), hash(p), hash(q), hash(Address(base))))
    if not ok:
        return Fail('hash/raises', repr(hs))
    if len(set(hs)) != 1:
        return Fail('hash/equal-addresses-hash-differently', str(hs))
    if len({base, p, q}) != 1:
        return Fail('hash/set-does-not-collapse', '')
    # a copy (Address(Address)) of the parsed address, and the address rebuilt from its public parts, render like the original
    for nm, mk in (('copy-of-parsed', lambda: Address(p)), ('from-parts', lambda: Address((p.wc, p.hash_part))), ('copy-of-raw-parsed', lambda: Address(q))):
        ok, cp = call(mk)
        if not ok or not (cp == base) or hash(cp) != hash(base):
            return Fail(f'copy/{nm}-not-equal', f'{exp}: {cp!r}')
        ok, txt = call(cp.to_str, True, u, b, t)
        if not ok or txt != exp:
            return Fail(f'to_str/{nm}-differs-from-TEP2', f'{txt!r} != {exp}')
        ok, txt = call(cp.to_str, False)
        if not ok or txt != refaddr.raw(wc, acc):
            return Fail(f'to_str/{nm}-raw-differs', f'{txt!r}')
    # other addresses rendered in between, chosen so that anything that tells addresses apart by less than (workchain, account)
    # mixes them up: int(account) + workchain equal (neighbouring workchain, account shifted by one), and accounts that differ
    # by a multiple of 2^61 - 1 (the modulus python's hash() reduces integers by)
    ai = int.from_bytes(acc, 'big')
    M61 = (1 << 61) - 1
    for wc2, a2 in ((wc + 1 if wc < 127 else wc - 1, (ai - 1 if wc < 127 else ai + 1) % (1 << 256)), (wc, (ai + M61) % (1 << 256)),
                    (wc, (ai + 5 * M61) % (1 << 256)), (wc, (ai - M61) % (1 << 256))):
        acc2 = a2.to_bytes(32, 'big')
        other = Address((wc2, acc2))
        for v2 in ((b, t, u), (not b, t, u)):
            ok, txt = call(other.to_str, True, v2[2], v2[0], v2[1])
            want2 = refaddr.friendly(wc2, acc2, v2[0], v2[1], v2[2])
            if not ok or txt != want2:
                return Fail('to_str/another-address-rendered-as-an-earlier-one', f'after {exp} was rendered, {wc2}:{acc2.hex()} renders as {txt!r}, '
                            f'expected {want2}')
        ok, txt = call(base.to_str, True, u, b, t)
        if not ok or txt != exp:
            return Fail('to_str/depends-on-earlier-calls', f'{txt!r} != {exp} after another address was rendered')
    # re-rendering the parsed address with its own flags gives the same text
    ok, again = call(p.to_str, True, u, p.is_bounceable, p.is_test_only)
    if not ok or again != exp:
        return Fail('to_str/rerender-differs', f'{again!r} != {exp}')
    # the same object rendered in every other form afterwards (no result carried over from an earlier call), and the first
    # form once more
    for v in list(range(8)) + [None]:
        bb, tt, uu = (b, t, u) if v is None else (bool(v & 1), bool(v & 2), bool(v & 4))
        ok, txt = call(base.to_str, True, uu, bb, tt)
        want = refaddr.friendly(wc, acc, bb, tt, uu)
        if not ok or txt != want:
            return Fail('to_str/depends-on-earlier-calls', f'after other renderings of the same object: {txt!r} != {want}')
        ok, p2 = call(Address, want)
        if not ok or not _addr_eq(p2, wc, acc) or bool(p2.is_bounceable) != bb or bool(p2.is_test_only) != tt:
            return Fail('parse/depends-on-earlier-calls', f'{want}: {p2!r}')
        # the PARSED object rendered in every variant: the flags asked for decide, not the flags of the text it was parsed from
        for v2 in range(8):
            b2, t2, u2 = bool(v2 & 1), bool(v2 & 2), bool(v2 & 4)
            ok, txt = call(p2.to_str, True, u2, b2, t2)
            want2 = refaddr.friendly(wc, acc, b2, t2, u2)
            if not ok or txt != want2:
                return Fail('to_str/of-parsed-address-differs-from-TEP2',
                            f'Address({want!r}).to_str(is_user_friendly=True, is_url_safe={u2}, is_bounceable={b2}, is_test_only={t2}) '
                            f'= {txt!r}, expected {want2}')
        ok, txt = call(p2.to_str, False)
        if not ok or txt != refaddr.raw(wc, acc):
            return Fail('to_str/of-parsed-address-raw-differs', f'Address({want!r}).to_str(False) = {txt!r}')
    return None


def check_subst(case):
    from pytoniq_core.boc.address import Address
    wc, acc = case['wc'], bytes.fromhex(case['acc'])
    text = refaddr.friendly(wc, acc, case['bounce'], case['test'], case['url'])
    alpha = URL if case['url'] else STD
    pos = case['pos']
    repl = alpha[case['repl']]
    if repl == text[pos]:
        repl = alpha[(case['repl'] + 1) % 64]
    mutated = text[:pos] + repl + text[pos + 1:]
    ok, res = call(Address, mutated)
    if ok:
        return Fail('substitution-accepted', f'{text} -> {mutated} (pos {pos}) accepted as wc={res.wc} hash={res.hash_part.hex()}')
    return None


# ------------------------------------------------------------------------------------------------ origins of an address object
def _origins(case, Address, Builder):
    """(name, constructor) of every way the library hands out an address object for (wc, acc)"""
    import copy
    import pickle
    wc, acc = case['wc'], bytes.fromhex(case['acc'])
    b, t, u = case['bounce'], case['test'], case['url']
    d, pfx = case['depth'], case['pfx']
    rawt, fr = refaddr.raw(wc, acc), refaddr.friendly(wc, acc, b, t, u)

    class Derived(Address):
        pass

    def cell(anycast):
        bld = Builder().store_bits('10')      # addr_std$10 anycast:(Maybe Anycast) workchain_id:int8 address:bits256
        bld = bld.store_bit(1).store_uint(d, 5).store_uint(pfx, d) if anycast else bld.store_bit(0)
        return bld.store_int(wc, 8).store_bytes(acc).end_cell()

    def anyc(a):
        a.set_anycast(d, pfx)
        return a

    def printed(a):
        describe(a)
        return a

    return [
        ('tuple', lambda: Address((wc, acc))),
        ('raw-text', lambda: Address(rawt)),
        ('friendly-text', lambda: Address(fr)),
        ('friendly-text-opposite-flags', lambda: Address(refaddr.friendly(wc, acc, not b, not t, not u))),
        ('copy-of-parsed', lambda: Address(Address(fr))),
        ('loaded-from-cell', lambda: cell(False).begin_parse().load_address()),
        ('loaded-from-cell-with-anycast', lambda: cell(True).begin_parse().load_address()),
        ('to_cell-and-back', lambda: Address((wc, acc)).to_cell().begin_parse().load_address()),
        ('text-stored-and-loaded', lambda: Builder().store_address(fr).end_cell().begin_parse().load_address()),
        ('anycast-stored-and-loaded', lambda: anyc(Address(fr)).to_cell().begin_parse().load_address()),
        ('set_anycast-on-built', lambda: anyc(Address((wc, acc)))),
        ('set_anycast-on-parsed', lambda: anyc(Address(fr))),
        ('set_anycast-on-raw-parsed', lambda: anyc(Address(rawt))),
        ('copy-of-anycast', lambda: Address(anyc(Address(rawt)))),
        ('subclass-built', lambda: Derived((wc, acc))),
        ('subclass-parsed', lambda: Derived(fr)),
        ('copy-of-subclass', lambda: Address(Derived(rawt))),
        ('deepcopy', lambda: copy.deepcopy(Address(fr))),
        ('deepcopy-of-anycast', lambda: copy.deepcopy(anyc(Address((wc, acc))))),
        ('pickled', lambda: pickle.loads(pickle.dumps(Address(fr)))),
        ('pickled-anycast', lambda: pickle.loads(pickle.dumps(anyc(Address(rawt))))),
        ('printed', lambda: printed(Address(fr))),
        ('printed-anycast', lambda: printed(anyc(Address((wc, acc))))),
    ]


def check_origins(case):
    from pytoniq_core.boc.address import Address
    from pytoniq_core.boc.builder import Builder
    wc, acc = case['wc'], bytes.fromhex(case['acc'])
    b, t, u = case['bounce'], case['test'], case['url']
    exp, rawt = refaddr.friendly(wc, acc, b, t, u), refaddr.raw(wc, acc)
    ref_obj = Address((wc, acc))
    objs = []
    for name, mk in _origins(case, Address, Builder):
        ok, a = call(mk)
        if not ok or not isinstance(a, Address):
            continue                                     # cannot be obtained this way: nothing to compare
        ok, same = call(lambda: bool(a == ref_obj) and bool(ref_obj == a))
        if not ok or not same or a.wc != wc or a.hash_part != acc:
            continue                                     # not an EQUAL address: the statement does not speak about it
        objs.append((name, a))
    # every two equal addresses: ==, hash, set, dict
    hs = []
    for name, a in objs:
        ok, h = call(hash, a)
        if not ok:
            return Fail(f'hash/raises/{name}', repr(h))
        hs.append(h)
    for i, (n1, a1) in enumerate(objs):
        for j, (n2, a2) in enumerate(objs):
            if j <= i:
                continue
            ok, eq = call(lambda: bool(a1 == a2) and bool(a2 == a1))
            if not ok or not eq:
                continue
            kind = 'anycast' if (a1.anycast is None) != (a2.anycast is None) else 'subclass' if type(a1) is not type(a2) else 'plain'
            if hs[i] != hs[j]:
                return Fail(f'hash/equal-addresses-hash-differently/{kind}',
                            f'{exp}: address from {n1} == address from {n2}, hashes {hs[i]} != {hs[j]}')
            ok, found = call(lambda: (a1 in {a2}) and (a2 in {a1}) and {a1: 1}.get(a2) == 1 and len({a1, a2}) == 1)
            if not ok or not found:
                return Fail(f'hash/set-does-not-collapse/{kind}', f'{exp}: {n1} vs {n2}: {found!r}')
    # each of them renders as the reference says; its text parses into an address equal to IT, with the same hash and the flags
    for (name, a), h in zip(objs, hs):
        kind = 'anycast' if a.anycast is not None else 'subclass' if type(a) is not Address else 'plain'
        ok, txt = call(a.to_str, True, u, b, t)
        if not ok or txt != exp:
            return Fail(f'to_str/friendly-differs-from-TEP2/{kind}-origin', f'address from {name}: {txt!r} != {exp}')
        ok, txt = call(a.to_str, False)
        if not ok or txt != rawt:
            return Fail(f'to_str/raw-differs/{kind}-origin', f'address from {name}: {txt!r} != {rawt}')
        for form, text in (('friendly', exp), ('raw', rawt)):
            ok, back = call(Address, text)
            if not ok:
                return Fail(f'parse/{form}-rejected', f'{text}: {back!r}')
            ok, eq = call(lambda: bool(back == a) and bool(a == back))
            if not ok or not eq:
                return Fail(f'parse/{form}-not-equal/{kind}-origin', f'{text} parsed is not == the address from {name} it was rendered from')
            ok, h2 = call(hash, back)
            if not ok or h2 != h or not (back in {a}) or {a: 1}.get(back) != 1:
                return Fail(f'hash/equal-addresses-hash-differently/{kind}',
                            f'address from {name} rendered as {text} and parsed back: equal, but hashes {h} != {h2!r}')
            if form == 'friendly' and (bool(back.is_bounceable) != b or bool(back.is_test_only) != t):
                return Fail('parse/flags-lost', f'{text}: bounceable={back.is_bounceable} test_only={back.is_test_only}')
    return None


# -------------------------------------------------------------------------------- histories: earlier uses in the same process
USES = ('friendly', 'raw', 'repr', 'hash', 'eq', 'cell', 'reparse', 'copy', 'tl')
ODD_WCS = (128, 255, 256, -129, -256, 1000, 2 ** 31, 2 ** 63, 2 ** 64, -2 ** 63 - 1)
SLOPPY = (None, 0, 1, 2, -1, '', 'no', [], 0.5)
BAD_KINDS = ('crc', 'truncated', 'extended', 'padded', 'odd-account-text', 'garbage', 'nonstr', 'raw-odd', 'raw-nohash', 'raw-case',
             'bare-hex')
EDITS = ('scramble', 'account-longer', 'account-shorter', 'account-empty', 'account-bytearray', 'wc', 'flags', 'anycast')


def _use(a, uses, v, Address, other):
    """what a caller does with an address object it holds; results and exceptions are nobody's business here"""
    b, t, u = bool(v & 1), bool(v & 2), bool(v & 4)
    for w in uses:
        if w == 'friendly':
            call(a.to_str, True, u, b, t)
        elif w == 'raw':
            call(a.to_str, False)
        elif w == 'repr':
            look(a)
        elif w == 'hash':
            call(lambda: ({a: 1}, {a}, hash(a)))
        elif w == 'eq':
            call(lambda: (a == other, other == a, a != other))
        elif w == 'cell':
            ok, c = call(a.to_cell)
            if ok:
                call(lambda: c.begin_parse().load_address())
        elif w == 'reparse':
            for uf in (True, False):
                ok, txt = call(a.to_str, uf, u, b, t)
                if ok:
                    call(Address, txt)
        elif w == 'copy':
            ok, c = call(Address, a)
            if ok:
                call(c.to_str, True, u, b, t)
        elif w == 'tl':
            call(a.to_tl_account_id)


def _bad_text(op, wc, acc):
    k, n, s = op['kind'], op['n'], op['s']
    good = refaddr.friendly(wc, acc, bool(n & 1), bool(n & 2), bool(n & 4))
    if k == 'crc':
        alpha = URL if n & 4 else STD
        pos = 45 + n % 3
        return good[:pos] + alpha[(alpha.index(good[pos]) + 1 + n % 62) % 64] + good[pos + 1:]
    if k == 'truncated':
        return good[:n % 48]
    if k == 'extended':
        return good + s
    if k == 'padded':
        return good + '=' * (1 + n % 4)
    if k == 'odd-account-text':            # what to_str gives for an account id that is not 32 bytes long
        ln = n % 71
        return refaddr.friendly(wc, (acc * 3)[:ln if ln != 32 else 33], True, False, True)
    if k == 'garbage':
        return s
    if k == 'nonstr':
        return (None, n, acc, [good], 1.5, (wc,), (wc, acc.hex()), {'workchain': wc})[n % 8]
    if k == 'raw-odd':
        return f'{wc}:{(acc * 3)[:n % 71].hex()}' + ('0' if n & 128 else '')
    if k == 'raw-nohash':
        return (f'{wc}:', ':', f':{acc.hex()}', f'{wc}:{acc.hex()}:', f'{wc}:{acc.hex()}:0', f'0x{wc}:{acc.hex()}', f'{wc}.0:{acc.hex()}',
                f'{wc}:0x{acc.hex()[2:]}')[n % 8]
    if k == 'raw-case':
        return (f' {wc}:{acc.hex()}', f'{wc}:{acc.hex().upper()}', f'{wc}: {acc.hex()}', f'{wc}:{acc.hex()}\n', f'+{wc}:{acc.hex()}',
                f'{wc}:{acc.hex()[:-1]}_{acc.hex()[-1]}')[n % 6]
    if k == 'bare-hex':
        return (acc.hex(), acc.hex().upper(), '0x' + acc.hex(), acc.hex()[:48], acc.hex().lstrip('0') or '0', s)[n % 6]
    raise AssertionError(k)


def _step_kind(op):
    k = op['op']
    if k == 'odd-account':
        return 'account-longer-than-32' if op['len'] > 32 else 'account-shorter-than-32'
    if k == 'bad-text':
        return 'rejected-text:' + op['kind']
    if k == 'edit-result':
        return 'edited-parse-result:' + op['how']
    return k


def _run_step(op, ctx):
    Address, wc, acc = ctx['Address'], ctx['wc'], ctx['acc']
    k = op['op']
    owc = op.get('wc', wc)
    other_acc = hashlib.sha256(acc + b'other').digest()
    other = Address((wc, other_acc))
    if k == 'odd-account':
        oa = (bytes([op['fill']]) + acc * 3)[:op['len']]
        if op['via'] == 'tuple':
            ok, a = call(Address, (owc, oa))
        elif op['via'] == 'raw':
            ok, a = call(Address, f'{owc}:{oa.hex()}')
        else:                                  # the caller assigns to the public attribute of an address it parsed
            ok, a = call(Address, ctx['texts'][op['v']])
            if ok:
                a.hash_part = oa
        if ok:
            _use(a, op['use'], op['v'], Address, other)
    elif k == 'odd-wc':
        w = ODD_WCS[op['i'] % len(ODD_WCS)]
        ok, a = call(Address, (w, acc)) if op['via'] == 'tuple' else call(Address, f'{w}:{acc.hex()}')
        if ok:
            _use(a, op['use'], op['v'], Address, other)
    elif k == 'bad-text':
        src = (wc, acc) if op['of'] == 'same' else (owc, other_acc)
        ok, a = call(Address, _bad_text(op, *src))
        if ok and isinstance(a, Address):
            _use(a, op['use'], op['v'], Address, other)
    elif k == 'sloppy-flags':
        target = ctx['pb'] if op['of'] == 'same' else other
        args = [True, True, True, False]
        args[op['pos'] % 4] = SLOPPY[op['i'] % len(SLOPPY)]
        call(target.to_str, *args)
        call(lambda: target.to_str(is_user_friendly=args[0], is_url_safe=args[1], is_bounceable=args[2], is_test_only=args[3]))
    elif k == 'anycast':
        target = {'same': ctx['pb'], 'parsed': ctx['pp']}.get(op['of'], other)
        call(target.set_anycast, op['depth'], op['pfx'])
        _use(target, op['use'], op['v'], Address, other)
    elif k == 'edit-result':
        # what a parser returns belongs to the caller: edit it, use it - a later parse of the same text is a fresh result
        text = ctx['texts'][op['v']] if op['of'] == 'same' else refaddr.raw(wc, acc) if op['of'] == 'same-raw' else \
            refaddr.friendly(owc, other_acc, True, False, True)
        ok, a = call(Address, text)
        if ok:
            how = op['how']
            if how == 'scramble':
                scramble(a)
            elif how == 'account-longer':
                a.hash_part = a.hash_part + b'\x00' * (1 + op['v'])
            elif how == 'account-shorter':
                a.hash_part = a.hash_part[:31 - op['v']]
            elif how == 'account-empty':
                a.hash_part = b''
            elif how == 'account-bytearray':
                a.hash_part = bytearray(a.hash_part)
                a.hash_part[op['v']] ^= 0xFF
            elif how == 'wc':
                a.wc = ODD_WCS[op['v'] % len(ODD_WCS)] if op['v'] & 1 else (a.wc + 1 + op['v']) % 128
            elif how == 'flags':
                a.is_bounceable, a.is_test_only = not a.is_bounceable, SLOPPY[op['v'] % len(SLOPPY)]
            elif how == 'anycast':
                a.set_anycast(1 + op['v'], op['v'] & 1)
            _use(a, op['use'], op['v'], Address, other)
    elif k == 'printed':
        describe(ctx['pb'], ctx['pp'], other)
    else:
        raise AssertionError(k)


def _still_round_trips(ctx):
    """(clause, detail) when the valid address of the case does not round-trip (all 8 variants + raw form), else None"""
    Address, wc, acc, texts, rawt = ctx['Address'], ctx['wc'], ctx['acc'], ctx['texts'], ctx['rawt']
    ok, base = call(Address, (wc, acc))
    if not ok:
        return 'construct/raises', repr(base)
    ok, txt = call(base.to_str, False)
    if not ok or txt != rawt:
        return 'to_str/raw-differs', f'{txt!r} != {rawt}'
    ok, q = call(Address, rawt)
    if not ok:
        return 'parse/raw-rejected', f'{rawt}: {q!r}'
    if not (q.wc == wc and q.hash_part == acc and q == base and base == q and hash(q) == hash(base)):
        return 'parse/raw-not-equal', f'{rawt} -> wc={q.wc} hash={q.hash_part!r}'
    for v in range(8):
        b, t, u = bool(v & 1), bool(v & 2), bool(v & 4)
        for who, obj in (('a new object', base), ('an object built before', ctx['pb']), ('an object parsed before', ctx['pp']),
                         ('the object just parsed from raw form', q)):
            ok, txt = call(obj.to_str, True, u, b, t)
            if not ok or txt != texts[v]:
                return 'to_str/friendly-differs-from-TEP2', f'{who}: {txt!r} != {texts[v]}'
        ok, p = call(Address, texts[v])
        if not ok:
            return 'parse/friendly-rejected', f'{texts[v]}: {p!r}'
        if not (p.wc == wc and p.hash_part == acc and p == base and base == p and p == ctx['pp']):
            return 'parse/friendly-not-equal', f'{texts[v]} -> wc={p.wc} hash={p.hash_part!r}'
        if bool(p.is_bounceable) != b or bool(p.is_test_only) != t:
            return 'parse/flags-lost', f'{texts[v]}: bounceable={p.is_bounceable!r} test_only={p.is_test_only!r}'
        if len({hash(p), hash(base), hash(ctx['pb']), hash(ctx['pp'])}) != 1 or len({p, base, ctx['pb'], ctx['pp'], q}) != 1:
            return 'hash/equal-addresses-hash-differently', f'{texts[v]}'
    return None


def check_history(case):
    from pytoniq_core.boc.address import Address
    wc, acc = case['wc'], bytes.fromhex(case['acc'])
    texts = [refaddr.friendly(wc, acc, bool(v & 1), bool(v & 2), bool(v & 4)) for v in range(8)]
    v0 = int(case['bounce']) | int(case['test']) << 1 | int(case['url']) << 2
    ctx = {'Address': Address, 'wc': wc, 'acc': acc, 'texts': texts, 'rawt': refaddr.raw(wc, acc)}
    ok, ctx['pb'] = call(Address, (wc, acc))
    ok2, ctx['pp'] = call(Address, texts[v0])
    if not ok or not ok2:
        return Fail('parse/friendly-rejected' if ok else 'construct/raises', f'before any step of the history: {ctx["pp"]!r} {ctx["pb"]!r}')
    bad = _still_round_trips(ctx)
    if bad:      # nothing of this case has run yet: an earlier case's history is still in the process, or it never held
        return Fail(f'before-history/{bad[0]}', f'before the first step of this history: {bad[1]}')
    for i, op in enumerate(case['history']):
        _run_step(op, ctx)
        bad = _still_round_trips(ctx)
        if bad:
            return Fail(f'after-{_step_kind(op)}/{bad[0]}', f'{wc}:{acc.hex()} after step {i} {op}: {bad[1]}')
    res = check_roundtrip(case)
    if res is not None:
        kinds = sorted({_step_kind(op) for op in case['history']})
        return Fail(f'after-history/{res.signature}', f'history kinds {kinds}: {res.detail}')
    return None


_acc = st.one_of(st.binary(min_size=32, max_size=32),
                 st.sampled_from([b'\x00' * 32, b'\xff' * 32, b'\x00' * 31 + b'\x01', b'\x80' + b'\x00' * 31]))


# ------------------------------------------------- values of another kind where a bool / int / bytes / str is meant and accepted
FLAG_NAMES = ('is_user_friendly', 'is_url_safe', 'is_bounceable', 'is_test_only')
_INTS = (0, 1, 2, 3, 4, 6, 7, 8, -1, -2, 0x40, 0x41, 0x80, 0x81, 0xFF, 0x100, 0x101, 1 << 31, 1 << 64, (1 << 70) + 1, 1 << 70, -(1 << 70))


def flag_descriptors():
    """plain-data descriptors of everything a caller passes where True / False is meant: numbers of every kind (even, odd, huge,
    negative, int subclasses, IntFlag / IntEnum members, floats incl. -0.0 / nan / inf, Fraction, Decimal, complex), None, strings,
    bytes, containers, objects that only define __bool__ / __len__ / __index__, a plain object()"""
    out = [{'k': 'bool', 'v': False}, {'k': 'bool', 'v': True}, {'k': 'none'}, {'k': 'object'}]
    out += [{'k': 'int', 'v': n} for n in _INTS]
    out += [{'k': 'intsub', 'v': n} for n in (0, 1, 2, 4, 0x40, 0x80, 0x100, 3, -2)]
    out += [{'k': 'intflag', 'v': n} for n in (0, 1, 2, 4, 0x40, 0x80, 0x42)] + [{'k': 'intenum', 'v': n} for n in (0, 1, 2, 0x80)]
    out += [{'k': 'float', 's': s} for s in ('0.0', '-0.0', '0.5', '1.0', '2.0', '1e-300', '-1.5', 'inf', 'nan')]
    out += [{'k': 'frac', 'n': n, 'd': d} for n, d in ((0, 1), (1, 2), (2, 1), (1, 1), (-4, 3))]
    out += [{'k': 'dec', 's': s} for s in ('0', '0.0', '-0', '0.5', '2', '1', 'NaN')]
    out += [{'k': 'complex', 're': r, 'im': i} for r, i in ((0, 0), (0, 1), (2, 0))]
    out += [{'k': 'str', 'v': s} for s in ('', 'no', 'false', '0', 'True', ' ')]
    out += [{'k': 'bytes', 'v': h} for h in ('', '00', '01')]
    out += [{'k': c, 'n': n} for c in ('list', 'tuple', 'dict', 'set', 'range', 'lenobj') for n in (0, 1, 2)]
    out += [{'k': 'boolobj', 'v': False}, {'k': 'boolobj', 'v': True}]
    out += [{'k': 'indexobj', 'v': n} for n in (0, 1, 2)]
    return out


def _flag_value(d):
    import decimal
    import enum
    import fractions
    k = d['k']
    if k == 'bool':
        return bool(d['v'])
    if k == 'none':
        return None
    if k == 'object':
        return object()
    if k == 'int':
        return int(d['v'])
    if k == 'intsub':
        return type('Flag', (int,), {})(d['v'])
    if k == 'intflag':
        return enum.IntFlag('Cfg', {'TEST': 1, 'B': 2, 'C': 4, 'D': 0x40, 'E': 0x80})(d['v'])
    if k == 'intenum':
        return enum.IntEnum('Net', {'MAIN': 0, 'TEST': 1, 'OTHER': 2, 'HIGH': 0x80})(d['v'])
    if k == 'float':
        return float(d['s'])
    if k == 'frac':
        return fractions.Fraction(d['n'], d['d'])
    if k == 'dec':
        return decimal.Decimal(d['s'])
    if k == 'complex':
        return complex(d['re'], d['im'])
    if k == 'str':
        return d['v']
    if k == 'bytes':
        return bytes.fromhex(d['v'])
    if k == 'list':
        return [0] * d['n']
    if k == 'tuple':
        return (False,) * d['n']
    if k == 'dict':
        return {i: 0 for i in range(d['n'])}
    if k == 'set':
        return set(range(d['n']))
    if k == 'range':
        return range(d['n'])
    if k == 'lenobj':
        return type('Sized', (), {'__len__': lambda self: d['n']})()
    if k == 'boolobj':
        return type('Switch', (), {'__bool__': lambda self: bool(d['v'])})()
    if k == 'indexobj':                      # no __bool__, no __len__: true, whatever number it stands for
        return type('Indexable', (), {'__index__': lambda self: d['v']})()
    raise AssertionError(k)


def _flag_label(d):
    v = d.get('v', d.get('n', d.get('s')))
    if d['k'] in ('int', 'intsub', 'intflag', 'intenum') and isinstance(v, int):
        return d['k'] + ('=0' if v == 0 else '=1' if v == 1 else '-even' if v % 2 == 0 else '-odd')
    return d['k']


def check_flag_values(case):
    """to_str(...) called with values of another kind where True / False is meant (and Address built from an int-subclass workchain,
    a bytes-subclass account id, parsed from a str-subclass text). The statement's variants are "bounceable or not, test-only or
    not, URL-safe or standard, raw or friendly": a flag argument stands for its truth value, as everywhere in Python and as
    to_str's plain `if flag:` tests always did. A call that RAISES for such a value is not judged (nothing promises that every
    object is accepted); a call that returns a text must return the text of the variant asked for, and that text must parse back
    into an equal address with exactly those flags."""
    from pytoniq_core.boc.address import Address
    wc, acc = case['wc'], bytes.fromhex(case['acc'])
    wc_obj = {'int': lambda: wc, 'intsub': lambda: type('Wc', (int,), {})(wc),
              'intenum': lambda: __import__('enum').IntEnum('Chain', {'THIS': wc})(wc)}[case['wc_kind']]()
    acc_obj = acc if case['acc_kind'] == 'bytes' else type('Acc', (bytes,), {})(acc)
    mktext = (lambda s: s) if case['text_kind'] == 'str' else type('Text', (str,), {})
    vals = [_flag_value(d) for d in case['flags']]
    uf, u, b, t = [bool(x) for x in vals]
    if case['origin'] == 'tuple':
        ok, a = call(Address, (wc_obj, acc_obj))
    elif case['origin'] == 'raw-text':
        ok, a = call(Address, mktext(refaddr.raw(wc, acc)))
    else:                                        # parsed from the friendly text with the OPPOSITE flags
        ok, a = call(Address, mktext(refaddr.friendly(wc, acc, not b, not t, not u)))
    if not ok:
        if case['wc_kind'] == 'int' and case['acc_kind'] == 'bytes' and case['text_kind'] == 'str':
            return Fail('construct/raises', repr(a))
        return None                              # a subclass instance that is not accepted: not judged
    style = case['style']
    if style == 'positional':
        ok, txt = call(a.to_str, *vals)
    elif style == 'keyword':
        ok, txt = call(lambda: a.to_str(**dict(zip(FLAG_NAMES, vals))))
    else:                                        # only the flags that are not plain defaults, by keyword, in reverse order
        dflt = (True, True, True, False)
        kw = {n: v for n, v, dv in reversed(list(zip(FLAG_NAMES, vals, dflt))) if not (v is dv)}
        ok, txt = call(lambda: a.to_str(**kw))
    if not ok or not isinstance(txt, str):
        return None                              # not accepted: not judged
    shown = ', '.join(f'{n}={v!r}'[:60] for n, v in zip(FLAG_NAMES, vals))
    want = refaddr.friendly(wc, acc, b, t, u) if uf else refaddr.raw(wc, acc)
    if txt != want:
        # name the flag whose truth value was not honoured by what the text shows
        if (':' in txt) != (not uf):
            which = 'is_user_friendly'
        elif not uf:
            which = 'raw-form'
        else:
            import base64
            try:
                tag = base64.urlsafe_b64decode(txt.replace('+', '-').replace('/', '_'))[0]
            except Exception:
                tag = None
            which = ('undecodable' if tag is None else 'is_test_only' if bool(tag & 0x80) != t else
                     'is_bounceable' if (tag & 0x7F == 0x11) != b else
                     'is_url_safe' if txt.replace('+', '-').replace('/', '_') == want.replace('+', '-').replace('/', '_') else 'body')
        return Fail(f'to_str/truth-value-of-flag-not-honoured/{which}',
                    f'Address({case["origin"]} of {wc}:{acc.hex()}).to_str({shown}) [{style}] = {txt!r}, the variant asked for is {want}')
    ok, p = call(Address, mktext(txt))
    if not ok:
        return Fail('parse/friendly-rejected' if uf else 'parse/raw-rejected', f'to_str({shown}) = {txt}: {p!r}')
    ok, same = call(lambda: bool(p == a) and bool(a == p) and hash(p) == hash(a) and p.wc == wc and p.hash_part == acc and len({p, a}) == 1)
    if not ok or not same:
        return Fail('parse/friendly-not-equal' if uf else 'parse/raw-not-equal', f'to_str({shown}) = {txt} -> wc={p.wc!r} hash={p.hash_part!r}')
    if uf and (bool(p.is_bounceable) != b or bool(p.is_test_only) != t):
        return Fail('parse/flags-lost', f'to_str({shown}) = {txt}: bounceable={p.is_bounceable!r} test_only={p.is_test_only!r}')
    return None


def enum_flag_values(tier):
    """every flag position x every value kind, the other flags at 4 settings, positional / keyword / sparse keyword"""
    descs = flag_descriptors()
    T, F = {'k': 'bool', 'v': True}, {'k': 'bool', 'v': False}
    k = 0
    for pos in range(4):
        for d in descs:
            for others in ((T, T, T, F), (T, F, F, T), (T, T, F, T), (T, F, T, T)):
                k += 1
                flags = list(others)
                flags[pos] = d
                base = _base(k, b'f')
                yield {'wc': base['wc'], 'acc': base['acc'], 'flags': flags, 'style': ('positional', 'keyword', 'sparse')[k % 3],
                       'wc_kind': 'int', 'acc_kind': 'bytes', 'text_kind': 'str', 'origin': ('tuple', 'friendly-text', 'raw-text')[k // 3 % 3]}
    # two flags of another kind at once (the same and different values), and the numbers where an int / bytes / str is meant
    nums = [d for d in descs if d['k'] in ('int', 'intsub', 'intflag', 'float', 'none', 'str')]
    for i, d1 in enumerate(nums):
        d2 = nums[(i * 7 + 3) % len(nums)]
        for flags in ([T, T, d1, d2], [T, d1, d1, d1], [d2, d1, T, d1]):
            k += 1
            base = _base(k, b'f')
            yield {'wc': base['wc'], 'acc': base['acc'], 'flags': flags, 'style': ('positional', 'keyword', 'sparse')[k % 3],
                   'wc_kind': ('int', 'intsub', 'intenum', 'intsub')[k % 4], 'acc_kind': ('bytes', 'bytes-subclass')[k // 4 % 2],
                   'text_kind': ('str', 'str-subclass')[k // 8 % 2], 'origin': ('tuple', 'friendly-text', 'raw-text')[k // 3 % 3]}


def strat_flag_values(tier):
    d = st.sampled_from(flag_descriptors())
    plain = st.booleans().map(lambda v: {'k': 'bool', 'v': v})
    num = st.one_of(st.integers(-4, 300), st.integers(0, 80).map(lambda e: 1 << e), st.integers(-(1 << 80), 1 << 80))
    flag = st.one_of(plain, d, num.map(lambda n: {'k': 'int', 'v': n}), num.map(lambda n: {'k': 'intsub', 'v': n}))
    return st.fixed_dictionaries({'wc': st.integers(-128, 127), 'acc': _acc.map(bytes.hex), 'flags': st.tuples(flag, flag, flag, flag).map(list),
                                  'style': st.sampled_from(['positional', 'keyword', 'sparse']),
                                  'wc_kind': st.sampled_from(['int', 'int', 'intsub', 'intenum']),
                                  'acc_kind': st.sampled_from(['bytes', 'bytes-subclass']), 'text_kind': st.sampled_from(['str', 'str-subclass']),
                                  'origin': st.sampled_from(['tuple', 'friendly-text', 'raw-text'])})


def classify_flags(case):
    yield ('neg-wc' if case['wc'] < 0 else 'wc>=0')
    for n, d in zip(FLAG_NAMES, case['flags']):
        if d['k'] != 'bool':
            yield f'{n}:{_flag_label(d)}'
    yield 'style=' + case['style']
    yield 'origin=' + case['origin']
    for key in ('wc_kind', 'acc_kind', 'text_kind'):
        if case[key] not in ('int', 'bytes', 'str'):
            yield f'{key}={case[key]}'


# --------------------------------------------- the FIRST uses of the library in a process, made by threads at the same time
FIRST_OPS = ('render', 'parse', 'reject', 'repr', 'raw', 'parse-raw', 'cell')

_CHILD = r'''
import sys, json, threading
case = json.loads(sys.stdin.read())
sys.path[:0] = [case['repo']]
sys.setswitchinterval(1e-6)
Address = None
if not case['import_in_threads']:
    from pytoniq_core.boc.address import Address
if case['noisy']:
    import logging, warnings
    class _Render(logging.Handler):
        def emit(self, record):
            try:
                record.getMessage()
            except Exception:
                pass
    logging.getLogger().setLevel(1)
    logging.getLogger().addHandler(_Render())
    warnings.simplefilter('error')
    warnings.filterwarnings('default', module=r'(hypothesis|nacl|Cryptodome|bitarray|x25519|coverage|atheris)(\.|$)')
if case['byteorder']:
    sys.byteorder = 'big' if sys.byteorder == 'little' else 'little'
specs = case['threads']
results = [[] for _ in specs]
ready, go = [], []


def facts(A, p, wc, acc):
    a = A((wc, acc))
    return ['addr', p.wc, p.hash_part.hex(), bool(p.is_bounceable), bool(p.is_test_only),
            bool(p == a) and bool(a == p) and hash(p) == hash(a) and len({p, a}) == 1]


def do(A, op, sp, wc, acc):
    v = sp['v']
    b, t, u = bool(v & 1), bool(v & 2), bool(v & 4)
    try:
        if op == 'render':
            return ['text', A((wc, acc)).to_str(True, u, b, t)]
        if op == 'raw':
            return ['text', A((wc, acc)).to_str(False)]
        if op == 'repr':
            repr(A((wc, acc)))
            return ['text', A((wc, acc)).to_str(is_user_friendly=True, is_url_safe=u, is_bounceable=b, is_test_only=t)]
        if op == 'parse':
            return facts(A, A(sp['texts'][v]), wc, acc)
        if op == 'parse-raw':
            return facts(A, A(sp['rawt']), wc, acc)
        if op == 'cell':
            p = A(sp['texts'][v])
            try:
                p = p.to_cell().begin_parse().load_address()
            except Exception:
                return ['skipped']               # the cell form is other properties' business
            return facts(A, p, wc, acc)
        if op == 'reject':
            p = A(sp['bad'])
            return ['accepted', p.wc, p.hash_part.hex()]
    except Exception as e:
        return ['raises', type(e).__name__, str(e)[:200]]
    return ['unknown-op']


def work(k):
    sp = specs[k]
    out = results[k]
    ready.append(k)
    while not go:        # spin: all threads leave the starting line together
        pass
    try:
        A = Address
        if A is None:
            from pytoniq_core.boc.address import Address as A
        wc, acc = sp['wc'], bytes.fromhex(sp['acc'])
        for r in range(case['reps']):
            for op in sp['ops']:
                out.append([op] + do(A, op, sp, wc, acc))
    except BaseException as e:
        out.append(['thread', 'died', type(e).__name__, str(e)[:200]])


ths = [threading.Thread(target=work, args=(k,), daemon=True) for k in range(len(specs))]
for th in ths:
    th.start()
while len(ready) < len(specs):
    pass
go.append(1)
for th in ths:
    th.join()
# afterwards, one thread: every address of the case, every variant
from pytoniq_core.boc.address import Address as A
after = []
for sp in specs:
    wc, acc = sp['wc'], bytes.fromhex(sp['acc'])
    row = []
    for v in range(8):
        s2 = dict(sp, v=v)
        row.append([do(A, 'render', s2, wc, acc), do(A, 'parse', s2, wc, acc)])
    after.append({'variants': row, 'raw': do(A, 'raw', sp, wc, acc), 'parse-raw': do(A, 'parse-raw', sp, wc, acc),
                  'reject': do(A, 'reject', sp, wc, acc)})
sys.stdout.write(json.dumps({'threads': results, 'after': after}))
'''


def _bad_of(text, n, url):
    """the friendly text with one character replaced (position and replacement derived from n)"""
    alpha = URL if url else STD
    pos = n % 48
    r = alpha[(alpha.index(text[pos]) + 1 + n // 48 % 63) % 64]
    return text[:pos] + r + text[pos + 1:]


def _judge_first(op, got, sp, wc, acc):
    """(clause, detail) when the result of one call made in the child process is not what the statement says, else None"""
    v = sp['v']
    b, t, u = bool(v & 1), bool(v & 2), bool(v & 4)
    kind = got[0]
    if op in ('render', 'repr', 'raw'):
        want = refaddr.raw(wc, acc) if op == 'raw' else refaddr.friendly(wc, acc, b, t, u)
        if kind != 'text' or got[1] != want:
            return ('to_str/raw-differs' if op == 'raw' else 'to_str/friendly-differs-from-TEP2'), f'{got[1:]!r} != {want}'
        return None
    if op in ('parse', 'parse-raw', 'cell'):
        text = sp['rawt'] if op == 'parse-raw' else sp['texts'][v]
        form = 'raw' if op == 'parse-raw' else 'friendly'
        if kind == 'skipped':
            return None
        if kind == 'raises':
            return f'parse/{form}-rejected', f'{text}: {got[1:]!r}'
        if kind != 'addr' or got[1] != wc or got[2] != acc.hex() or got[5] is not True:
            return f'parse/{form}-not-equal', f'{text} -> {got[1:]!r}'
        if op == 'parse' and (got[3] != b or got[4] != t):
            return 'parse/flags-lost', f'{text}: bounceable={got[3]} test_only={got[4]}'
        return None
    if op == 'reject':
        if kind == 'accepted':
            return 'substitution-accepted', f'{sp["texts"][v]} -> {sp["bad"]} accepted as {got[1:]!r}'
        return None
    return None


def check_first_use(case):
    """A FRESH interpreter process in which the very first uses of the address code are made by several threads at the same time
    (each thread its own address and variant; render / parse / reject a substituted text / repr / raw form / through a cell), then
    by the main thread again for every variant. Whatever is built at first use (a table, a compiled pattern, a cache) must come out
    the same as when one thread builds it: every rendering equals the TEP-2 reference, every reference text parses back equal with
    its flags, every substituted text is rejected - during the overlap and for the rest of the process's life."""
    import json
    import os
    import subprocess
    import sys
    from harness.core import REPO, HarnessError
    specs = []
    for i, sp in enumerate(case['threads']):
        wc, acc = sp['wc'], bytes.fromhex(sp['acc'])
        texts = [refaddr.friendly(wc, acc, bool(v & 1), bool(v & 2), bool(v & 4)) for v in range(8)]
        specs.append(dict(sp, texts=texts, rawt=refaddr.raw(wc, acc), bad=_bad_of(texts[sp['v']], sp['n'], bool(sp['v'] & 4))))
    inp = dict(case, threads=specs, repo=REPO)
    env = dict(os.environ)
    env.pop('PYTHONPATH', None)
    try:
        p = subprocess.run([sys.executable] + (['-O'] if sys.flags.optimize else []) + ['-c', _CHILD], input=json.dumps(inp),
                           capture_output=True, text=True, timeout=120, env=env)
    except (subprocess.TimeoutExpired, OSError):
        return None                              # no verdict: the machine, not the library
    if p.returncode < 0:
        return None
    try:
        out = json.loads(p.stdout)
    except ValueError:
        out = None
    if p.returncode != 0 or not isinstance(out, dict):
        err = '\n'.join(ln for ln in p.stderr.splitlines() if 'conda' not in ln)[-1500:]
        if 'pytoniq_core' in err and 'Traceback' in err:
            return Fail('fresh-process/valid-uses-end-in-an-exception', err)
        raise HarnessError(f'child process of check_first_use failed (exit {p.returncode}): {err}')
    how = 'overlapping-threads' if len(specs) > 1 else 'one-thread'
    for k, (sp, res) in enumerate(zip(specs, out['threads'])):
        wc, acc = sp['wc'], bytes.fromhex(sp['acc'])
        if len(res) != case['reps'] * len(sp['ops']):
            return Fail(f'first-use/{how}/thread-died', f'thread {k}: {res[-1:]!r}')
        for i, r in enumerate(res):
            bad = _judge_first(r[0], r[1:], sp, wc, acc)
            if bad:
                return Fail(f'first-use/{how}/{bad[0]}', f'fresh process, {len(specs)} threads start together; thread {k}, call {i} ({r[0]} of '
                            f'{wc}:{acc.hex()}): {bad[1]}')
    for k, (sp, aft) in enumerate(zip(specs, out['after'])):
        wc, acc = sp['wc'], bytes.fromhex(sp['acc'])
        for v, (rend, prs) in enumerate(aft['variants']):
            s2 = dict(sp, v=v)
            for op, got in (('render', rend), ('parse', prs)):
                bad = _judge_first(op, got, s2, wc, acc)
                if bad:
                    return Fail(f'first-use/{how}/{bad[0]}', f'fresh process, AFTER {len(specs)} threads made the first calls together, in the '
                                f'main thread: {op} of {wc}:{acc.hex()} variant {v}: {bad[1]}')
        for op in ('raw', 'parse-raw', 'reject'):
            bad = _judge_first(op, aft[op], sp, wc, acc)
            if bad:
                return Fail(f'first-use/{how}/{bad[0]}', f'fresh process, AFTER {len(specs)} threads made the first calls together, in the '
                            f'main thread: {op} of {wc}:{acc.hex()}: {bad[1]}')
    return None


def enum_first_use(tier):
    firsts = (['render'], ['parse'], ['reject', 'parse'], ['repr'], ['raw', 'render'], ['parse-raw', 'parse'], ['cell'], None)
    k = 0
    for rep in range(1 if tier == 'quick' else 12):
        for nthreads in (2, 3, 4, 8):
            for first in firsts:
                k += 1
                threads = []
                for i in range(nthreads):
                    base = _base(k * 8 + i if not (k % 5 == 0) else k * 8, b'first')       # every 5th case: all threads the SAME address
                    ops = first if first is not None else [FIRST_OPS[(i + k) % len(FIRST_OPS)], FIRST_OPS[(i * 3 + k + 1) % len(FIRST_OPS)]]
                    threads.append({'wc': base['wc'], 'acc': base['acc'], 'v': (k + i * 3) % 8, 'n': k * 131 + i * 17, 'ops': list(ops)})
                yield {'threads': threads, 'reps': (1, 3, 20)[k % 3], 'import_in_threads': k % 4 == 3, 'noisy': k % 4 == 2,
                       'byteorder': k % 8 in (1, 6)}
    for first in (['render'], ['parse'], ['reject', 'render', 'parse-raw']):               # the same, one thread only
        k += 1
        base = _base(k, b'first')
        yield {'threads': [{'wc': base['wc'], 'acc': base['acc'], 'v': k % 8, 'n': k, 'ops': first}], 'reps': 2, 'import_in_threads': False,
               'noisy': k % 2 == 0, 'byteorder': k % 2 == 1}


def classify_first(case):
    yield f"threads={len(case['threads'])}"
    for sp in case['threads']:
        yield 'first-call=' + sp['ops'][0]
    if len({(sp['wc'], sp['acc']) for sp in case['threads']}) == 1 and len(case['threads']) > 1:
        yield 'all-threads-same-address'
    for key in ('import_in_threads', 'noisy', 'byteorder'):
        if case[key]:
            yield key


# ------------------------------------------- one OBJECT, several addresses in its life (rendered, re-pointed, rendered again)
ORIGINS_R = ('tuple', 'raw-text', 'friendly-text', 'copy', 'cell', 'subclass')
CLONES = ('none', 'copy.copy', 'deepcopy', 'pickle', 'Address(a)')
HOWS = ('is_hex', 'is_b64', 'assign-both', 'assign-wc', 'assign-hash', 'assign-hash-first', 'init-tuple', 'init-raw', 'init-friendly',
        'init-copy', 'failed-is_b64-bad-crc', 'failed-is_hex-odd-length', 'failed-is_hex-garbage', 'failed-is_b64-of-raw')
TARGETS = ('random', 'other-wc', 'other-acc', 'hash-neighbour', 'one-bit', 'same', 'back')
BEFORE_USES = ('raw', 'repr', 'hash', 'eq', 'cell', 'tl', 'printed', 'default-to_str')


def _target(kind, cur, orig, seed):
    wc, acc = cur
    h = hashlib.sha256(acc + b'target%d' % seed).digest()
    ai = int.from_bytes(acc, 'big')
    if kind == 'other-wc':
        return (wc + 128 + 1 + h[0] % 255) % 256 - 128, acc
    if kind == 'other-acc':
        return wc, hashlib.sha256(h).digest()
    if kind == 'hash-neighbour':                 # int(account) + workchain is the same number
        if wc < 127 and ai > 0:
            return wc + 1, (ai - 1).to_bytes(32, 'big')
        if wc > -128 and ai < (1 << 256) - 1:
            return wc - 1, (ai + 1).to_bytes(32, 'big')
    if kind == 'one-bit':
        return wc, acc[:-1] + bytes([acc[-1] ^ (1 << seed % 8)])
    if kind == 'same':
        return cur
    if kind == 'back':
        return orig
    return h[0] - 128, hashlib.sha256(h).digest()


def _render(obj, v, style):
    """one friendly rendering, the way callers write it: positional, by keyword, or leaving out what is a default"""
    b, t, u = bool(v & 1), bool(v & 2), bool(v & 4)
    if style == 0:
        return call(obj.to_str, True, u, b, t)
    if style == 1:
        return call(lambda: obj.to_str(is_user_friendly=True, is_url_safe=u, is_bounceable=b, is_test_only=t))
    kw = {n: x for n, x, d in zip(FLAG_NAMES, (True, u, b, t), (True, True, True, False)) if x is not d}
    return call(lambda: obj.to_str(**kw))


def _holds(obj, wc, acc, Address, first=0, style=0):
    """(clause, detail) when the object - which holds (wc, acc) NOW - does not round-trip in raw form and all 8 friendly variants
    (variant `first` first), or does not agree in == / hash / set with a new object for (wc, acc); else None"""
    rawt = refaddr.raw(wc, acc)
    ok, txt = call(obj.to_str, False)
    if not ok or txt != rawt:
        return 'to_str/raw-differs', f'{txt!r} != {rawt}'
    ok, fresh = call(Address, (wc, acc))
    if not ok:
        return 'construct/raises', repr(fresh)
    ok, res = call(lambda: (bool(obj == fresh) and bool(fresh == obj), hash(obj) == hash(fresh), len({obj, fresh}) == 1 and {fresh: 1}.get(obj) == 1))
    if not ok or not res[0]:
        return 'eq/not-equal-to-a-new-object-for-the-same-address', f'{rawt}: {res!r}'
    if not res[1] or not res[2]:
        return 'hash/equal-addresses-hash-differently', f'{rawt}: the object and a new Address for the same (workchain, account): {res!r}'
    for i in range(8):
        v = (first + i) % 8
        b, t = bool(v & 1), bool(v & 2)
        want = refaddr.friendly(wc, acc, b, t, bool(v & 4))
        ok, txt = _render(obj, v, (style + i) % 3)
        if not ok or txt != want:
            return 'to_str/friendly-differs-from-TEP2', f'variant {v}: {txt!r}, the object holds {rawt} = {want}'
        ok, p = call(Address, txt)
        if not ok:
            return 'parse/friendly-rejected', f'{txt}: {p!r}'
        ok, res = call(lambda: (p.wc == wc and p.hash_part == acc and bool(p == obj) and bool(obj == p), hash(p) == hash(obj) and len({p, obj}) == 1,
                                bool(p.is_bounceable) == b and bool(p.is_test_only) == t))
        if not ok or not res[0]:
            return 'parse/friendly-not-equal', f'{txt} -> {p.wc}:{p.hash_part.hex()}, rendered from an object that holds {rawt}'
        if not res[1]:
            return 'hash/equal-addresses-hash-differently', f'{txt} parsed back == the object it was rendered from, hashes differ'
        if not res[2]:
            return 'parse/flags-lost', f'{txt}: bounceable={p.is_bounceable!r} test_only={p.is_test_only!r}'
    ok, q = call(Address, rawt)
    if not ok:
        return 'parse/raw-rejected', f'{rawt}: {q!r}'
    ok, res = call(lambda: q.wc == wc and q.hash_part == acc and bool(q == obj) and bool(obj == q) and hash(q) == hash(obj) and len({q, obj}) == 1)
    if not ok or not res:
        return 'parse/raw-not-equal', f'{rawt} -> {q.wc}:{q.hash_part!r}'
    return None


def check_reuse(case):
    """The statement quantifies over addresses, not over objects that have held one address all their life. wc / hash_part are
    plain public attributes, and is_hex() / is_b64() - the two parsers - are public methods that parse INTO the object they are
    called on (`if a.is_hex(text): ...`). One object: obtained (origin), used (a list of renderings / other uses), optionally
    cloned (copy.copy / deepcopy / pickle / Address(a): whatever the object remembers travels or is shared), then re-pointed step
    by step to other VALID addresses - by is_hex / is_b64 of another address's text, by assignment of one or both attributes, by
    calling __init__ again, by a parse that fails half-way (bad checksum: is_b64 has assigned before it raises; odd-length hex:
    is_hex has assigned the workchain before it returns False). After every step the object must round-trip as the address it
    holds NOW (raw form + all 8 variants: text equals the reference, parses back == the object with the same hash and the
    variant's flags; == / hash / set agreement with a new object), and the object it was cloned from / its clone, which was NOT
    touched, must still round-trip as the address it holds. What the object's own is_bounceable / is_test_only attributes say
    after is_b64 is not judged (the text forms' flags are arguments of to_str)."""
    import copy
    import pickle
    from pytoniq_core.boc.address import Address
    from pytoniq_core.boc.builder import Builder
    wc, acc = case['wc'], bytes.fromhex(case['acc'])
    v0 = int(case['bounce']) | int(case['test']) << 1 | int(case['url']) << 2
    orig = (wc, acc)
    origin = case['origin']
    mk = {'tuple': lambda: Address((wc, acc)), 'raw-text': lambda: Address(refaddr.raw(wc, acc)),
          'friendly-text': lambda: Address(refaddr.friendly(wc, acc, bool(v0 & 1), bool(v0 & 2), bool(v0 & 4))),
          'copy': lambda: Address(Address(refaddr.raw(wc, acc))),
          'cell': lambda: Builder().store_address(Address((wc, acc))).end_cell().begin_parse().load_address(),
          'subclass': lambda: type('Derived', (Address,), {})((wc, acc))}[origin]
    ok, src = call(mk)
    if not ok or not isinstance(src, Address) or src.wc != wc or src.hash_part != acc:
        return None if origin == 'cell' else Fail('construct/raises', f'{origin}: {src!r}')
    other = Address((wc, hashlib.sha256(acc + b'other').digest()))
    # what the caller did with the object before
    for k, w in enumerate(case['before']):
        if isinstance(w, int):
            ok, txt = _render(src, w, (case['style'] + k) % 3)
            want = refaddr.friendly(wc, acc, bool(w & 1), bool(w & 2), bool(w & 4))
            if not ok or txt != want:
                return Fail('to_str/friendly-differs-from-TEP2', f'new object from {origin}, variant {w}: {txt!r} != {want}')
        elif w == 'printed':
            describe(src)
        elif w == 'default-to_str':
            call(src.to_str)
        else:
            _use(src, [w], v0, Address, other)
    clone = case['clone']
    if clone == 'none':
        a, by = src, None
    else:
        ok, c = call({'copy.copy': lambda: copy.copy(src), 'deepcopy': lambda: copy.deepcopy(src),
                      'pickle': lambda: pickle.loads(pickle.dumps(src)), 'Address(a)': lambda: Address(src)}[clone])
        if not ok or not isinstance(c, Address) or c.wc != wc or c.hash_part != acc:
            a, by, clone = src, None, 'none'     # cannot be cloned this way: nothing to compare
        else:
            a, by = (c, src) if case['repoint'] == 'clone' else (src, c)
    cur = orig
    for i, stp in enumerate(case['steps']):
        how = stp['how']
        twc, tacc = _target(stp['target'], cur, orig, stp['seed'])
        vt = stp['vt']
        tfr = refaddr.friendly(twc, tacc, bool(vt & 1), bool(vt & 2), bool(vt & 4))
        exp = (twc, tacc)
        failed = how.startswith('failed-')
        if how == 'is_hex':
            ok, r = call(a.is_hex, refaddr.raw(twc, tacc))
        elif how == 'is_b64':
            ok, r = call(a.is_b64, tfr)
        elif how == 'assign-both':
            a.wc, a.hash_part = twc, tacc
            ok, r = True, True
        elif how == 'assign-wc':
            a.wc = twc
            ok, r, exp = True, True, (twc, cur[1])
        elif how == 'assign-hash':
            a.hash_part = tacc
            ok, r, exp = True, True, (cur[0], tacc)
        elif how == 'assign-hash-first':         # the two assignments in the other order, a rendering in between
            a.hash_part = tacc
            _render(a, vt, 0)
            a.wc = twc
            ok, r = True, True
        elif how == 'init-tuple':
            ok, r = call(a.__init__, (twc, tacc))
        elif how == 'init-raw':
            ok, r = call(a.__init__, refaddr.raw(twc, tacc))
        elif how == 'init-friendly':
            ok, r = call(a.__init__, tfr)
        elif how == 'init-copy':
            ok, r = call(a.__init__, Address((twc, tacc)))
        elif how == 'failed-is_b64-bad-crc':
            ok, r = call(a.is_b64, _bad_of(tfr, 45 + stp['seed'] % 3 + 48 * (stp['seed'] % 61), bool(vt & 4)))
        elif how == 'failed-is_hex-odd-length':
            ok, r = call(a.is_hex, refaddr.raw(twc, tacc) + '0')
        elif how == 'failed-is_hex-garbage':
            ok, r = call(a.is_hex, (tfr, f'{twc}:', f'{twc}:zz', 'x:' + tacc.hex(), f'{twc}:{tacc.hex()}:')[stp['seed'] % 5])
        elif how == 'failed-is_b64-of-raw':
            ok, r = call(a.is_b64, refaddr.raw(twc, tacc))
        else:
            raise AssertionError(how)
        ok2, held = call(lambda: (a.wc, a.hash_part))
        if failed:
            # nothing is promised about an attempt that fails; the object holds whatever it holds now - if that is an address
            if not ok2 or type(held[0]) is not int or not -128 <= held[0] <= 127 or type(held[1]) is not bytes or len(held[1]) != 32:
                return None
            exp = held
        else:
            if how in ('is_hex', 'is_b64') and (not ok or not r):
                form = 'raw' if how == 'is_hex' else 'friendly'
                return Fail(f'parse/{form}-rejected', f'{how}() called on an object that holds {refaddr.raw(*cur)} with the text of '
                            f'{refaddr.raw(twc, tacc)}: {r!r}')
            if not ok:
                return None                      # __init__ called again is not accepted: not judged
            if not ok2 or held != exp:
                if how in ('is_hex', 'is_b64'):
                    form = 'raw' if how == 'is_hex' else 'friendly'
                    return Fail(f'parse/{form}-not-equal', f'{how}() of the text of {refaddr.raw(twc, tacc)} on an object that held '
                                f'{refaddr.raw(*cur)} returned {r!r}; the object holds {held!r}')
                return None
        cur = exp
        for w in stp['between']:
            _use(a, [w], vt, Address, other)
        bad = _holds(a, cur[0], cur[1], Address, first=stp['first'], style=case['style'] + i)
        if bad:
            return Fail(f'reused-object/after-{how}/{bad[0]}',
                        f'object from {origin}' + (f', {case["repoint"]} of {clone}' if by is not None else '') +
                        f', used {case["before"]} as {refaddr.raw(wc, acc)}, step {i}: {how} -> now holds {refaddr.raw(*cur)}: {bad[1]}')
        if by is not None:
            bad = _holds(by, wc, acc, Address, first=stp['first'], style=case['style'])
            if bad:
                return Fail(f'reused-object/untouched-{"source" if case["repoint"] == "clone" else "clone"}-of-{clone}/{bad[0]}',
                            f'{refaddr.raw(wc, acc)}: after its {"clone" if case["repoint"] == "clone" else "source"} was re-pointed '
                            f'({how}) to {refaddr.raw(*cur)} and rendered: {bad[1]}')
    return None


def _reuse_case(k, origin, clone, repoint, before, steps):
    return dict(_base(k, b'reuse'), origin=origin, clone=clone, repoint=repoint, before=list(before), style=k % 3, steps=steps)


def enum_reuse(tier):
    k = 0
    befores = ([0, 1, 2, 3, 4, 5, 6, 7], [], ['repr'], ['default-to_str', 'hash'], None, None)
    # every way of re-pointing x every kind of target x what was rendered before (all / nothing / repr only / one variant)
    for how in HOWS:
        for tg in TARGETS:
            for bi, bf in enumerate(befores):
                k += 1
                bf = bf if bf is not None else [(k * 3 + bi) % 8] + (['raw', 'cell'] if bi == 5 else [])
                steps = [{'how': how, 'target': tg if tg != 'back' else 'random', 'seed': k, 'vt': k % 8, 'first': (k // 8) % 8, 'between': []}]
                if tg == 'back' or bi == 0:      # ... and back again / onwards by another way
                    steps.append({'how': HOWS[(k + bi) % 10] if tg != 'back' else how, 'target': tg, 'seed': k + 1, 'vt': (k + 3) % 8,
                                  'first': k % 8, 'between': [['repr'], [], ['hash', 'cell']][k % 3]})
                yield _reuse_case(k, ORIGINS_R[k % len(ORIGINS_R)], 'none', 'source', bf, steps)
    # origin x clone x which of the two is re-pointed x way
    for origin in ORIGINS_R:
        for clone in CLONES[1:]:
            for repoint in ('clone', 'source'):
                for how in ('is_hex', 'is_b64', 'assign-both', 'assign-wc', 'init-raw', 'failed-is_b64-bad-crc'):
                    k += 1
                    bf = ([0, 1, 2, 3, 4, 5, 6, 7], [k % 8], ['repr', (k + 1) % 8])[k % 3]
                    yield _reuse_case(k, origin, clone, repoint, bf,
                                      [{'how': how, 'target': TARGETS[k % 5], 'seed': k, 'vt': k % 8, 'first': (k // 3) % 8, 'between': []}])
    # a long life: five addresses one after the other, every way once
    for r in range(8 if tier == 'quick' else 200):
        k += 1
        steps = [{'how': HOWS[(r + 3 * j) % len(HOWS)], 'target': TARGETS[(r + j) % len(TARGETS)], 'seed': k * 7 + j, 'vt': (r + j) % 8,
                  'first': (r * 5 + j) % 8, 'between': [[], ['repr'], ['raw', 'hash']][(r + j) % 3]} for j in range(5)]
        yield _reuse_case(k, ORIGINS_R[r % len(ORIGINS_R)], CLONES[r % len(CLONES)], ('clone', 'source')[r // 5 % 2], [r % 8, 'repr'], steps)


def strat_reuse(tier):
    v = st.integers(0, 7)
    before = st.lists(st.one_of(v, v, st.sampled_from(BEFORE_USES)), max_size=10)
    step = st.fixed_dictionaries({'how': st.sampled_from(HOWS), 'target': st.sampled_from(TARGETS), 'seed': st.integers(0, 10 ** 6), 'vt': v,
                                  'first': v, 'between': st.lists(st.sampled_from(BEFORE_USES[:6]), max_size=2)})
    return st.fixed_dictionaries({'wc': st.integers(-128, 127), 'acc': _acc.map(bytes.hex), 'bounce': st.booleans(), 'test': st.booleans(),
                                  'url': st.booleans(), 'origin': st.sampled_from(ORIGINS_R), 'clone': st.sampled_from(CLONES + ('none', 'none')),
                                  'repoint': st.sampled_from(['clone', 'source']), 'before': before, 'style': st.integers(0, 2),
                                  'steps': st.lists(step, min_size=1, max_size=4)})


def classify_reuse(case):
    yield ('neg-wc' if case['wc'] < 0 else 'wc>=0')
    yield 'origin=' + case['origin']
    if case['clone'] != 'none':
        yield f"clone={case['clone']}/{case['repoint']}-re-pointed"
    rendered = {w for w in case['before'] if isinstance(w, int)}
    yield 'rendered-before=' + ('none' if not rendered else 'all-8' if len(rendered) == 8 else 'some')
    for w in case['before']:
        if not isinstance(w, int):
            yield 'used-before=' + w
    yield f"steps={len(case['steps'])}"
    for stp in case['steps']:
        yield 'step=' + stp['how']
        yield 'target=' + stp['target']


HEXCH = '0123456789abcdefABCDEF'


def allhex_addresses(n):
    """designed coincidence of the two text forms: addresses whose 48 friendly characters are all hexadecimal digits (tag + workchain
    give 'E'/'0' + 'a'..'f': bounceable or test-only non-bounceable, workchain -96..-1; account characters picked from the hex
    digits, retried until the three checksum characters are hex digits too). Deterministic."""
    import base64
    out, k = [], 0
    while len(out) < n:
        h = hashlib.sha512(b'allhex%d' % k).digest()
        k += 1
        bounce = bool(h[0] & 1)
        head = ('E' if bounce else '0') + 'abcdef'[h[1] % 6] + ''.join(HEXCH[x % 22] for x in h[2:46])
        body = base64.b64decode(head + 'AA')[:34]
        wc = int.from_bytes(body[1:2], 'big', signed=True)
        text = refaddr.friendly(wc, body[2:], bounce, not bounce, True)
        if all(c in HEXCH for c in text):
            out.append({'wc': wc, 'acc': body[2:].hex(), 'bounce': bounce, 'test': not bounce, 'url': bool(len(out) & 1)})
    return out


def enum_roundtrip(tier):
    for wc in range(-128, 128):
        for v in range(8):
            acc = hashlib.sha256(b'acc%d/%d' % (wc, v)).digest()
            yield {'wc': wc, 'acc': acc.hex(), 'bounce': bool(v & 1), 'test': bool(v & 2), 'url': bool(v & 4)}
    yield from allhex_addresses(24 if tier == 'quick' else 400)


def strat_roundtrip(tier):
    return st.fixed_dictionaries({'wc': st.integers(-128, 127), 'acc': _acc.map(bytes.hex), 'bounce': st.booleans(),
                                  'test': st.booleans(), 'url': st.booleans()})


def enum_subst(tier):
    n_addr = 6 if tier == 'quick' else 400
    bases = []
    for k in range(n_addr):
        h = hashlib.sha256(b'subst%d' % k).digest()
        bases.append({'wc': h[0] - 128, 'acc': hashlib.sha256(h).hexdigest(), 'bounce': bool(k & 1), 'test': bool(k & 2),
                      'url': bool(k & 4)})
    bases[1:1] = allhex_addresses(2 if tier == 'quick' else 40)     # texts that are also well-formed hexadecimal numbers
    for base in bases:
        text = refaddr.friendly(base['wc'], bytes.fromhex(base['acc']), base['bounce'], base['test'], base['url'])
        alpha = URL if base['url'] else STD
        for pos in range(48):
            for r in range(64):
                if alpha[r] == text[pos]:
                    continue
                yield dict(base, pos=pos, repl=r)


def strat_subst(tier):
    return st.fixed_dictionaries({'wc': st.integers(-128, 127), 'acc': _acc.map(bytes.hex), 'bounce': st.booleans(),
                                  'test': st.booleans(), 'url': st.booleans(), 'pos': st.integers(0, 47),
                                  'repl': st.integers(0, 63)})


def _base(k, salt=b'b'):
    """k-th deterministic valid address + variant: workchains cycle through the boundaries first"""
    h = hashlib.sha256(salt + b'%d' % k).digest()
    wc = (0, -1, 127, -128, 1, -2)[k % 8] if k % 8 < 6 else h[0] - 128
    return {'wc': wc, 'acc': hashlib.sha256(h).hexdigest(), 'bounce': bool(k & 1), 'test': bool(k & 2), 'url': bool(k & 4)}


def enum_origins(tier):
    k = 0
    for d in range(1, 31):
        for pfx in sorted({0, 1, (1 << d) - 1, (1 << d) >> 1, 0x2AAAAAAA & ((1 << d) - 1)}):
            k += 1
            yield dict(_base(k, b'o'), depth=d, pfx=pfx)
    for i, a in enumerate(allhex_addresses(4)):
        yield dict(a, depth=1 + i, pfx=1)


def strat_origins(tier):
    return st.integers(1, 30).flatmap(lambda d: st.fixed_dictionaries({
        'wc': st.integers(-128, 127), 'acc': _acc.map(bytes.hex), 'bounce': st.booleans(), 'test': st.booleans(),
        'url': st.booleans(), 'depth': st.just(d), 'pfx': st.integers(0, (1 << d) - 1)}))


ODD_LENS = [n for n in range(0, 41) if n != 32] + [48, 64]


def enum_history(tier):
    """every single-step history of the grid, then designed two-step ones (grow, then shrink back)"""
    k = 0

    def case(*ops):
        nonlocal k
        k += 1
        return dict(_base(k, b'h'), history=list(ops))
    for ln in ODD_LENS:
        for via in ('tuple', 'raw', 'edit'):
            for use in (['friendly'], ['repr'], ['reparse', 'hash'], ['copy', 'cell', 'raw']):
                yield case({'op': 'odd-account', 'len': ln, 'fill': ln * 7 % 256, 'wc': (0, -1, 5)[k % 3], 'via': via, 'use': use, 'v': k % 8})
    for i in range(len(ODD_WCS)):
        for via in ('tuple', 'raw'):
            for use in (['friendly'], ['repr', 'hash'], ['raw', 'reparse', 'cell']):
                yield case({'op': 'odd-wc', 'i': i, 'via': via, 'use': use, 'v': k % 8})
    for kind in BAD_KINDS:
        for n in range(8):
            yield case({'op': 'bad-text', 'kind': kind, 'n': n * 37 + (n << 5) % 256, 's': ('', 'A', '====', 'AAAA', ':', 'ff', '0' * 64, 'EQ')[n],
                        'of': ('same', 'other')[n & 1], 'wc': n - 4, 'use': ['friendly', 'repr'], 'v': n})
    for i in range(len(SLOPPY)):
        for pos in range(4):
            yield case({'op': 'sloppy-flags', 'of': ('same', 'other')[(i + pos) & 1], 'pos': pos, 'i': i})
    for how in EDITS:
        for of in ('same', 'same-raw', 'other'):
            for use in (['friendly'], ['repr', 'hash', 'eq'], ['reparse', 'copy', 'tl']):
                yield case({'op': 'edit-result', 'how': how, 'of': of, 'wc': 3, 'use': use, 'v': k % 8})
    for of in ('same', 'parsed', 'other'):
        for d, pfx in ((1, 1), (5, 0), (30, 0x3FFFFFFF), (0, 0), (31, 1), (3, 9)):
            yield case({'op': 'anycast', 'of': of, 'depth': d, 'pfx': pfx, 'use': ['repr', 'hash', 'cell'], 'v': k % 8})
    yield case({'op': 'printed'})
    yield case()
    for l1, l2 in ((33, 31), (31, 33), (64, 0), (0, 64), (33, 33), (34, 30)):
        for use in (['friendly'], ['repr']):
            yield case({'op': 'odd-account', 'len': l1, 'fill': 1, 'wc': 0, 'via': 'tuple', 'use': use, 'v': 0},
                       {'op': 'odd-account', 'len': l2, 'fill': 2, 'wc': 0, 'via': 'raw', 'use': use, 'v': 5})


def strat_history(tier):
    uses = st.lists(st.sampled_from(USES), min_size=1, max_size=3)
    v = st.integers(0, 7)
    wc = st.integers(-128, 127)
    via3 = st.sampled_from(['tuple', 'raw', 'edit'])
    ln = st.one_of(st.sampled_from([31, 33, 0, 1, 34, 36, 64]), st.integers(0, 70)).filter(lambda n: n != 32)
    text = st.one_of(st.text(alphabet=STD + '-_=: ', max_size=60), st.sampled_from(['', '=', 'AAAA', ':', '0:', '-1:', 'ff' * 32]))
    ops = st.one_of(
        st.fixed_dictionaries({'op': st.just('odd-account'), 'len': ln, 'fill': st.integers(0, 255), 'wc': wc, 'via': via3, 'use': uses, 'v': v}),
        st.fixed_dictionaries({'op': st.just('odd-account'), 'len': ln, 'fill': st.integers(0, 255), 'wc': wc, 'via': via3, 'use': uses, 'v': v}),
        st.fixed_dictionaries({'op': st.just('odd-wc'), 'i': st.integers(0, len(ODD_WCS) - 1), 'via': st.sampled_from(['tuple', 'raw']),
                               'use': uses, 'v': v}),
        st.fixed_dictionaries({'op': st.just('bad-text'), 'kind': st.sampled_from(BAD_KINDS), 'n': st.integers(0, 255), 's': text,
                               'of': st.sampled_from(['same', 'other']), 'wc': wc, 'use': uses, 'v': v}),
        st.fixed_dictionaries({'op': st.just('sloppy-flags'), 'of': st.sampled_from(['same', 'other']), 'pos': st.integers(0, 3),
                               'i': st.integers(0, len(SLOPPY) - 1)}),
        st.fixed_dictionaries({'op': st.just('anycast'), 'of': st.sampled_from(['same', 'parsed', 'other']), 'depth': st.integers(0, 31),
                               'pfx': st.integers(0, 2 ** 30), 'use': uses, 'v': v}),
        st.fixed_dictionaries({'op': st.just('edit-result'), 'how': st.sampled_from(EDITS), 'of': st.sampled_from(['same', 'same-raw', 'other']),
                               'wc': wc, 'use': uses, 'v': v}),
        st.just({'op': 'printed'}))
    return st.fixed_dictionaries({'wc': wc, 'acc': _acc.map(bytes.hex), 'bounce': st.booleans(), 'test': st.booleans(),
                                  'url': st.booleans(), 'history': st.lists(ops, min_size=1, max_size=4)})


def classify(case):
    yield ('neg-wc' if case['wc'] < 0 else 'wc>=0')
    yield f"variant={int(case['bounce'])}{int(case['test'])}{int(case['url'])}"
    if 'pos' in case:
        yield 'pos=' + ('tag' if case['pos'] < 2 else 'crc' if case['pos'] >= 45 else 'body')
    if 'depth' in case:
        yield 'anycast-depth=' + ('1' if case['depth'] == 1 else '30' if case['depth'] == 30 else '2..29')
    if 'history' in case:
        yield f"history-len={len(case['history'])}"
        for op in case['history']:
            yield 'step=' + _step_kind(op)
    if 'pos' not in case and all(c in HEXCH for c in refaddr.friendly(case['wc'], bytes.fromhex(case['acc']), case['bounce'],
                                                                      case['test'], True)):
        yield 'friendly-text-all-hex-digits'


def nt(case):
    return ('pos' in case or 'depth' in case or bool(case.get('history')) or case['wc'] < 0 or not case['bounce'] or case['test']
            or not case['url'])


SUBCHECKS = [
    Sub('roundtrip-all-wc-x-variants', check_roundtrip, enum=enum_roundtrip, classify=classify, nontrivial=nt, shards=(4, 4),
        exhaustive=True, note='all 256 workchains x 8 friendly variants, one account id each; plus designed addresses whose friendly '
                              'text is all hex digits (24 quick / 400 thorough)'),
    Sub('roundtrip-random', check_roundtrip, strategy=strat_roundtrip, classify=classify, nontrivial=nt,
        n=(2000, 200000), shards=(8, 32)),
    Sub('substitution-all-48x63', check_subst, enum=enum_subst, classify=classify, nontrivial=nt, shards=(16, 32),
        note='every single-character replacement of each enumerated address (6+2 quick / 400+40 thorough addresses; the +n are '
             'all-hex-digit texts)'),
    Sub('substitution-random', check_subst, strategy=strat_subst, classify=classify, nontrivial=nt,
        n=(3000, 100000), shards=(8, 32)),
    Sub('origins-grid', check_origins, enum=enum_origins, classify=classify, nontrivial=nt, shards=(4, 8),
        note='the same address through every origin; anycast depth 1..30 x boundary prefixes'),
    Sub('origins-random', check_origins, strategy=strat_origins, classify=classify, nontrivial=nt, n=(150, 20000), shards=(4, 16)),
    Sub('history-grid', check_history, enum=enum_history, classify=classify, nontrivial=nt, shards=(8, 16),
        note='every single-step history (odd account lengths 0..40,48,64 x origin x use; odd workchains; rejected texts; sloppy flags; '
             'edited parse results; anycast) and grow-then-shrink pairs; round trip of the valid address re-checked after every step'),
    Sub('history-random', check_history, strategy=strat_history, classify=classify, nontrivial=nt, n=(250, 40000), shards=(8, 32)),
    Sub('flag-values-grid', check_flag_values, enum=enum_flag_values, classify=classify_flags, nontrivial=lambda c: True, shards=(4, 8),
        note='to_str with a value of another kind where True / False is meant: every flag position x ~100 values (even / odd / huge / '
             'negative ints, int subclasses, IntFlag / IntEnum members, floats, Fraction, Decimal, complex, None, strings, bytes, '
             'containers, objects with only __bool__ / __len__ / __index__) x 4 settings of the other flags x positional / keyword / '
             'sparse keyword call; plus pairs, int-subclass workchains, bytes-subclass accounts, str-subclass texts'),
    Sub('flag-values-random', check_flag_values, strategy=strat_flag_values, classify=classify_flags, nontrivial=lambda c: True,
        n=(500, 30000), shards=(4, 16)),
    Sub('reused-object-grid', check_reuse, enum=enum_reuse, classify=classify_reuse, nontrivial=lambda c: True, shards=(4, 8),
        note='one object that holds several addresses in its life: every way of re-pointing it (is_hex / is_b64 called on it, '
             'assignment of wc / hash_part, __init__ again, parses that fail half-way) x kind of target (other workchain only, other '
             'account only, same python hash, one bit, the same, there and back) x what was rendered before (all 8 / nothing / repr / '
             'one variant); origin x clone (copy.copy / deepcopy / pickle / Address(a)) x which of the two is re-pointed; lives of five '
             'addresses. After every step: raw form + 8 variants of the object round-trip as the address it holds now; the untouched '
             'clone / source still as the old one'),
    Sub('reused-object-random', check_reuse, strategy=strat_reuse, classify=classify_reuse, nontrivial=lambda c: True,
        n=(400, 40000), shards=(4, 16)),
    Sub('first-use-in-a-fresh-process', check_first_use, enum=enum_first_use, classify=classify_first, nontrivial=lambda c: True,
        shards=(4, 8), case_cpu_s=120,
        note='a child interpreter in which the FIRST address renderings / parsings of the process are made by 2..8 threads released '
             'together (switch interval 1 us), then all variants once more in its main thread; oracle = the TEP-2 reference'),
]

# the same generated cases, several at a time, checked by threads that run at the same time (core.run_overlapping): per-call state
# kept in a place two calls share shows only there
SUBCHECKS.append(__import__('harness.core', fromlist=['overlapped']).overlapped(next(s for s in SUBCHECKS if s.name == 'roundtrip-random'), k=4, n=(80, 4000)))
