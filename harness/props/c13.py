"""C13 — address text forms round-trip; friendly-form checksum enforced."""
from hypothesis import strategies as st
from harness.core import Sub, Fail, call
from harness.ref import refaddr

RULE = ('case = (workchain -128..127, 32-byte account id, bounceable, test_only, url_safe) and, for substitution '
        'cases, (position 0..47, replacement character of the base64 alphabet in use). round-trip sub-check covers all '
        '256 workchains x 8 variants; substitution sub-check enumerates all 48x63 single-character replacements of a '
        'generated address. non-trivial = non-default flags, negative workchain, or a substitution; distinct = distinct case')
ASSUMPTIONS = ['harness/ref/refaddr.py (TEP-2 rendering) and refcrc bitwise CRC-16; python base64']

STD = 'ABCDEFGHIJKLMNOPQRSTUVWXYZabcdefghijklmnopqrstuvwxyz0123456789+/'
URL = STD[:62] + '-_'


def _addr_eq(a, wc, acc):
    return a.wc == wc and a.hash_part == acc


def check_roundtrip(case):
    from pytoniq_core.boc.address import Address
    wc, acc = case['wc'], bytes.fromhex(case['acc'])
    b, t, u = case['bounce'], case['test'], case['url']
    base = Address((wc, acc))
    # rendering equals the reference, character for character
    ok, text = call(base.to_str, True, u, b, t)
    if not ok:
        return Fail('to_str/raises', repr(text))
    exp = refaddr.friendly(wc, acc, b, t, u)
    if text != exp:
        return Fail('to_str/friendly-differs-from-TEP2', f'{text} != {exp}')
    ok, rawtext = call(base.to_str, False)
    if not ok or rawtext != refaddr.raw(wc, acc):
        return Fail('to_str/raw-differs', f'{rawtext!r} != {refaddr.raw(wc, acc)}')
    # parsing either form yields an equal address with the same flags
    ok, p = call(Address, exp)
    if not ok:
        return Fail('parse/friendly-rejected', f'{exp}: {p!r}')
    if not _addr_eq(p, wc, acc) or not (p == base) or not (base == p):
        return Fail('parse/friendly-not-equal', f'{exp} -> wc={p.wc} hash={p.hash_part.hex()}')
    if bool(p.is_bounceable) != b or bool(p.is_test_only) != t:
        return Fail('parse/flags-lost', f'{exp}: bounceable={p.is_bounceable} test_only={p.is_test_only}, expected {b},{t}')
    ok, q = call(Address, refaddr.raw(wc, acc))
    if not ok:
        return Fail('parse/raw-rejected', f'{refaddr.raw(wc, acc)}: {q!r}')
    if not _addr_eq(q, wc, acc) or not (q == base):
        return Fail('parse/raw-not-equal', f'{refaddr.raw(wc, acc)} -> wc={q.wc} hash={q.hash_part.hex()}')
    if bool(q.is_bounceable) != bool(base.is_bounceable) or bool(q.is_test_only) != bool(base.is_test_only):
        return Fail('parse/raw-form-invents-flags', f'{refaddr.raw(wc, acc)}: bounceable={q.is_bounceable} test_only={q.is_test_only} '
                    f'(the raw form carries no flags; the address it was rendered from has {base.is_bounceable}, {base.is_test_only})')
    # equal addresses hash equally and collapse in sets
    ok, hs = call(lambda: (hash(base), hash(p), hash(q), hash(Address(base))))
    if not ok:
        return Fail('hash/raises', repr(hs))
    if len(set(hs)) != 1:
        return Fail('hash/equal-addresses-hash-differently', str(hs))
    if len({base, p, q}) != 1:
        return Fail('hash/set-does-not-collapse', '')
    # a copy (Address(Address)) of the parsed address, and the address rebuilt from its public parts, render like the original
    for nm, mk in (('copy-of-parsed', lambda: Address(p)), ('from-parts', lambda: Address((p.wc, p.hash_part))), ('copy-of-raw-parsed', lambda: Address(q))):
        ok, cp = call(mk)
        if not ok or not (cp == base) or hash(cp) != hash(base):
            return Fail(f'copy/{nm}-not-equal', f'{exp}: {cp!r}')
        ok, txt = call(cp.to_str, True, u, b, t)
        if not ok or txt != exp:
            return Fail(f'to_str/{nm}-differs-from-TEP2', f'{txt!r} != {exp}')
        ok, txt = call(cp.to_str, False)
        if not ok or txt != refaddr.raw(wc, acc):
            return Fail(f'to_str/{nm}-raw-differs', f'{txt!r}')
    # other addresses rendered in between, chosen so that anything that tells addresses apart by less than (workchain, account)
    # mixes them up: int(account) + workchain equal (neighbouring workchain, account shifted by one), and accounts that differ
    # by a multiple of 2^61 - 1 (the modulus python's hash() reduces integers by)
    ai = int.from_bytes(acc, 'big')
    M61 = (1 << 61) - 1
    for wc2, a2 in ((wc + 1 if wc < 127 else wc - 1, (ai - 1 if wc < 127 else ai + 1) % (1 << 256)), (wc, (ai + M61) % (1 << 256)),
                    (wc, (ai + 5 * M61) % (1 << 256)), (wc, (ai - M61) % (1 << 256))):
        acc2 = a2.to_bytes(32, 'big')
        other = Address((wc2, acc2))
        for v2 in ((b, t, u), (not b, t, u)):
            ok, txt = call(other.to_str, True, v2[2], v2[0], v2[1])
            want2 = refaddr.friendly(wc2, acc2, v2[0], v2[1], v2[2])
            if not ok or txt != want2:
                return Fail('to_str/another-address-rendered-as-an-earlier-one', f'after {exp} was rendered, {wc2}:{acc2.hex()} renders as {txt!r}, '
                            f'expected {want2}')
        ok, txt = call(base.to_str, True, u, b, t)
        if not ok or txt != exp:
            return Fail('to_str/depends-on-earlier-calls', f'{txt!r} != {exp} after another address was rendered')
    # re-rendering the parsed address with its own flags gives the same text
    ok, again = call(p.to_str, True, u, p.is_bounceable, p.is_test_only)
    if not ok or again != exp:
        return Fail('to_str/rerender-differs', f'{again!r} != {exp}')
    # the same object rendered in every other form afterwards (no result carried over from an earlier call), and the first
    # form once more
    for v in list(range(8)) + [None]:
        bb, tt, uu = (b, t, u) if v is None else (bool(v & 1), bool(v & 2), bool(v & 4))
        ok, txt = call(base.to_str, True, uu, bb, tt)
        want = refaddr.friendly(wc, acc, bb, tt, uu)
        if not ok or txt != want:
            return Fail('to_str/depends-on-earlier-calls', f'after other renderings of the same object: {txt!r} != {want}')
        ok, p2 = call(Address, want)
        if not ok or not _addr_eq(p2, wc, acc) or bool(p2.is_bounceable) != bb or bool(p2.is_test_only) != tt:
            return Fail('parse/depends-on-earlier-calls', f'{want}: {p2!r}')
        # the PARSED object rendered in every variant: the flags asked for decide, not the flags of the text it was parsed from
        for v2 in range(8):
            b2, t2, u2 = bool(v2 & 1), bool(v2 & 2), bool(v2 & 4)
            ok, txt = call(p2.to_str, True, u2, b2, t2)
            want2 = refaddr.friendly(wc, acc, b2, t2, u2)
            if not ok or txt != want2:
                return Fail('to_str/of-parsed-address-differs-from-TEP2',
                            f'Address({want!r}).to_str(is_user_friendly=True, is_url_safe={u2}, is_bounceable={b2}, is_test_only={t2}) '
                            f'= {txt!r}, expected {want2}')
        ok, txt = call(p2.to_str, False)
        if not ok or txt != refaddr.raw(wc, acc):
            return Fail('to_str/of-parsed-address-raw-differs', f'Address({want!r}).to_str(False) = {txt!r}')
    return None


def check_subst(case):
    from pytoniq_core.boc.address import Address
    wc, acc = case['wc'], bytes.fromhex(case['acc'])
    text = refaddr.friendly(wc, acc, case['bounce'], case['test'], case['url'])
    alpha = URL if case['url'] else STD
    pos = case['pos']
    repl = alpha[case['repl']]
    if repl == text[pos]:
        repl = alpha[(case['repl'] + 1) % 64]
    mutated = text[:pos] + repl + text[pos + 1:]
    ok, res = call(Address, mutated)
    if ok:
        return Fail('substitution-accepted', f'{text} -> {mutated} (pos {pos}) accepted as wc={res.wc} hash={res.hash_part.hex()}')
    return None


_acc = st.one_of(st.binary(min_size=32, max_size=32),
                 st.sampled_from([b'\x00' * 32, b'\xff' * 32, b'\x00' * 31 + b'\x01', b'\x80' + b'\x00' * 31]))


def enum_roundtrip(tier):
    import hashlib
    for wc in range(-128, 128):
        for v in range(8):
            acc = hashlib.sha256(b'acc%d/%d' % (wc, v)).digest()
            yield {'wc': wc, 'acc': acc.hex(), 'bounce': bool(v & 1), 'test': bool(v & 2), 'url': bool(v & 4)}


def strat_roundtrip(tier):
    return st.fixed_dictionaries({'wc': st.integers(-128, 127), 'acc': _acc.map(bytes.hex), 'bounce': st.booleans(),
                                  'test': st.booleans(), 'url': st.booleans()})


def enum_subst(tier):
    import hashlib
    n_addr = 6 if tier == 'quick' else 400
    for k in range(n_addr):
        h = hashlib.sha256(b'subst%d' % k).digest()
        base = {'wc': h[0] - 128, 'acc': hashlib.sha256(h).hexdigest(), 'bounce': bool(k & 1), 'test': bool(k & 2),
                'url': bool(k & 4)}
        text = refaddr.friendly(base['wc'], bytes.fromhex(base['acc']), base['bounce'], base['test'], base['url'])
        alpha = URL if base['url'] else STD
        for pos in range(48):
            for r in range(64):
                if alpha[r] == text[pos]:
                    continue
                yield dict(base, pos=pos, repl=r)


def strat_subst(tier):
    return st.fixed_dictionaries({'wc': st.integers(-128, 127), 'acc': _acc.map(bytes.hex), 'bounce': st.booleans(),
                                  'test': st.booleans(), 'url': st.booleans(), 'pos': st.integers(0, 47),
                                  'repl': st.integers(0, 63)})


def classify(case):
    yield ('neg-wc' if case['wc'] < 0 else 'wc>=0')
    yield f"variant={int(case['bounce'])}{int(case['test'])}{int(case['url'])}"
    if 'pos' in case:
        yield 'pos=' + ('tag' if case['pos'] < 2 else 'crc' if case['pos'] >= 45 else 'body')


def nt(case):
    return 'pos' in case or case['wc'] < 0 or not case['bounce'] or case['test'] or not case['url']


SUBCHECKS = [
    Sub('roundtrip-all-wc-x-variants', check_roundtrip, enum=enum_roundtrip, classify=classify, nontrivial=nt, shards=(4, 4),
        exhaustive=True, note='all 256 workchains x 8 friendly variants, one account id each'),
    Sub('roundtrip-random', check_roundtrip, strategy=strat_roundtrip, classify=classify, nontrivial=nt,
        n=(2000, 200000), shards=(8, 32)),
    Sub('substitution-all-48x63', check_subst, enum=enum_subst, classify=classify, nontrivial=nt, shards=(16, 32),
        note='every single-character replacement of each enumerated address (6 quick / 400 thorough addresses)'),
    Sub('substitution-random', check_subst, strategy=strat_subst, classify=classify, nontrivial=nt,
        n=(3000, 100000), shards=(8, 32)),
]
